// Concurrency support for the sync flavours only (included in the sync_digraph / sync_ungraph modules):
//   - free-running stress (smoke test; exhibits blocking that the deterministic scheduler cannot create)
//   - the deterministic cooperative scheduler of the `conc` channel (lock-point hook, cfg gdsl_verif)
pub mod conc {
    use super::*;
    use std::sync::atomic::{AtomicBool, AtomicU64, Ordering};
    use std::sync::Arc;
    use std::time::{Duration, Instant};

    type CN = Node<Kt, i64, Et>;

    /// threads hammer queries and mutations on two shared nodes; returns "ok" or a description of the stall
    pub fn stress(which: &str, millis: u64) -> String {
        let a: CN = Node::new(Kt::of(1), 0);
        let b: CN = Node::new(Kt::of(2), 0);
        a.connect(&b, Et::of(5));
        // "traversals": a third and a fourth node, a ring 1 -> 2 -> 3 -> 4 -> 1 that the writer never touches
        let c3: CN = Node::new(Kt::of(3), 7);
        let d4: CN = Node::new(Kt::of(4), -7);
        if which == "traversals" {
            b.connect(&c3, Et::of(6));
            c3.connect(&d4, Et::of(7));
            d4.connect(&a, Et::of(8));
        }
        let panicked = Arc::new(AtomicBool::new(false));
        let stop = Arc::new(AtomicBool::new(false));
        // "crossing": two readers that look each other's node up (a -> b, b -> a) while a writer waits on each of the two
        // nodes: a lookup that holds its own node's guard while taking the neighbour's deadlocks all four threads
        let nth: usize = if which == "crossing" { 4 } else { 3 };
        if which == "crossing" {
            b.connect(&a, Et::of(9));
        }
        let progress: Vec<Arc<AtomicU64>> = (0..nth).map(|_| Arc::new(AtomicU64::new(0))).collect();
        let mut handles = Vec::new();
        for t in 0..nth {
            let (a, b) = (a.clone(), b.clone());
            let (c3, d4) = (c3.clone(), d4.clone());
            let panicked = panicked.clone();
            let stop = stop.clone();
            let prog = progress[t].clone();
            let which = which.to_string();
            handles.push(std::thread::spawn(move || {
                let mut i = 0u64;
                let r = std::panic::catch_unwind(std::panic::AssertUnwindSafe(|| {
                while !stop.load(Ordering::Relaxed) {
                    match (which.as_str(), t) {
                        // readers run every traversal entry point from two shared nodes while one writer adds and removes
                        // chords (and parallel ring edges) between the nodes being traversed
                        ("traversals", 0) => { traverse_all(&a); traverse_all(&c3); }
                        ("traversals", 1) => { traverse_all(&b); traverse_all(&d4); query_all(&c3); }
                        ("traversals", _) => {
                            a.connect(&c3, Et::of(i));
                            c3.connect(&b, Et::of(i));
                            b.connect(&c3, Et::of(i + 1));
                            // the ONLY writer: its own calls are sequential, so each removal must succeed and return a value
                            // this thread stored (readers alone never change what a mutation returns)
                            if a.disconnect(&Kt::of(3)).is_err() || c3.disconnect(&Kt::of(2)).is_err() {
                                panic!("the only writer's disconnect of an edge it has just connected failed");
                            }
                            if b.disconnect(&Kt::of(3)).is_err() {   // removes the OLDEST 2->3 edge: the ring keeps one
                                panic!("the only writer's disconnect failed");
                            }
                        }
                        ("crossing", 0) => { query_all(&a); }
                        ("crossing", 1) => { query_all(&b); }
                        ("crossing", 2) => {
                            c3.connect(&a, Et::of(i));
                            if c3.disconnect(&Kt::of(1)).is_err() { panic!("the only writer on this pair failed to remove its own edge"); }
                        }
                        ("crossing", _) => {
                            d4.connect(&b, Et::of(i));
                            if d4.disconnect(&Kt::of(2)).is_err() { panic!("the only writer on this pair failed to remove its own edge"); }
                        }
                        // isolate (many critical sections, on the node and on every neighbour) against readers only
                        ("isolate", 0) => { query_all(&a); traverse_all(&b); }
                        ("isolate", 1) => { query_all(&b); traverse_all(&a); }
                        ("isolate", _) => {
                            a.connect(&b, Et::of(i));
                            b.connect(&a, Et::of(i + 1));
                            a.connect(&a, Et::of(i + 2));
                            a.isolate();
                            if a.is_connected(&Kt::of(2)) || b.is_connected(&Kt::of(1)) {
                                panic!("the only writer still sees an edge after its own isolate()");
                            }
                        }
                        // readers: the query under test
                        ("queries", 0) | ("queries", 1) => {
                            query_all(&a);
                            query_all(&b);
                        }
                        // writer: connect then disconnect keeps the graph small
                        ("queries", _) => {
                            a.connect(&b, Et::of(i));
                            let _ = a.disconnect(&Kt::of(2));
                        }
                        ("disconnect", 0) => {
                            a.connect(&b, Et::of(i));
                            let _ = a.disconnect(&Kt::of(2));
                        }
                        ("disconnect", 1) => {
                            b.connect(&a, Et::of(i));
                            let _ = b.disconnect(&Kt::of(1));
                        }
                        _ => {
                            query_all(&a);
                        }
                    }
                    i += 1;
                    prog.store(i, Ordering::Relaxed);
                }
                }));
                if r.is_err() { panicked.store(true, Ordering::Relaxed); }
            }));
        }
        let t0 = Instant::now();
        let mut last: Vec<u64> = vec![0; nth];
        let mut stalled_since: Option<Instant> = None;
        let mut verdict = "ok".to_string();
        while t0.elapsed() < Duration::from_millis(millis) {
            std::thread::sleep(Duration::from_millis(50));
            let now: Vec<u64> = progress.iter().map(|p| p.load(Ordering::Relaxed)).collect();
            if now == last {
                let s = stalled_since.get_or_insert(Instant::now());
                if s.elapsed() > Duration::from_millis(700) {
                    verdict = format!("stall: no thread made progress for 0.7s (iterations {:?}): deadlock", now);
                    break;
                }
            } else {
                stalled_since = None;
                last = now;
            }
        }
        stop.store(true, Ordering::Relaxed);
        if verdict == "ok" {
            // the threads must notice `stop` promptly; one that does not is blocked inside the library
            let t1 = Instant::now();
            while handles.iter().any(|h| !h.is_finished()) {
                if t1.elapsed() > Duration::from_millis(1500) {
                    verdict = "stall: threads did not finish after the stop signal: deadlock".to_string();
                    break;
                }
                std::thread::sleep(Duration::from_millis(20));
            }
            if verdict == "ok" {
                for h in handles {
                    let _ = h.join();
                }
            }
        }
        if verdict == "ok" && panicked.load(Ordering::Relaxed) {
            verdict = "panic: a thread panicked during the free-running run".to_string();
        }
        if verdict == "ok" {
            // at quiescence the mirror / symmetry invariant holds (single-writer scenarios: always; "disconnect" has two
            // mutating threads on one pair, where half-edges are the known finding, and is not examined)
            if which != "disconnect" {
                if let Err(m) = mirror_ok(&[&a, &b, &c3, &d4]) {
                    verdict = format!("mirror broken at quiescence: {}", m);
                }
            }
        }
        if verdict == "ok" {
            // no lock may be left poisoned: every node still answers its queries
            let r = std::panic::catch_unwind(std::panic::AssertUnwindSafe(|| { for n in [&a, &b, &c3, &d4] { query_all(n); } }));
            if r.is_err() { verdict = "poisoned: a node no longer answers queries after the run".to_string(); }
        }
        // on a stall the threads are stuck: do not join (the process exits)
        verdict
    }

    // ---------------------------------------------------------------------------------------------
    // deterministic cooperative scheduler (conc channel): real OS threads, one running at a time,
    // switching only at lock points (gdsl::verif_hook::lock_point, cfg gdsl_verif)
    // ---------------------------------------------------------------------------------------------
    use std::cell::Cell;
    use std::sync::{Condvar, Mutex};

    #[derive(Clone)]
    struct Parked {
        key: String,
        is_write: bool,
        held: bool,    // some guard on this lock is alive although every other thread is parked at a lock point
        blocked: bool, // the acquisition would block right now
    }

    struct State {
        parked: Vec<Option<Parked>>,
        finished: Vec<bool>,
        turn: Option<usize>,
        granted: Option<Parked>,
    }

    struct Sched {
        m: Mutex<State>,
        cv: Condvar,
    }

    thread_local! {
        static TID: Cell<Option<usize>> = Cell::new(None);
    }

    fn call_str(n: &[CN], st: &[String]) -> String {
        let node = |i: &String| n[crate::pusize(i)].clone();
        match st[0].as_str() {
            "con" => {
                node(&st[1]).connect(&node(&st[2]), Et::of(crate::pu64(&st[3])));
                "ok".to_string()
            }
            "try" => match node(&st[1]).try_connect(&node(&st[2]), Et::of(crate::pu64(&st[3]))) {
                Ok(()) => "ok".to_string(),
                Err(_) => "err_exists".to_string(),
            },
            "dis" => match node(&st[1]).disconnect(&Kt::of(crate::pu64(&st[2]))) {
                Ok(e) => format!("ok_{}", e),
                Err(_) => "err_notfound".to_string(),
            },
            "iso" => {
                node(&st[1]).isolate();
                "ok".to_string()
            }
            "conn" => format!("{}", node(&st[1]).is_connected(&Kt::of(crate::pu64(&st[2]))) as u8),
            other => conc_query(other, &node(&st[1])),
        }
    }

    /// runs the thread programs under the schedule; returns the observation line
    pub fn run_sched(nodes: &[CN], progs: &[Vec<Vec<String>>], schedule: &[usize]) -> String {
        let nt = progs.len();
        let sched = Arc::new(Sched {
            m: Mutex::new(State { parked: vec![None; nt], finished: vec![false; nt], turn: None, granted: None }),
            cv: Condvar::new(),
        });
        let s2 = sched.clone();
        #[cfg(gdsl_verif)]
        gdsl::verif_hook::install(Some(Arc::new(move |key: &str, is_write: bool, probe: &dyn Fn(bool) -> bool| {
            let tid = match TID.with(|t| t.get()) {
                Some(t) => t,
                None => return,
            };
            // park; probes are only meaningful when every other thread is parked too, i.e. once the turn is granted
            let p = Parked { key: key.to_string(), is_write, held: false, blocked: false };
            let mut st = s2.m.lock().unwrap();
            st.parked[tid] = Some(p);
            s2.cv.notify_all();
            loop {
                while st.turn != Some(tid) {
                    st = s2.cv.wait(st).unwrap();
                }
                // all other threads are parked at lock points (or finished): probe now
                let held = probe(true);
                let blocked = probe(is_write);
                if blocked {
                    if let Some(p) = st.parked[tid].as_mut() {
                        p.blocked = true;
                        p.held = held;
                    }
                    st.turn = None;
                    s2.cv.notify_all();
                    continue;
                }
                if let Some(p) = st.parked[tid].as_mut() {
                    p.held = held;
                    p.blocked = false;
                }
                st.granted = st.parked[tid].take();
                st.turn = None;
                s2.cv.notify_all();
                return;
            }
        })));
        let results: Vec<Arc<Mutex<(Vec<String>, &'static str)>>> = (0..nt).map(|_| Arc::new(Mutex::new((Vec::new(), "running")))).collect();
        let mut handles = Vec::new();
        for tid in 0..nt {
            let my_nodes: Vec<CN> = nodes.to_vec();
            let prog = progs[tid].clone();
            let res = results[tid].clone();
            let sc = sched.clone();
            handles.push(std::thread::spawn(move || {
                TID.with(|t| t.set(Some(tid)));
                let r = std::panic::catch_unwind(std::panic::AssertUnwindSafe(|| {
                    for st in &prog {
                        let s = call_str(&my_nodes, st);
                        res.lock().unwrap().0.push(s);
                    }
                }));
                res.lock().unwrap().1 = if r.is_ok() { "done" } else { "panic" };
                let mut st = sc.m.lock().unwrap();
                st.finished[tid] = true;
                st.parked[tid] = None;
                sc.cv.notify_all();
            }));
        }
        let mut events: Vec<String> = Vec::new();
        let mut si = 0usize;
        let mut verdict = String::new();
        let mut blocked_rounds = 0usize;
        loop {
            // wait until every thread is parked at a lock point or finished
            let mut st = sched.m.lock().unwrap();
            let deadline = Instant::now() + Duration::from_secs(4);
            loop {
                let quiet = (0..nt).all(|t| st.finished[t] || st.parked[t].is_some()) && st.turn.is_none();
                if quiet {
                    break;
                }
                let now = Instant::now();
                if now >= deadline {
                    verdict = " | HANG (a thread neither reached a lock point nor finished: blocked inside the library)".to_string();
                    break;
                }
                let (g, _) = sched.cv.wait_timeout(st, deadline - now).unwrap();
                st = g;
            }
            if !verdict.is_empty() {
                break;
            }
            if (0..nt).all(|t| st.finished[t]) {
                break;
            }
            let runnable = |t: usize, st: &State| -> bool { !st.finished[t] && st.parked[t].as_ref().map(|p| !p.blocked).unwrap_or(false) };
            let parked_any = |t: usize, st: &State| -> bool { !st.finished[t] && st.parked[t].is_some() };
            let mut pick = None;
            if si < schedule.len() {
                let want = schedule[si];
                if want < nt && runnable(want, &st) {
                    pick = Some(want);
                }
            }
            si += 1;
            if pick.is_none() {
                pick = (0..nt).find(|&t| runnable(t, &st));
            }
            if pick.is_none() {
                // only threads that reported "would block" remain: retry them (the holder may have moved on)
                pick = (0..nt).find(|&t| parked_any(t, &st));
                for t in 0..nt {
                    if let Some(p) = st.parked[t].as_mut() {
                        p.blocked = false;
                    }
                }
            }
            let tid = match pick {
                Some(t) => t,
                None => {
                    verdict = " | DEADLOCK (every unfinished thread is blocked on a lock)".to_string();
                    break;
                }
            };
            // grant the turn; the thread probes the lock (everyone else is parked) and either proceeds or reports "would block"
            st.granted = None;
            st.turn = Some(tid);
            sched.cv.notify_all();
            let deadline = Instant::now() + Duration::from_secs(4);
            while st.turn.is_some() {
                let now = Instant::now();
                if now >= deadline {
                    verdict = " | HANG (scheduler: granted thread did not respond)".to_string();
                    break;
                }
                let (g, _) = sched.cv.wait_timeout(st, deadline - now).unwrap();
                st = g;
            }
            if !verdict.is_empty() {
                break;
            }
            match st.granted.take() {
                Some(p) => {
                    events.push(format!("{}:{}:{}{}", tid, p.key, if p.is_write { "w" } else { "r" }, if p.held { "!held" } else { "" }));
                }
                None => {
                    // the thread found its lock taken: it stays parked as blocked; this schedule slot is not consumed
                    if si > 0 {
                        si -= 1;
                    }
                    blocked_rounds += 1;
                    if blocked_rounds > 4 * nt {
                        verdict = " | DEADLOCK (every unfinished thread is blocked on a lock)".to_string();
                        break;
                    }
                    continue;
                }
            }
            blocked_rounds = 0;
        }
        if !verdict.is_empty() {
            // threads are stuck: the process cannot continue this case
            let mut s = format!("ev {}", events.join(" "));
            s.push_str(&verdict);
            println!("{}", s);
            return s;
        }
        for h in handles {
            let _ = h.join();
        }
        #[cfg(gdsl_verif)]
        gdsl::verif_hook::install(None);
        let mut s = String::from("ev");
        for e in &events {
            s.push(' ');
            s.push_str(e);
        }
        for (t, r) in results.iter().enumerate() {
            let g = r.lock().unwrap();
            s.push_str(&format!(" | t{} {}", t, g.1));
            for x in &g.0 {
                s.push(' ');
                s.push_str(x);
            }
        }
        let mut pois: Vec<u64> = Vec::new();
        let mut snap = String::new();
        for n in nodes {
            let one = std::panic::catch_unwind(std::panic::AssertUnwindSafe(|| conc_snap(n)));
            match one {
                Ok(x) => snap.push_str(&format!(" {}", x)),
                Err(_) => {
                    pois.push(n.key().n());
                    snap.push_str(&format!(" [{} poisoned]", n.key()));
                }
            }
        }
        pois.sort();
        s.push_str(" | pois");
        for k in pois {
            s.push_str(&format!(" {}", k));
        }
        s.push_str(" | snap");
        s.push_str(&snap);
        s
    }
}
