// Concurrency support for the sync flavours only (included in the sync_digraph / sync_ungraph modules):
//   - free-running stress (smoke test; exhibits blocking that the deterministic scheduler cannot create)
//   - the deterministic cooperative scheduler of the `conc` channel (lock-point hook, cfg gdsl_verif)
pub mod conc {
    use super::*;
    use std::sync::atomic::{AtomicBool, AtomicU64, Ordering};
    use std::sync::Arc;
    use std::time::{Duration, Instant};

    type CN = Node<u64, i64, u64>;

    /// threads hammer queries and mutations on two shared nodes; returns "ok" or a description of the stall
    pub fn stress(which: &str, millis: u64) -> String {
        let a: CN = Node::new(1, 0);
        let b: CN = Node::new(2, 0);
        a.connect(&b, 5);
        let stop = Arc::new(AtomicBool::new(false));
        let progress: Vec<Arc<AtomicU64>> = (0..3).map(|_| Arc::new(AtomicU64::new(0))).collect();
        let mut handles = Vec::new();
        for t in 0..3usize {
            let (a, b) = (a.clone(), b.clone());
            let stop = stop.clone();
            let prog = progress[t].clone();
            let which = which.to_string();
            handles.push(std::thread::spawn(move || {
                let mut i = 0u64;
                while !stop.load(Ordering::Relaxed) {
                    match (which.as_str(), t) {
                        // readers: the query under test
                        ("queries", 0) | ("queries", 1) => {
                            query_all(&a);
                            query_all(&b);
                        }
                        // writer: connect then disconnect keeps the graph small
                        ("queries", _) => {
                            a.connect(&b, i);
                            let _ = a.disconnect(&2);
                        }
                        ("disconnect", 0) => {
                            a.connect(&b, i);
                            let _ = a.disconnect(&2);
                        }
                        ("disconnect", 1) => {
                            b.connect(&a, i);
                            let _ = b.disconnect(&1);
                        }
                        _ => {
                            query_all(&a);
                        }
                    }
                    i += 1;
                    prog.store(i, Ordering::Relaxed);
                }
            }));
        }
        let t0 = Instant::now();
        let mut last: Vec<u64> = vec![0; 3];
        let mut stalled_since: Option<Instant> = None;
        let mut verdict = "ok".to_string();
        while t0.elapsed() < Duration::from_millis(millis) {
            std::thread::sleep(Duration::from_millis(50));
            let now: Vec<u64> = progress.iter().map(|p| p.load(Ordering::Relaxed)).collect();
            if now == last {
                let s = stalled_since.get_or_insert(Instant::now());
                if s.elapsed() > Duration::from_millis(1500) {
                    verdict = format!("stall: no thread made progress for 1.5s (iterations {:?}): deadlock", now);
                    break;
                }
            } else {
                stalled_since = None;
                last = now;
            }
        }
        stop.store(true, Ordering::Relaxed);
        if verdict == "ok" {
            for h in handles {
                let _ = h.join();
            }
        }
        // on a stall the threads are stuck: do not join (the process exits)
        verdict
    }
}
