// gdsl verification harness: runs case files (see /verif/DESIGN.md §3.3) against
// the four flavours of the implementation in /repo and prints one canonical
// observation line per step.  The same files are run by the extracted Coq model
// (ocaml/driver.ml); the two outputs must be identical.
pub mod shape;
use std::cell::RefCell;
use std::io::Write;
use std::panic::{catch_unwind, AssertUnwindSafe};
use std::sync::atomic::{AtomicU64, Ordering};
use std::sync::Arc;

pub struct Case {
    pub name: String,
    pub class: char, // 'D' directed, 'U' undirected
    pub steps: Vec<Vec<String>>,
}

pub fn parse_cases(text: &str) -> Vec<Case> {
    let mut cases = Vec::new();
    let mut cur: Option<Case> = None;
    for line in text.lines() {
        let line = line.trim();
        if line.is_empty() || line.starts_with('#') {
            continue;
        }
        let toks: Vec<String> = line.split_whitespace().map(|s| s.to_string()).collect();
        if toks[0] == "case" {
            if let Some(c) = cur.take() {
                cases.push(c);
            }
            cur = Some(Case {
                name: toks[1].clone(),
                class: toks[2].chars().next().unwrap(),
                steps: Vec::new(),
            });
        } else if let Some(c) = cur.as_mut() {
            c.steps.push(toks);
        }
    }
    if let Some(c) = cur.take() {
        cases.push(c);
    }
    cases
}

thread_local! {
    pub static LAST_PANIC: RefCell<String> = RefCell::new(String::new());
}


/// Payload types of the harness.  Every observation is printed as plain numbers, so the model and the oracles never see
/// them; they exist so that library code which (wrongly) depends on the payload TYPES is exercised:
///   Ky: a key whose Hash is deliberately coarse (legal: equal keys hash equally; five buckets), not Copy, not Ord —
///       code that decides identity by hash alone, or needs more than Clone + Hash + Eq + Display, is exposed;
///   Ev: an edge value that is 80 bytes wide, not Copy — code that takes another path for large entries is exposed.
/// Three flavours run with (Ky, Ev); sync_ungraph runs with plain (u64, u64).
pub trait Num: Clone {
    fn of(x: u64) -> Self;
    fn n(&self) -> u64;
}
impl Num for u64 {
    fn of(x: u64) -> u64 {
        x
    }
    fn n(&self) -> u64 {
        *self
    }
}
// A key type whose Display is NOT injective (two distinct keys print alike) and whose Hash is coarse: identity of keys is
// Eq, nothing else.  Self-checking probe (step `klossy`): build, serialise (JSON and CBOR), deserialise, compare per node;
// and a document whose edge names an UNDECLARED key that prints like a declared one must be rejected.
#[derive(Clone, PartialEq, Eq, Debug)]
pub struct Lk(pub u8, pub u64);
impl serde::Serialize for Lk {
    fn serialize<S: serde::Serializer>(&self, s: S) -> Result<S::Ok, S::Error> {
        (self.0, self.1).serialize(s)
    }
}
impl<'de> serde::Deserialize<'de> for Lk {
    fn deserialize<D: serde::Deserializer<'de>>(d: D) -> Result<Lk, D::Error> {
        <(u8, u64)>::deserialize(d).map(|(a, b)| Lk(a, b))
    }
}
impl std::hash::Hash for Lk {
    fn hash<H: std::hash::Hasher>(&self, state: &mut H) {
        (self.1 % 2).hash(state)
    }
}
impl std::fmt::Display for Lk {
    fn fmt(&self, f: &mut std::fmt::Formatter<'_>) -> std::fmt::Result {
        write!(f, "#{}", self.1)
    }
}
macro_rules! lossy_probe {
    ($name:ident, $fl:ident, $iter:ident, $directed:expr) => {
        pub fn $name() -> String {
            use gdsl::$fl::{Graph, Node};
            let keys = [Lk(0, 1), Lk(1, 1), Lk(0, 2), Lk(1, 2)];
            let nodes: Vec<Node<Lk, i64, u64>> = keys.iter().enumerate().map(|(i, k)| Node::new(k.clone(), i as i64)).collect();
            nodes[0].connect(&nodes[2], 10);
            nodes[1].connect(&nodes[3], 11);
            nodes[1].connect(&nodes[0], 12);
            nodes[3].connect(&nodes[3], 13);
            let mut g: Graph<Lk, i64, u64> = Graph::new();
            for n in &nodes {
                g.insert(n.clone());
            }
            // node operations resolve neighbours by Eq of the key, never by its text: Lk(1, 2) prints like Lk(0, 2)
            {
                let p = Node::<Lk, i64, u64>::new(Lk(0, 1), 0);
                let q = Node::<Lk, i64, u64>::new(Lk(0, 2), 0);
                let r = Node::<Lk, i64, u64>::new(Lk(1, 2), 0);
                p.connect(&q, 1);
                if p.is_connected(r.key()) || !p.is_connected(q.key()) {
                    return "is_connected confuses keys that print alike".to_string();
                }
                if p.try_connect(&r, 2).is_err() {
                    return "try_connect refused a node whose key only PRINTS like a neighbour's".to_string();
                }
                if p.try_connect(&q, 3).is_ok() {
                    return "try_connect accepted a second edge to the same neighbour".to_string();
                }
                match p.disconnect(r.key()) {
                    Ok(2) => {}
                    other => return format!("disconnect by key removed {:?} instead of the edge to the named key", other.ok()),
                }
                if !p.is_connected(q.key()) || p.is_connected(r.key()) {
                    return "disconnect removed the edge to a look-alike key".to_string();
                }
                if p.bfs().target(r.key()).search().is_some() || p.dfs().target(q.key()).search_path().is_none() {
                    return "a targeted search confuses keys that print alike".to_string();
                }
                q.isolate();
                if p.is_connected(q.key()) {
                    return "isolate left the edge".to_string();
                }
            }
            let show = |g: &Graph<Lk, i64, u64>| -> Vec<String> {
                let mut v: Vec<String> = keys
                    .iter()
                    .map(|k| match g.get(k) {
                        Some(n) => {
                            let mut es: Vec<String> = n.$iter().map(|e| format!("{:?}>{:?}:{}", e.source().key(), e.target().key(), e.value())).collect();
                            if !$directed {
                                es.sort();
                            }
                            format!("{:?}={} [{}]", k, n.value(), es.join(" "))
                        }
                        None => format!("{:?} missing", k),
                    })
                    .collect();
                v.push(format!("len {}", g.len()));
                v
            };
            let want = show(&g);
            let json = serde_json::to_string(&g).unwrap();
            let back: Graph<Lk, i64, u64> = match serde_json::from_str(&json) {
                Ok(b) => b,
                Err(e) => return format!("json round trip failed: {}", e),
            };
            if show(&back) != want {
                return format!("json round trip differs: {:?} vs {:?}", show(&back), want);
            }
            let cbor = serde_cbor::to_vec(&g).unwrap();
            let back2: Graph<Lk, i64, u64> = match serde_cbor::from_slice(&cbor) {
                Ok(b) => b,
                Err(e) => return format!("cbor round trip failed: {}", e),
            };
            if show(&back2) != want {
                return format!("cbor round trip differs: {:?} vs {:?}", show(&back2), want);
            }
            // declared: (0,1) and (0,2); the edge names (1,2), which prints like (0,2) but is not declared
            let doc = serde_json::json!([[[[0, 1], 5], [[0, 2], 6]], [[[0, 1], [1, 2], 9]]]);
            match serde_json::from_value::<Graph<Lk, i64, u64>>(doc) {
                Ok(_) => "an edge naming an undeclared key that PRINTS like a declared one was accepted".to_string(),
                Err(_) => "ok".to_string(),
            }
        }
    };
}
lossy_probe!(lossy_digraph, digraph, iter_out, true);
lossy_probe!(lossy_sync_digraph, sync_digraph, iter_out, true);
lossy_probe!(lossy_ungraph, ungraph, iter, false);
lossy_probe!(lossy_sync_ungraph, sync_ungraph, iter, false);

// ---------------------------------------------------------------------------------------------------------------
// Node VALUE type whose PartialOrd deliberately disagrees with its Ord (C06): nodes are ordered by their values
// through `Ord` ("identically through Ord and PartialOrd"), and priority-first search expands by `N::cmp`; the value's
// own `partial_cmp` must never decide anything.  Self-checking probe (step `nvord`): all six operators on nodes against
// the integers, and the path of pfs in min and max mode through the child of least / greatest value.
#[derive(Clone, Debug, PartialEq, Eq)]
pub struct Nv(pub i64);
impl Ord for Nv {
    fn cmp(&self, o: &Self) -> std::cmp::Ordering {
        self.0.cmp(&o.0)
    }
}
impl PartialOrd for Nv {
    fn partial_cmp(&self, o: &Self) -> Option<std::cmp::Ordering> {
        Some(o.0.cmp(&self.0)) // reversed on purpose
    }
}

macro_rules! nvord_probe {
    ($name:ident, $fl:ident) => {
        pub fn $name() -> String {
            use gdsl::$fl::Node;
            let vals = [3i64, 1, 4, 1, 5];
            let ns: Vec<Node<u64, Nv, u64>> = vals.iter().enumerate().map(|(i, v)| Node::new(i as u64, Nv(*v))).collect();
            for (i, a) in ns.iter().enumerate() {
                for (j, b) in ns.iter().enumerate() {
                    let want = vals[i].cmp(&vals[j]);
                    if a.cmp(b) != want {
                        return format!("cmp of nodes with values {} {} is {:?}", vals[i], vals[j], a.cmp(b));
                    }
                    if a.partial_cmp(b) != Some(want) {
                        return format!("partial_cmp of nodes with values {} {} is {:?}, cmp is {:?}", vals[i], vals[j], a.partial_cmp(b), want);
                    }
                    let ops = [a < b, a <= b, a > b, a >= b];
                    let wops = [vals[i] < vals[j], vals[i] <= vals[j], vals[i] > vals[j], vals[i] >= vals[j]];
                    if ops != wops {
                        return format!("operators < <= > >= on nodes with values {} {} give {:?}", vals[i], vals[j], ops);
                    }
                }
            }
            // root -> c_i -> t : the path goes through the child expanded first
            let cvals = [3i64, 1, 4, 2, 6, 5];
            for mode in 0..2 {
                let root: Node<u64, Nv, u64> = Node::new(100, Nv(0));
                let t: Node<u64, Nv, u64> = Node::new(200, Nv(50));
                let cs: Vec<Node<u64, Nv, u64>> = cvals.iter().enumerate().map(|(i, v)| Node::new(i as u64, Nv(*v))).collect();
                for c in &cs {
                    root.connect(c, 0);
                    c.connect(&t, 0);
                }
                let p = if mode == 0 { root.pfs().min().target(&200).search_path() } else { root.pfs().max().target(&200).search_path() };
                let want = if mode == 0 { 1u64 } else { 4u64 };
                match p {
                    None => return "pfs finds no path to a reachable target".to_string(),
                    Some(p) => {
                        let ks: Vec<u64> = p.to_vec_nodes().iter().map(|n| *n.key()).collect();
                        if ks != vec![100, want, 200] {
                            return format!("pfs {} reaches the target through {:?}, not through the child of {} value (key {})",
                                if mode == 0 { "min" } else { "max" }, ks, if mode == 0 { "least" } else { "greatest" }, want);
                        }
                    }
                }
                // break the cycles of Rc/Arc
                root.isolate();
                t.isolate();
            }
            "ok".to_string()
        }
    };
}
nvord_probe!(nvord_digraph, digraph);
nvord_probe!(nvord_sync_digraph, sync_digraph);
nvord_probe!(nvord_ungraph, ungraph);
nvord_probe!(nvord_sync_ungraph, sync_ungraph);

#[derive(Clone, PartialEq, Eq, Debug)]
pub struct Ky(pub u64);
impl std::hash::Hash for Ky {
    fn hash<H: std::hash::Hasher>(&self, state: &mut H) {
        (self.0 % 5).hash(state)
    }
}
impl std::fmt::Display for Ky {
    fn fmt(&self, f: &mut std::fmt::Formatter<'_>) -> std::fmt::Result {
        write!(f, "{}", self.0)
    }
}
impl Num for Ky {
    fn of(x: u64) -> Ky {
        Ky(x)
    }
    fn n(&self) -> u64 {
        self.0
    }
}
impl serde::Serialize for Ky {
    fn serialize<S: serde::Serializer>(&self, s: S) -> Result<S::Ok, S::Error> {
        s.serialize_u64(self.0)
    }
}
impl<'de> serde::Deserialize<'de> for Ky {
    fn deserialize<D: serde::Deserializer<'de>>(d: D) -> Result<Ky, D::Error> {
        <u64 as serde::Deserialize>::deserialize(d).map(Ky)
    }
}
#[derive(Clone, Debug)]
pub struct Ev {
    pub v: u64,
    _pad: [u64; 9],
}
impl PartialEq for Ev {
    fn eq(&self, o: &Ev) -> bool {
        self.v == o.v
    }
}
impl Eq for Ev {}
impl PartialOrd for Ev {
    fn partial_cmp(&self, o: &Ev) -> Option<std::cmp::Ordering> {
        Some(self.v.cmp(&o.v))
    }
}
impl Ord for Ev {
    fn cmp(&self, o: &Ev) -> std::cmp::Ordering {
        self.v.cmp(&o.v)
    }
}
impl std::fmt::Display for Ev {
    fn fmt(&self, f: &mut std::fmt::Formatter<'_>) -> std::fmt::Result {
        write!(f, "{}", self.v)
    }
}
impl Num for Ev {
    fn of(x: u64) -> Ev {
        Ev { v: x, _pad: [x; 9] }
    }
    fn n(&self) -> u64 {
        self.v
    }
}
impl serde::Serialize for Ev {
    fn serialize<S: serde::Serializer>(&self, s: S) -> Result<S::Ok, S::Error> {
        s.serialize_u64(self.v)
    }
}
impl<'de> serde::Deserialize<'de> for Ev {
    fn deserialize<D: serde::Deserializer<'de>>(d: D) -> Result<Ev, D::Error> {
        <u64 as serde::Deserialize>::deserialize(d).map(Ev::of)
    }
}

pub fn pu64(s: &str) -> u64 {
    s.parse().unwrap()
}
pub fn pi64(s: &str) -> i64 {
    s.parse().unwrap()
}
pub fn pusize(s: &str) -> usize {
    s.parse().unwrap()
}

/// run one step under catch_unwind; a panic becomes the observation "panic"
pub fn guarded<F: FnOnce() -> String>(f: F) -> String {
    match catch_unwind(AssertUnwindSafe(f)) {
        Ok(s) => s,
        Err(_) => "panic".to_string(),
    }
}

pub static PROGRESS: AtomicU64 = AtomicU64::new(0);

thread_local! {
    /// ids of the node values released so far (drop-counting payload of the `own` channel)
    pub static RELEASED: RefCell<Vec<i64>> = RefCell::new(Vec::new());
}

/// node value that logs its release; clones made by the library are not counted
pub struct Tok {
    pub id: i64,
    counted: bool,
}
impl Tok {
    pub fn new(id: i64) -> Tok {
        Tok { id, counted: true }
    }
}
impl Clone for Tok {
    fn clone(&self) -> Tok {
        Tok { id: self.id, counted: false }
    }
}
impl Drop for Tok {
    fn drop(&mut self) {
        if self.counted {
            RELEASED.with(|r| r.borrow_mut().push(self.id));
        }
    }
}
impl PartialEq for Tok {
    fn eq(&self, o: &Tok) -> bool {
        self.id == o.id
    }
}
impl Eq for Tok {}
impl PartialOrd for Tok {
    fn partial_cmp(&self, o: &Tok) -> Option<std::cmp::Ordering> {
        Some(self.id.cmp(&o.id))
    }
}
impl Ord for Tok {
    fn cmp(&self, o: &Tok) -> std::cmp::Ordering {
        self.id.cmp(&o.id)
    }
}


mod d {
    #[allow(dead_code)]
    pub type Kt = crate::Ky;
    #[allow(dead_code)]
    pub type Et = crate::Ev;
    #[allow(unused_imports)]
    use crate::Num;
    pub const FLAVOUR: &str = "digraph";
    macro_rules! conc_step { ($nodes:expr, $progs:expr, $sched:expr) => {{ let _ = ($nodes, $progs, $sched); String::from("unsupported") }}; }

    macro_rules! edge_nth { ($n:expr, $p:expr) => { $n.iter_out().nth($p) }; }
    // every traversal entry point the ownership channel does not store a result of, run and dropped at once (C19: none of
    // them may leave a strong handle behind)
    // every lookup that resolves a neighbour, and every predicate; none may retain a handle (C19)
    macro_rules! own_lookups {
        ($a:expr, $b:expr) => {{
            let _ = $a.find_outbound($b.key()).is_some();
            let _ = $a.find_inbound($b.key()).is_some();
            let _ = $b.find_inbound($a.key()).is_some();
            let _ = ($a.is_root() as u8) + ($a.is_leaf() as u8) + ($a.is_orphan() as u8) + ($a.out_degree() + $a.in_degree()) as u8;
        }};
    }
    macro_rules! own_exercise {
        ($a:expr) => {{
            let a = $a;
            let mut seen = 0usize;
            let _ = a.bfs().search_cycle();
            let _ = a.dfs().search_cycle();
            let _ = a.pfs().search_cycle();
            let _ = a.pfs().max().transpose().search_cycle();
            let _ = a.bfs().transpose().search_cycle();
            let _ = a.preorder().search_edges();
            let _ = a.postorder().transpose().search_edges();
            let _ = a.bfs().for_each(&mut |_e| { seen += 1; }).search_cycle();
            let _ = a.dfs().filter(&mut |_e| true).search_cycle();
            let _ = a.iter_out().count() + a.iter_in().count();
            seen
        }};
    }
    macro_rules! pre_nodes { ($n:expr) => { $n.preorder().search_nodes() }; }
    macro_rules! post_nodes { ($n:expr) => { $n.postorder().search_nodes() }; }
    macro_rules! graph_cap { ($n:expr) => { Graph::with_capacity($n) }; }
    macro_rules! graph_sizeof { ($g:expr) => { $g.sizeof() }; }
    macro_rules! idx_ref { ($g:expr, $k:expr) => { $g[&$k].key().n() }; }
    macro_rules! deg { ($n:expr) => { $n.out_degree() + $n.in_degree() }; }

    macro_rules! dot_attr {
        ($g:expr, $ga:expr, $na:expr, $ea:expr) => {{
            let (ga, na, ea) = ($ga, $na, $ea);
            $g.to_dot_with_attr(
                &|_g| match ga {
                    1 => Some(vec![("rankdir".to_string(), "LR".to_string()), ("label".to_string(), "g".to_string())]),
                    2 => Some(vec![]),
                    _ => None,
                },
                &|n| match na {
                    1 => Some(vec![("label".to_string(), format!("n{}\\l", n.key()))]),
                    2 if n.key().n() % 2 == 0 => Some(vec![("label".to_string(), format!("n{}\\l", n.key())), ("v".to_string(), format!("{}", n.value()))]),
                    3 => Some(vec![]),   // a callback that builds its list conditionally and returns it empty: a plain statement
                    _ => None,
                },
                &|_u, _v, e| match ea {
                    1 => Some(vec![("w".to_string(), format!("{}", e))]),
                    2 if e.n() % 2 == 0 => Some(vec![("w".to_string(), format!("{}", e))]),
                    // direction-sensitive callbacks: the attribute names both endpoints in order / exists for one orientation only
                    3 => Some(vec![("p".to_string(), format!("{}>{}:{}", _u.key(), _v.key(), e))]),
                    4 if _u.key().n() < _v.key().n() => Some(vec![("w".to_string(), format!("{}", e))]),
                    5 => Some(vec![]),
                    6 => Some(vec![("w".to_string(), format!("{}", e)), ("c".to_string(), "x".to_string())]),
                    _ => None,
                },
            )
        }};
    }

    #[allow(unused_imports)]
    use gdsl::digraph::*;
    include!("directed.rs");
    include!("own.rs");
}
mod sd {
    #[allow(dead_code)]
    pub type Kt = crate::Ky;
    #[allow(dead_code)]
    pub type Et = crate::Ev;
    #[allow(unused_imports)]
    use crate::Num;
    pub const FLAVOUR: &str = "sync_digraph";
    macro_rules! conc_step { ($nodes:expr, $progs:expr, $sched:expr) => { conc::run_sched($nodes, $progs, $sched) }; }

    macro_rules! edge_nth { ($n:expr, $p:expr) => { $n.iter_out().nth($p) }; }
    // every traversal entry point the ownership channel does not store a result of, run and dropped at once (C19: none of
    // them may leave a strong handle behind)
    // every lookup that resolves a neighbour, and every predicate; none may retain a handle (C19)
    macro_rules! own_lookups {
        ($a:expr, $b:expr) => {{
            let _ = $a.find_outbound($b.key()).is_some();
            let _ = $a.find_inbound($b.key()).is_some();
            let _ = $b.find_inbound($a.key()).is_some();
            let _ = ($a.is_root() as u8) + ($a.is_leaf() as u8) + ($a.is_orphan() as u8) + ($a.out_degree() + $a.in_degree()) as u8;
        }};
    }
    macro_rules! own_exercise {
        ($a:expr) => {{
            let a = $a;
            let mut seen = 0usize;
            let _ = a.bfs().search_cycle();
            let _ = a.dfs().search_cycle();
            let _ = a.pfs().search_cycle();
            let _ = a.pfs().max().transpose().search_cycle();
            let _ = a.bfs().transpose().search_cycle();
            let _ = a.preorder().search_edges();
            let _ = a.postorder().transpose().search_edges();
            let _ = a.bfs().for_each(&mut |_e| { seen += 1; }).search_cycle();
            let _ = a.dfs().filter(&mut |_e| true).search_cycle();
            let _ = a.iter_out().count() + a.iter_in().count();
            seen
        }};
    }
    macro_rules! pre_nodes { ($n:expr) => { $n.preorder().search_nodes() }; }
    macro_rules! post_nodes { ($n:expr) => { $n.postorder().search_nodes() }; }
    macro_rules! graph_cap { ($n:expr) => {{ let _ = $n; Graph::new() }}; }
    macro_rules! graph_sizeof { ($g:expr) => { $g.sizeof() }; }
    macro_rules! idx_ref { ($g:expr, $k:expr) => { $g[&$k].key().n() }; }
    macro_rules! deg { ($n:expr) => { $n.out_degree() + $n.in_degree() }; }

    macro_rules! dot_attr {
        ($g:expr, $ga:expr, $na:expr, $ea:expr) => {{
            let (ga, na, ea) = ($ga, $na, $ea);
            $g.to_dot_with_attr(
                &|_g| match ga {
                    1 => Some(vec![("rankdir".to_string(), "LR".to_string()), ("label".to_string(), "g".to_string())]),
                    2 => Some(vec![]),
                    _ => None,
                },
                &|n| match na {
                    1 => Some(vec![("label".to_string(), format!("n{}\\l", n.key()))]),
                    2 if n.key().n() % 2 == 0 => Some(vec![("label".to_string(), format!("n{}\\l", n.key())), ("v".to_string(), format!("{}", n.value()))]),
                    3 => Some(vec![]),   // a callback that builds its list conditionally and returns it empty: a plain statement
                    _ => None,
                },
                &|_u, _v, e| match ea {
                    1 => Some(vec![("w".to_string(), format!("{}", e))]),
                    2 if e.n() % 2 == 0 => Some(vec![("w".to_string(), format!("{}", e))]),
                    // direction-sensitive callbacks: the attribute names both endpoints in order / exists for one orientation only
                    3 => Some(vec![("p".to_string(), format!("{}>{}:{}", _u.key(), _v.key(), e))]),
                    4 if _u.key().n() < _v.key().n() => Some(vec![("w".to_string(), format!("{}", e))]),
                    5 => Some(vec![]),
                    6 => Some(vec![("w".to_string(), format!("{}", e)), ("c".to_string(), "x".to_string())]),
                    _ => None,
                },
            )
        }};
    }

    #[allow(unused_imports)]
    use gdsl::sync_digraph::*;
    include!("directed.rs");
    include!("own.rs");
    fn query_all(n: &Node<Kt, i64, Et>) {
        let _ = n.out_degree() + n.in_degree();
        // each predicate is evaluated (no short circuit), and every lookup that hands out an edge or a node
        let _ = (n.is_root() as u8) + (n.is_leaf() as u8) + (n.is_orphan() as u8);
        for k in 1..=4u64 {
            let _ = n.is_connected(&Kt::of(k));
            if let Some(e) = n.find_outbound(&Kt::of(k)) {
                if e.key().n() != k { panic!("find_outbound handed out a node with another key"); }
            }
            if let Some(e) = n.find_inbound(&Kt::of(k)) {
                if e.key().n() != k { panic!("find_inbound handed out a node with another key"); }
            }
        }
    }

    fn conc_query(op: &str, n: &Node<Kt, i64, Et>) -> String {
        match op {
            "deg" => format!("{}", n.out_degree()),
            "ideg" => format!("{}", n.in_degree()),
            "orph" => format!("{}", n.is_orphan() as u8),
            "iter" => format!("[{}]", n.iter_out().map(|e| format!("({}>{}:{})", e.source().key(), e.target().key(), e.value())).collect::<Vec<_>>().join("")),
            "iterin" => format!("[{}]", n.iter_in().map(|e| format!("({}>{}:{})", e.source().key(), e.target().key(), e.value())).collect::<Vec<_>>().join("")),
            other => format!("unknown-call {}", other),
        }
    }
    fn conc_snap(n: &Node<Kt, i64, Et>) -> String {
        let mut s = format!("[{} out", n.key());
        for e in n.iter_out() { s.push_str(&format!("({}>{}:{})", e.source().key(), e.target().key(), e.value())); }
        s.push_str(" in");
        for e in n.iter_in() { s.push_str(&format!("({}>{}:{})", e.source().key(), e.target().key(), e.value())); }
        s.push(']');
        s
    }
    fn check_joined(p: &[Edge<Kt, i64, Et>]) -> usize {
        for w in p.windows(2) {
            if w[0].target().key() != w[1].source().key() { panic!("a returned path is not joined end to start"); }
        }
        p.len()
    }
    // every traversal entry point once, from n, towards key 3 (C17: traversals among the concurrent calls)
    fn traverse_all(n: &Node<Kt, i64, Et>) -> usize {
        let t = Kt::of(3);
        let mut c = 0usize;
        if n.bfs().target(&t).search().is_some() { c += 1; }
        if n.dfs().target(&t).search().is_some() { c += 1; }
        if let Some(p) = n.bfs().target(&t).search_path() { c += check_joined(&p.to_vec_edges()); }
        if let Some(p) = n.dfs().target(&t).search_path() { c += check_joined(&p.to_vec_edges()); }
        if let Some(p) = n.pfs().target(&t).search_path() { c += check_joined(&p.to_vec_edges()); }
        if let Some(p) = n.pfs().max().target(&t).search_path() { c += check_joined(&p.to_vec_edges()); }
        if let Some(p) = n.bfs().search_cycle() { c += check_joined(&p.to_vec_edges()); }
        if let Some(p) = n.dfs().search_cycle() { c += check_joined(&p.to_vec_edges()); }
        if let Some(p) = n.bfs().transpose().target(&t).search_path() { c += check_joined(&p.to_vec_edges()); }
        c += n.preorder().search_nodes().len();
        c += n.postorder().search_edges().len();
        c += n.postorder().transpose().search_nodes().len();
        c += n.preorder().transpose().search_edges().len();
        if let Some(p) = n.dfs().transpose().target(&t).search_path() { c += check_joined(&p.to_vec_edges()); }
        if let Some(p) = n.pfs().transpose().target(&t).search_path() { c += check_joined(&p.to_vec_edges()); }
        if let Some(p) = n.pfs().max().search_cycle() { c += check_joined(&p.to_vec_edges()); }
        if n.pfs().target(&t).search().is_some() { c += 1; }
        if let Some(p) = n.bfs().filter(&mut |e| e.value().n() % 2 == 0).target(&t).search_path() { c += check_joined(&p.to_vec_edges()); }
        let mut seen = 0usize;
        n.bfs().for_each(&mut |_e| { seen += 1; }).search();
        c + seen
    }
    // quiescence check of the free-running stress: out- and in-lists mirror as multisets for every ordered pair
    fn mirror_ok(nodes: &[&Node<Kt, i64, Et>]) -> Result<(), String> {
        for u in nodes {
            for v in nodes {
                let mut o: Vec<u64> = u.iter_out().filter(|e| e.target().key() == v.key()).map(|e| e.value().n()).collect();
                let mut i: Vec<u64> = v.iter_in().filter(|e| e.source().key() == u.key()).map(|e| e.value().n()).collect();
                o.sort();
                i.sort();
                if o != i {
                    return Err(format!("{} reports {:?} towards {}, which reports {:?} from it", u.key(), o, v.key(), i));
                }
            }
        }
        Ok(())
    }
    include!("conc.rs");
}
mod u {
    #[allow(dead_code)]
    pub type Kt = crate::Ky;
    #[allow(dead_code)]
    pub type Et = crate::Ev;
    #[allow(unused_imports)]
    use crate::Num;
    pub const FLAVOUR: &str = "ungraph";
    macro_rules! conc_step { ($nodes:expr, $progs:expr, $sched:expr) => {{ let _ = ($nodes, $progs, $sched); String::from("unsupported") }}; }

    macro_rules! edge_nth { ($n:expr, $p:expr) => { $n.iter().nth($p) }; }
    macro_rules! own_lookups {
        ($a:expr, $b:expr) => {{
            let _ = $a.find_adjacent($b.key()).is_some();
            let _ = $b.find_adjacent($a.key()).is_some();
            let _ = ($a.is_orphan() as u8) + $a.degree() as u8;
        }};
    }
    macro_rules! own_exercise {
        ($a:expr) => {{
            let a = $a;
            let mut seen = 0usize;
            let _ = a.bfs().search_cycle();
            let _ = a.dfs().search_cycle();
            let _ = a.pfs().search_cycle();
            let _ = a.pfs().max().search_cycle();
            let _ = a.order().pre().search_edges();
            let _ = a.order().post().search_edges();
            let _ = a.bfs().for_each(&mut |_e| { seen += 1; }).search_cycle();
            let _ = a.dfs().filter(&mut |_e| true).search_cycle();
            let _ = a.iter().count();
            seen
        }};
    }
    macro_rules! pre_nodes { ($n:expr) => { $n.order().pre().search_nodes() }; }
    macro_rules! post_nodes { ($n:expr) => { $n.order().post().search_nodes() }; }
    macro_rules! graph_cap { ($n:expr) => {{ let _ = $n; Graph::new() }}; }
    macro_rules! graph_sizeof { ($g:expr) => { $g.sizeof() }; }
    macro_rules! idx_ref { ($g:expr, $k:expr) => { $g[$k.clone()].key().n() }; }
    macro_rules! deg { ($n:expr) => { $n.degree() }; }

    macro_rules! dot_attr {
        ($g:expr, $ga:expr, $na:expr, $ea:expr) => {{
            let (ga, na, ea) = ($ga, $na, $ea);
            $g.to_dot_with_attr(
                &|_g| match ga {
                    1 => Some(vec![("rankdir".to_string(), "LR".to_string()), ("label".to_string(), "g".to_string())]),
                    2 => Some(vec![]),
                    _ => None,
                },
                &|n| match na {
                    1 => Some(vec![("label".to_string(), format!("n{}\\l", n.key()))]),
                    2 if n.key().n() % 2 == 0 => Some(vec![("label".to_string(), format!("n{}\\l", n.key())), ("v".to_string(), format!("{}", n.value()))]),
                    3 => Some(vec![]),   // a callback that builds its list conditionally and returns it empty: a plain statement
                    _ => None,
                },
                &|_u, _v, e| match ea {
                    1 => Some(vec![("w".to_string(), format!("{}", e))]),
                    2 if e.n() % 2 == 0 => Some(vec![("w".to_string(), format!("{}", e))]),
                    // direction-sensitive callbacks: the attribute names both endpoints in order / exists for one orientation only
                    3 => Some(vec![("p".to_string(), format!("{}>{}:{}", _u.key(), _v.key(), e))]),
                    4 if _u.key().n() < _v.key().n() => Some(vec![("w".to_string(), format!("{}", e))]),
                    5 => Some(vec![]),
                    6 => Some(vec![("w".to_string(), format!("{}", e)), ("c".to_string(), "x".to_string())]),
                    _ => None,
                },
            )
        }};
    }

    #[allow(unused_imports)]
    use gdsl::ungraph::*;
    include!("undirected.rs");
    include!("own.rs");
}
mod su {
    #[allow(dead_code)]
    pub type Kt = u64;
    #[allow(dead_code)]
    pub type Et = u64;
    #[allow(unused_imports)]
    use crate::Num;
    pub const FLAVOUR: &str = "sync_ungraph";
    macro_rules! conc_step { ($nodes:expr, $progs:expr, $sched:expr) => { conc::run_sched($nodes, $progs, $sched) }; }

    macro_rules! edge_nth { ($n:expr, $p:expr) => { $n.iter().nth($p) }; }
    macro_rules! own_lookups {
        ($a:expr, $b:expr) => {{
            let _ = $a.find_adjacent($b.key()).is_some();
            let _ = $b.find_adjacent($a.key()).is_some();
            let _ = ($a.is_orphan() as u8) + $a.degree() as u8;
        }};
    }
    macro_rules! own_exercise {
        ($a:expr) => {{
            let a = $a;
            let mut seen = 0usize;
            let _ = a.bfs().search_cycle();
            let _ = a.dfs().search_cycle();
            let _ = a.pfs().search_cycle();
            let _ = a.pfs().max().search_cycle();
            let _ = a.order().pre().search_edges();
            let _ = a.order().post().search_edges();
            let _ = a.bfs().for_each(&mut |_e| { seen += 1; }).search_cycle();
            let _ = a.dfs().filter(&mut |_e| true).search_cycle();
            let _ = a.iter().count();
            seen
        }};
    }
    macro_rules! pre_nodes { ($n:expr) => { $n.order().pre().search_nodes() }; }
    macro_rules! post_nodes { ($n:expr) => { $n.order().post().search_nodes() }; }
    macro_rules! graph_cap { ($n:expr) => {{ let _ = $n; Graph::new() }}; }
    macro_rules! graph_sizeof { ($g:expr) => {{ let _ = $g; 1usize }}; }
    macro_rules! idx_ref { ($g:expr, $k:expr) => { $g[$k.clone()].key().n() }; }
    macro_rules! deg { ($n:expr) => { $n.degree() }; }

    macro_rules! dot_attr {
        ($g:expr, $ga:expr, $na:expr, $ea:expr) => {{
            let _ = ($g, $ga, $na, $ea);
            String::from("unsupported")
        }};
    }

    #[allow(unused_imports)]
    use gdsl::sync_ungraph::*;
    include!("undirected.rs");
    include!("own.rs");
    fn query_all(n: &Node<Kt, i64, Et>) {
        let _ = n.degree();
        let _ = n.is_orphan();
        for k in 1..=4u64 {
            let _ = n.is_connected(&Kt::of(k));
            if let Some(e) = n.find_adjacent(&Kt::of(k)) {
                if e.key().n() != k { panic!("find_adjacent handed out a node with another key"); }
            }
        }
    }

    fn conc_query(op: &str, n: &Node<Kt, i64, Et>) -> String {
        match op {
            "deg" => format!("{}", n.degree()),
            "orph" => format!("{}", n.is_orphan() as u8),
            "iter" => format!("[{}]", n.iter().map(|e| format!("({}>{}:{})", e.source().key(), e.target().key(), e.value())).collect::<Vec<_>>().join("")),
            other => format!("unknown-call {}", other),
        }
    }
    fn conc_snap(n: &Node<Kt, i64, Et>) -> String {
        let mut s = format!("[{} adj", n.key());
        for e in n.iter() { s.push_str(&format!("({}>{}:{})", e.source().key(), e.target().key(), e.value())); }
        s.push(']');
        s
    }
    fn check_joined(p: &[Edge<Kt, i64, Et>]) -> usize {
        for w in p.windows(2) {
            if w[0].target().key() != w[1].source().key() { panic!("a returned path is not joined end to start"); }
        }
        p.len()
    }
    fn traverse_all(n: &Node<Kt, i64, Et>) -> usize {
        let t = Kt::of(3);
        let mut c = 0usize;
        if n.bfs().target(&t).search().is_some() { c += 1; }
        if n.dfs().target(&t).search().is_some() { c += 1; }
        if let Some(p) = n.bfs().target(&t).search_path() { c += check_joined(&p.to_vec_edges()); }
        if let Some(p) = n.dfs().target(&t).search_path() { c += check_joined(&p.to_vec_edges()); }
        if let Some(p) = n.pfs().target(&t).search_path() { c += check_joined(&p.to_vec_edges()); }
        if let Some(p) = n.pfs().max().target(&t).search_path() { c += check_joined(&p.to_vec_edges()); }
        if let Some(p) = n.bfs().search_cycle() { c += check_joined(&p.to_vec_edges()); }
        if let Some(p) = n.dfs().search_cycle() { c += check_joined(&p.to_vec_edges()); }
        c += n.order().pre().search_nodes().len();
        c += n.order().post().search_edges().len();
        if let Some(p) = n.pfs().max().search_cycle() { c += check_joined(&p.to_vec_edges()); }
        if n.pfs().target(&t).search().is_some() { c += 1; }
        if let Some(p) = n.bfs().filter(&mut |e| e.value().n() % 2 == 0).target(&t).search_path() { c += check_joined(&p.to_vec_edges()); }
        let mut seen = 0usize;
        n.bfs().for_each(&mut |_e| { seen += 1; }).search();
        c + seen
    }
    fn mirror_ok(nodes: &[&Node<Kt, i64, Et>]) -> Result<(), String> {
        for u in nodes {
            for v in nodes {
                let mut o: Vec<u64> = u.iter().filter(|e| e.target().key() == v.key()).map(|e| e.value().n()).collect();
                let mut i: Vec<u64> = v.iter().filter(|e| e.target().key() == u.key()).map(|e| e.value().n()).collect();
                o.sort();
                i.sort();
                if o != i {
                    return Err(format!("{} lists {:?} towards {}, which lists {:?} towards it", u.key(), o, v.key(), i));
                }
            }
        }
        Ok(())
    }
    include!("conc.rs");
}

fn run_flavour(flavour: &str, cases: &[Case], out: &mut dyn Write, panics: &mut dyn Write, start: usize) {
    for (ci, case) in cases.iter().enumerate() {
        if ci < start {
            continue;
        }
        let applicable = match flavour {
            "digraph" | "sync_digraph" => case.class == 'D',
            _ => case.class == 'U',
        };
        if !applicable {
            continue;
        }
        writeln!(out, "case {}", case.name).unwrap();
        let mut sink = |si: usize, s: String| {
            PROGRESS.fetch_add(1, Ordering::SeqCst);
            if s.starts_with("panic") {
                let msg = LAST_PANIC.with(|p| p.borrow().clone());
                writeln!(panics, "{} {} {} :: {}", flavour, case.name, si, msg.replace('\n', " ")).unwrap();
            }
            writeln!(out, "{} {}", si, s).unwrap();
        };
        let own = case.name.starts_with("own");
        match (flavour, own) {
            ("digraph", false) => d::run_case(case, &mut sink),
            ("sync_digraph", false) => sd::run_case(case, &mut sink),
            ("ungraph", false) => u::run_case(case, &mut sink),
            ("sync_ungraph", false) => su::run_case(case, &mut sink),
            ("digraph", true) => d::own::run_case(case, &mut sink),
            ("sync_digraph", true) => sd::own::run_case(case, &mut sink),
            ("ungraph", true) => u::own::run_case(case, &mut sink),
            ("sync_ungraph", true) => su::own::run_case(case, &mut sink),
            _ => panic!("unknown flavour"),
        }
        // marks a completed case (used to resume after a hang)
        writeln!(out, "end {}", ci).unwrap();
        out.flush().unwrap();
        panics.flush().unwrap();
    }
}

fn main() {
    let args: Vec<String> = std::env::args().collect();
    if args.len() >= 4 && args[1] == "stress" {
        // harness stress <sync flavour> <scenario> [millis]
        let ms: u64 = args.get(4).map(|s| s.parse().unwrap()).unwrap_or(3000);
        let v = match args[2].as_str() {
            "sync_digraph" => sd::conc::stress(&args[3], ms),
            "sync_ungraph" => su::conc::stress(&args[3], ms),
            _ => "unsupported".to_string(),
        };
        println!("{}", v);
        std::process::exit(if v == "ok" { 0 } else { 4 });
    }
    if args.len() < 5 || args[1] != "run" {
        eprintln!("usage: harness run <flavour> <casefile> <outfile> [start_case_index] [hang_secs]");
        std::process::exit(2);
    }
    let flavour = args[2].clone();
    let text = std::fs::read_to_string(&args[3]).expect("case file");
    let outpath = args[4].clone();
    let start: usize = args.get(5).map(|s| s.parse().unwrap()).unwrap_or(0);
    let hang_secs: u64 = args.get(6).map(|s| s.parse().unwrap()).unwrap_or(10);
    std::panic::set_hook(Box::new(|info| {
        let msg = format!("{}", info);
        LAST_PANIC.with(|p| *p.borrow_mut() = msg);
    }));
    // single-threaded runs of the sync flavours: a lock point reached while a guard on the same lock is alive
    // (re-entrant acquisition: self-deadlock for a writer, "may deadlock" for recursive reads) is a reported failure
    #[cfg(gdsl_verif)]
    gdsl::verif_hook::install(Some(Arc::new(|key: &str, is_write: bool, probe: &dyn Fn(bool) -> bool| {
        if probe(is_write) {
            panic!("verif: self-deadlock: node {} is locked {} while a conflicting guard is alive", key, if is_write { "for writing" } else { "for reading" });
        }
        if probe(true) {
            panic!("verif: node {} is locked again while a guard on it is still alive (recursive read may deadlock)", key);
        }
    })));
    let cases = Arc::new(parse_cases(&text));
    let done = Arc::new(std::sync::atomic::AtomicBool::new(false));
    let done2 = done.clone();
    let cases2 = cases.clone();
    let fl = flavour.clone();
    let op = outpath.clone();
    let worker = std::thread::Builder::new()
        .stack_size(256 * 1024 * 1024)
        .spawn(move || {
            let append = start > 0;
            let mut out = std::io::BufWriter::new(
                std::fs::OpenOptions::new().create(true).write(true).append(append).truncate(!append).open(&op).unwrap(),
            );
            let mut panics = std::io::BufWriter::new(
                std::fs::OpenOptions::new().create(true).write(true).append(append).truncate(!append).open(format!("{}.panics", op)).unwrap(),
            );
            run_flavour(&fl, &cases2, &mut out, &mut panics, start);
            out.flush().unwrap();
            panics.flush().unwrap();
            done2.store(true, Ordering::SeqCst);
        })
        .unwrap();
    // watchdog: no progress for hang_secs => report a hang and exit(3)
    let mut last = PROGRESS.load(Ordering::SeqCst);
    let mut idle = 0u64;
    loop {
        std::thread::sleep(std::time::Duration::from_millis(100));
        if done.load(Ordering::SeqCst) {
            break;
        }
        let now = PROGRESS.load(Ordering::SeqCst);
        if now == last {
            idle += 1;
            if idle > hang_secs * 10 {
                // the worker's BufWriter is lost; the checker resumes from the last "end" line
                let mut f = std::fs::OpenOptions::new().create(true).append(true).open(format!("{}.hang", outpath)).unwrap();
                writeln!(f, "hang flavour={} progress={}", flavour, now).unwrap();
                std::process::exit(3);
            }
        } else {
            idle = 0;
            last = now;
        }
    }
    worker.join().unwrap();
}
