// `own` channel (C19): ownership histories with drop-logging node values.  Included per flavour; the
// flavour module defines the macros edge_nth!, pre_nodes!, post_nodes!, deg!.
pub mod own {
    use super::*;
    use crate::{guarded, pi64, pu64, pusize, Case, Tok, RELEASED};
    use std::collections::HashMap as StdMap;

    type ON = Node<Kt, Tok, Et>;
    type OE = Edge<Kt, Tok, Et>;
    type OG = Graph<Kt, Tok, Et>;

    enum Obj {
        Node(ON),
        Edge(OE),
        // Path's type is not nameable outside the crate: keep it inside a closure that describes it
        Path(Box<dyn Fn() -> String>),
        Nodes(Vec<ON>),
        Graph(OG),
    }

    fn take_released() -> String {
        let mut v: Vec<i64> = RELEASED.with(|r| std::mem::take(&mut *r.borrow_mut()));
        v.sort();
        let mut s = String::from(" | rel");
        for x in v {
            s.push_str(&format!(" {}", x));
        }
        s
    }

    fn node_of(slots: &StdMap<usize, Obj>, s: &String) -> ON {
        match slots.get(&pusize(s)) {
            Some(Obj::Node(n)) => n.clone(),
            _ => panic!("verif: slot {} does not hold a node", s),
        }
    }

    // the stored handle itself, NOT a clone: the library then sees operands whose strong count can be 1
    fn node_ref<'a>(slots: &'a StdMap<usize, Obj>, s: &String) -> &'a ON {
        match slots.get(&pusize(s)) {
            Some(Obj::Node(n)) => n,
            _ => panic!("verif: slot {} does not hold a node", s),
        }
    }

    fn fmt_e(e: &OE) -> String {
        format!("({}>{}:{})", e.source().key(), e.target().key(), e.value())
    }

    pub fn run_case(case: &Case, sink: &mut dyn FnMut(usize, String)) {
        let mut slots: StdMap<usize, Obj> = StdMap::new();
        RELEASED.with(|r| r.borrow_mut().clear());
        for (si, st) in case.steps.iter().enumerate() {
            let slots_ref = &mut slots;
            let body = guarded(|| {
                let slots = slots_ref;
                match st[0].as_str() {
                    "onew" => {
                        let n = Node::new(Kt::of(pu64(&st[2])), Tok::new(pi64(&st[3])));
                        slots.insert(pusize(&st[1]), Obj::Node(n));
                        "ok".to_string()
                    }
                    "oclone" => {
                        let n = node_of(slots, &st[2]);
                        slots.insert(pusize(&st[1]), Obj::Node(n));
                        "ok".to_string()
                    }
                    "ocon" => {
                        if pu64(&st[3]) % 2 == 0 {
                            // through the program's own handles, by reference (sole handles stay sole)
                            node_ref(slots, &st[1]).connect(node_ref(slots, &st[2]), Et::of(pu64(&st[3])));
                        } else {
                            node_of(slots, &st[1]).connect(&node_of(slots, &st[2]), Et::of(pu64(&st[3])));
                        }
                        "ok".to_string()
                    }
                    "oqry" => {
                        // queries hand out temporary handles; none of them may outlive the call
                        let (a, b) = (node_of(slots, &st[1]), node_of(slots, &st[2]));
                        let c1 = a.is_connected(b.key());
                        let c2 = b.is_connected(a.key());
                        own_lookups!(a, b);
                        format!("q {} {}", c1 as u8, c2 as u8)
                    }
                    "otry" => {
                        let r = if pu64(&st[3]) % 2 == 0 {
                            node_ref(slots, &st[1]).try_connect(node_ref(slots, &st[2]), Et::of(pu64(&st[3])))
                        } else {
                            node_of(slots, &st[1]).try_connect(&node_of(slots, &st[2]), Et::of(pu64(&st[3])))
                        };
                        match r {
                            Ok(()) => "ok".to_string(),
                            Err(_) => "err exists".to_string(),
                        }
                    }
                    "odis" => match node_of(slots, &st[1]).disconnect(&Kt::of(pu64(&st[2]))) {
                        Ok(e) => format!("ok {}", e),
                        Err(_) => "err notfound".to_string(),
                    },
                    "oiso" => {
                        node_of(slots, &st[1]).isolate();
                        "ok".to_string()
                    }
                    "odrop" => {
                        slots.remove(&pusize(&st[1]));
                        "ok".to_string()
                    }
                    "oedge" => {
                        let a = node_of(slots, &st[2]);
                        let e: Option<OE> = edge_nth!(a, pusize(&st[3]));
                        match e {
                            Some(e) => {
                                let d = fmt_e(&e);
                                slots.insert(pusize(&st[1]), Obj::Edge(e));
                                format!("edge {}", d)
                            }
                            None => "none".to_string(),
                        }
                    }
                    "opath" => {
                        let a = node_of(slots, &st[2]);
                        let k = Kt::of(pu64(&st[3]));
                        macro_rules! keep {
                            ($p:expr) => {
                                match $p {
                                    Some(p) => {
                                        let d = p.iter_edges().map(|e| fmt_e(&e)).collect::<Vec<_>>().join("");
                                        let f = move || {
                                            let mut s = String::from("path");
                                            for n in p.to_vec_nodes() {
                                                s.push_str(&format!(" {}:{}", n.key(), n.value().id));
                                            }
                                            s
                                        };
                                        slots.insert(pusize(&st[1]), Obj::Path(Box::new(f)));
                                        format!("path {}", d)
                                    }
                                    None => "none".to_string(),
                                }
                            };
                        }
                        match st[4].as_str() {
                            "bfs" => keep!(a.bfs().target(&k).search_path()),
                            "dfs" => keep!(a.dfs().target(&k).search_path()),
                            _ => keep!(a.pfs().target(&k).search_path()),
                        }
                    }
                    "ofind" => {
                        let a = node_of(slots, &st[2]);
                        let k = Kt::of(pu64(&st[3]));
                        let r = match st[4].as_str() {
                            "bfs" => a.bfs().target(&k).search(),
                            "dfs" => a.dfs().target(&k).search(),
                            _ => a.pfs().target(&k).search(),
                        };
                        match r {
                            Some(n) => {
                                let d = format!("node {}", n.key());
                                slots.insert(pusize(&st[1]), Obj::Node(n));
                                d
                            }
                            None => "none".to_string(),
                        }
                    }
                    "oexer" => {
                        let _ = own_exercise!(node_of(slots, &st[1]));
                        "ok".to_string()
                    }
                    "onodes" => {
                        let a = node_of(slots, &st[2]);
                        let v: Vec<ON> = if st[3] == "pre" { pre_nodes!(a) } else { post_nodes!(a) };
                        let d = v.iter().map(|n| format!("{}", n.key())).collect::<Vec<_>>().join(" ");
                        slots.insert(pusize(&st[1]), Obj::Nodes(v));
                        format!("nodes {}", d)
                    }
                    "ogra" => {
                        slots.insert(pusize(&st[1]), Obj::Graph(Graph::new()));
                        "ok".to_string()
                    }
                    "ogins" => {
                        let n = node_of(slots, &st[2]);
                        match slots.get_mut(&pusize(&st[1])) {
                            Some(Obj::Graph(g)) => format!("ok {}", g.insert(n) as u8),
                            _ => panic!("verif: not a graph"),
                        }
                    }
                    "ogget" => {
                        let r = match slots.get(&pusize(&st[2])) {
                            Some(Obj::Graph(g)) => g.get(&Kt::of(pu64(&st[3]))),
                            _ => panic!("verif: not a graph"),
                        };
                        match r {
                            Some(n) => {
                                let d = format!("node {}", n.key());
                                slots.insert(pusize(&st[1]), Obj::Node(n));
                                d
                            }
                            None => "none".to_string(),
                        }
                    }
                    "ogrem" => {
                        let r = match slots.get_mut(&pusize(&st[2])) {
                            Some(Obj::Graph(g)) => g.remove(&Kt::of(pu64(&st[3]))),
                            _ => panic!("verif: not a graph"),
                        };
                        match r {
                            Some(n) => {
                                let d = format!("node {}", n.key());
                                slots.insert(pusize(&st[1]), Obj::Node(n));
                                d
                            }
                            None => "none".to_string(),
                        }
                    }
                    "ouse" => match slots.get(&pusize(&st[1])) {
                        Some(Obj::Node(n)) => format!("node {}:{} deg {}", n.key(), n.value().id, deg!(n)),
                        Some(Obj::Edge(e)) => format!(
                            "edge {}:{} {}:{} {} deg {} {}",
                            e.source().key(),
                            e.source().value().id,
                            e.target().key(),
                            e.target().value().id,
                            e.value(),
                            deg!(e.source()),
                            deg!(e.target())
                        ),
                        Some(Obj::Path(f)) => f(),
                        Some(Obj::Nodes(v)) => {
                            format!("nodes {}", v.iter().map(|n| format!("{}:{}", n.key(), n.value().id)).collect::<Vec<_>>().join(" "))
                        }
                        Some(Obj::Graph(g)) => {
                            let mut ms: Vec<(u64, i64)> = g.to_vec().iter().map(|n| (n.key().n(), n.value().id)).collect();
                            ms.sort();
                            format!("graph {}{}", g.len(), ms.iter().map(|(k, v)| format!(" {}:{}", k, v)).collect::<String>())
                        }
                        None => "empty".to_string(),
                    },
                    other => format!("unknown-step {}", other),
                }
            });
            sink(si, format!("{}{}", body, take_released()));
        }
        drop(slots);
        let _ = take_released();
    }
}
