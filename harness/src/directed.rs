// Body shared by digraph and sync_digraph (included inside a module that has
// `use gdsl::<flavour>::*;`).  Only the public API of the flavour is used.

use crate::{guarded, pi64, pu64, pusize, Case};
use std::cell::{Cell, RefCell};

type N = Node<u64, i64, u64>;
type Ed = Edge<u64, i64, u64>;

fn fmt_edge(e: &Ed) -> String {
    format!("({}>{}:{})", e.source().key(), e.target().key(), e.value())
}

fn okey(o: Option<N>) -> String {
    match o {
        Some(n) => format!("{}", n.key()),
        None => "-".to_string(),
    }
}

fn err_str(e: gdsl::error::Error) -> String {
    match e {
        gdsl::error::Error::EdgeAlreadyExists => "err exists".to_string(),
        gdsl::error::Error::EdgeNotFound => "err notfound".to_string(),
    }
}

/// pure edge predicate family shared with the model driver
#[derive(Clone)]
enum Pred {
    All,
    Salt(u64, u64),
    Rej(Vec<(u64, u64, u64)>),
}

impl Pred {
    fn eval(&self, e: &Ed) -> bool {
        let (s, t, v) = (*e.source().key(), *e.target().key(), *e.value());
        match self {
            Pred::All => true,
            Pred::Salt(a, m) => (3 * s + 5 * t + 7 * v + a) % m != 0,
            Pred::Rej(l) => !l.contains(&(s, t, v)),
        }
    }
}

#[derive(PartialEq, Clone, Copy)]
enum Meth {
    None,
    Filter,
    Each,
}

struct World {
    nodes: RefCell<Vec<N>>,
    /// pending script: (invocation index, step tokens), consumed by the next loop/search
    script: RefCell<Vec<(usize, Vec<String>)>>,
}

/// node-channel steps; used at top level and from inside callbacks
fn exec_node_step(w: &World, st: &[String]) -> Option<String> {
    let node = |i: &String| w.nodes.borrow()[pusize(i)].clone();
    Some(match st[0].as_str() {
        "new" => {
            let n = Node::new(pu64(&st[1]), pi64(&st[2]));
            w.nodes.borrow_mut().push(n);
            "ok".to_string()
        }
        "con" => guarded(|| {
            node(&st[1]).connect(&node(&st[2]), pu64(&st[3]));
            "ok".to_string()
        }),
        "try" => guarded(|| match node(&st[1]).try_connect(&node(&st[2]), pu64(&st[3])) {
            Ok(()) => "ok".to_string(),
            Err(e) => err_str(e),
        }),
        "dis" => guarded(|| match node(&st[1]).disconnect(&pu64(&st[2])) {
            Ok(e) => format!("ok {}", e),
            Err(e) => err_str(e),
        }),
        "iso" => guarded(|| {
            node(&st[1]).isolate();
            "ok".to_string()
        }),
        "qry" => guarded(|| qry(&node(&st[1]), pu64(&st[2]))),
        "snap" => guarded(|| snap(&w.nodes.borrow().clone())),
        _ => return None,
    })
}

struct CbState<'a> {
    w: &'a World,
    pred: Pred,
    script: Vec<(usize, Vec<String>)>,
    count: Cell<usize>,
    trace: RefCell<Vec<String>>,
    log: RefCell<Vec<String>>,
}

impl<'a> CbState<'a> {
    fn new(w: &'a World, pred: Pred) -> Self {
        let script = std::mem::take(&mut *w.script.borrow_mut());
        CbState { w, pred, script, count: Cell::new(0), trace: RefCell::new(vec![]), log: RefCell::new(vec![]) }
    }
    fn on_edge(&self, e: &Ed) -> bool {
        self.trace.borrow_mut().push(fmt_edge(e));
        let k = self.count.get();
        self.count.set(k + 1);
        for (i, st) in &self.script {
            if *i == k {
                let r = exec_node_step(self.w, st).unwrap_or_else(|| "unknown".to_string());
                self.log.borrow_mut().push(r.split(' ').take(2).collect::<Vec<_>>().join("_"));
            }
        }
        self.pred.eval(e)
    }
    fn tail(&self, show_trace: bool) -> String {
        let mut s = String::new();
        if show_trace {
            s.push_str(" | tr");
            for t in self.trace.borrow().iter() {
                s.push_str(t);
            }
        }
        if !self.script.is_empty() {
            s.push_str(" | log");
            for l in self.log.borrow().iter() {
                s.push(' ');
                s.push_str(l);
            }
        }
        s
    }
}

fn parse_method(st: &[String], at: usize) -> (Meth, Pred) {
    match st.get(at).map(|s| s.as_str()) {
        Some("each") => (Meth::Each, Pred::All),
        Some("filt") => (Meth::Filter, Pred::Salt(pu64(&st[at + 1]), pu64(&st[at + 2]))),
        Some("rej") => {
            let n = pusize(&st[at + 1]);
            let mut l = vec![];
            for i in 0..n {
                l.push((pu64(&st[at + 2 + 3 * i]), pu64(&st[at + 3 + 3 * i]), pu64(&st[at + 4 + 3 * i])));
            }
            (Meth::Filter, Pred::Rej(l))
        }
        _ => (Meth::None, Pred::All),
    }
}

macro_rules! fmt_path {
    ($p:expr) => {
        match $p {
            None => "r none".to_string(),
            Some(p) => {
                let mut s = String::from("r path ");
                for e in p.iter_edges() {
                    s.push_str(&fmt_edge(&e));
                }
                s.push_str(" nodes");
                for n in p.to_vec_nodes() {
                    s.push_str(&format!(" {}", n.key()));
                }
                s.push_str(&format!(" len {}", p.len()));
                s
            }
        }
    };
}

fn fmt_nodes(v: Vec<N>) -> String {
    let mut s = String::from("r nodes");
    for n in v {
        s.push_str(&format!(" {}", n.key()));
    }
    s
}

fn fmt_edges(v: Vec<Ed>) -> String {
    let mut s = String::from("r edges ");
    for e in v {
        s.push_str(&fmt_edge(&e));
    }
    s
}

macro_rules! with_method {
    ($b:expr, $meth:expr, $ff:expr, $fe:expr) => {{
        let b = $b;
        match $meth {
            Meth::Filter => b.filter($ff),
            Meth::Each => b.for_each($fe),
            Meth::None => b,
        }
    }};
}

pub fn run_case(case: &Case, sink: &mut dyn FnMut(usize, String)) {
    let w = World { nodes: RefCell::new(Vec::new()), script: RefCell::new(Vec::new()) };
    for (si, st) in case.steps.iter().enumerate() {
        let obs = if let Some(o) = exec_node_step(&w, st) {
            o
        } else {
            match st[0].as_str() {
                "scr" => {
                    w.script.borrow_mut().push((pusize(&st[1]), st[2..].to_vec()));
                    "ok".to_string()
                }
                "srch" => guarded(|| run_search(&w, st)),
                "loop" => guarded(|| run_loop(&w, st)),
                "cmp" => guarded(|| {
                    let a = w.nodes.borrow()[pusize(&st[1])].clone();
                    let b = w.nodes.borrow()[pusize(&st[2])].clone();
                    format!(
                        "cmp eq={} lt={} le={} cmp={:?} pcmp={:?}",
                        (a == b) as u8,
                        (a < b) as u8,
                        (a <= b) as u8,
                        a.cmp(&b),
                        a.partial_cmp(&b)
                    )
                }),
                other => format!("unknown-step {}", other),
            }
        };
        sink(si, obs);
    }
}

fn snap(nodes: &[N]) -> String {
    let mut s = String::from("snap");
    for n in nodes {
        s.push_str(&format!(" [{} {} out", n.key(), n.value()));
        for e in n.iter_out() {
            s.push_str(&fmt_edge(&e));
        }
        s.push_str(" in");
        for e in n.iter_in() {
            s.push_str(&fmt_edge(&e));
        }
        s.push_str(&format!(
            " od={} id={} r={} l={} o={}]",
            n.out_degree(),
            n.in_degree(),
            n.is_root() as u8,
            n.is_leaf() as u8,
            n.is_orphan() as u8
        ));
    }
    s
}

fn qry(n: &N, k: u64) -> String {
    format!("q conn={} fo={} fi={}", n.is_connected(&k) as u8, okey(n.find_outbound(&k)), okey(n.find_inbound(&k)))
}

// loop out|in <u> : a manual `for e in iter` loop, running the pending script from inside
fn run_loop(w: &World, st: &[String]) -> String {
    let u = w.nodes.borrow()[pusize(&st[2])].clone();
    let cbs = CbState::new(w, Pred::All);
    match st[1].as_str() {
        "out" => {
            for e in u.iter_out() {
                cbs.on_edge(&e);
            }
        }
        "in" => {
            for e in u.iter_in() {
                cbs.on_edge(&e);
            }
        }
        _ => {
            for e in &u {
                cbs.on_edge(&e);
            }
        }
    }
    format!("r loop{}", cbs.tail(true))
}

// srch <algo> <what> <root> <transpose> <target|-> [method...]
fn run_search(w: &World, st: &[String]) -> String {
    let algo = st[1].as_str();
    let what = st[2].as_str();
    let root = w.nodes.borrow()[pusize(&st[3])].clone();
    let tr = st[4] == "1";
    let target: Option<u64> = if st[5] == "-" { None } else { Some(pu64(&st[5])) };
    let (meth, pred) = parse_method(st, 6);
    let cbs = CbState::new(w, pred);
    let mut ff = |e: &Ed| cbs.on_edge(e);
    let mut fe = |e: &Ed| {
        cbs.on_edge(e);
    };
    macro_rules! terminal {
        ($b:expr) => {{
            let mut b = $b;
            match what {
                "find" => match b.search() {
                    Some(n) => format!("r node {}", n.key()),
                    None => "r none".to_string(),
                },
                "path" => fmt_path!(b.search_path()),
                "cycle" => fmt_path!(b.search_cycle()),
                _ => "bad-what".to_string(),
            }
        }};
    }
    macro_rules! cfg3 {
        ($b:expr) => {{
            let mut b = $b;
            if tr {
                b = b.transpose();
            }
            if let Some(ref t) = target {
                b = b.target(t);
            }
            let b = with_method!(b, meth, &mut ff, &mut fe);
            terminal!(b)
        }};
    }
    macro_rules! ord {
        ($b:expr) => {{
            let mut b = $b;
            if tr {
                b = b.transpose();
            }
            let mut b = with_method!(b, meth, &mut ff, &mut fe);
            match what {
                "nodes" => fmt_nodes(b.search_nodes()),
                "edges" => fmt_edges(b.search_edges()),
                _ => "bad-what".to_string(),
            }
        }};
    }
    let res = match algo {
        "bfs" => cfg3!(root.bfs()),
        "dfs" => cfg3!(root.dfs()),
        "pmin" => cfg3!(root.pfs().min()),
        "pmax" => cfg3!(root.pfs().max()),
        "pre" => ord!(root.preorder()),
        "post" => ord!(root.postorder()),
        _ => "bad-algo".to_string(),
    };
    format!("{}{}", res, cbs.tail(meth != Meth::None))
}
