// Body shared by digraph and sync_digraph (included inside a module that has
// `use gdsl::<flavour>::*;`).  Only the public API of the flavour is used.
use crate::{guarded, pi64, pu64, pusize, Case};

type N = Node<u64, i64, u64>;

fn fmt_edge(e: &Edge<u64, i64, u64>) -> String {
    format!("({}>{}:{})", e.source().key(), e.target().key(), e.value())
}

fn snap(nodes: &[N]) -> String {
    let mut s = String::from("snap");
    for n in nodes {
        s.push_str(&format!(" [{} {} out", n.key(), n.value()));
        for e in n.iter_out() {
            s.push_str(&fmt_edge(&e));
        }
        s.push_str(" in");
        for e in n.iter_in() {
            s.push_str(&fmt_edge(&e));
        }
        s.push_str(&format!(
            " od={} id={} r={} l={} o={}]",
            n.out_degree(),
            n.in_degree(),
            n.is_root() as u8,
            n.is_leaf() as u8,
            n.is_orphan() as u8
        ));
    }
    s
}

fn okey(o: Option<N>) -> String {
    match o {
        Some(n) => format!("{}", n.key()),
        None => "-".to_string(),
    }
}

pub fn run_case(case: &Case, sink: &mut dyn FnMut(usize, String)) {
    let mut nodes: Vec<N> = Vec::new();
    for (si, st) in case.steps.iter().enumerate() {
        let obs = match st[0].as_str() {
            "new" => {
                nodes.push(Node::new(pu64(&st[1]), pi64(&st[2])));
                "ok".to_string()
            }
            "con" => guarded(|| {
                nodes[pusize(&st[1])].connect(&nodes[pusize(&st[2])], pu64(&st[3]));
                "ok".to_string()
            }),
            "try" => guarded(|| {
                match nodes[pusize(&st[1])].try_connect(&nodes[pusize(&st[2])], pu64(&st[3])) {
                    Ok(()) => "ok".to_string(),
                    Err(gdsl::error::Error::EdgeAlreadyExists) => "err exists".to_string(),
                    Err(gdsl::error::Error::EdgeNotFound) => "err notfound".to_string(),
                }
            }),
            "dis" => guarded(|| match nodes[pusize(&st[1])].disconnect(&pu64(&st[2])) {
                Ok(e) => format!("ok {}", e),
                Err(gdsl::error::Error::EdgeNotFound) => "err notfound".to_string(),
                Err(gdsl::error::Error::EdgeAlreadyExists) => "err exists".to_string(),
            }),
            "iso" => guarded(|| {
                nodes[pusize(&st[1])].isolate();
                "ok".to_string()
            }),
            "qry" => guarded(|| {
                let n = &nodes[pusize(&st[1])];
                let k = pu64(&st[2]);
                format!(
                    "q conn={} fo={} fi={}",
                    n.is_connected(&k) as u8,
                    okey(n.find_outbound(&k)),
                    okey(n.find_inbound(&k))
                )
            }),
            "snap" => guarded(|| snap(&nodes)),
            other => format!("unknown-step {}", other),
        };
        sink(si, obs);
    }
}
