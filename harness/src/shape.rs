// A serde Serializer that records which DATA-MODEL calls a `Serialize` implementation makes
// (serialize_tuple / serialize_seq / serialize_map / ... and one letter-free mark per scalar).  JSON and CBOR
// render a tuple and a sequence alike, so documents re-parsed from them cannot tell the two calls apart; a
// compact binary format can (a sequence carries its length, a tuple does not).  The recorded shape is part of
// the `gser` observation, so it is compared with the model's expected shape for every flavour (C12, C13, C15).
use serde::ser::{self, Serialize};
use std::fmt;

#[derive(Debug)]
pub struct ShapeErr(String);
impl fmt::Display for ShapeErr {
    fn fmt(&self, f: &mut fmt::Formatter) -> fmt::Result {
        write!(f, "{}", self.0)
    }
}
impl std::error::Error for ShapeErr {}
impl ser::Error for ShapeErr {
    fn custom<T: fmt::Display>(m: T) -> Self {
        ShapeErr(m.to_string())
    }
}

pub struct Rec<'a>(pub &'a mut String);
pub struct Comp<'a>(&'a mut String);

pub fn shape_of<T: Serialize + ?Sized>(v: &T) -> String {
    let mut s = String::new();
    match v.serialize(Rec(&mut s)) {
        Ok(()) => s,
        Err(e) => format!("shape-error:{}", e.0.replace(' ', "_")),
    }
}

macro_rules! scalar {
    ($($f:ident : $t:ty),*) => { $(fn $f(self, _v: $t) -> Result<(), ShapeErr> { self.0.push('_'); Ok(()) })* };
}

impl<'a> ser::Serializer for Rec<'a> {
    type Ok = ();
    type Error = ShapeErr;
    type SerializeSeq = Comp<'a>;
    type SerializeTuple = Comp<'a>;
    type SerializeTupleStruct = Comp<'a>;
    type SerializeTupleVariant = Comp<'a>;
    type SerializeMap = Comp<'a>;
    type SerializeStruct = Comp<'a>;
    type SerializeStructVariant = Comp<'a>;
    scalar!(serialize_bool: bool, serialize_i8: i8, serialize_i16: i16, serialize_i32: i32, serialize_i64: i64,
            serialize_u8: u8, serialize_u16: u16, serialize_u32: u32, serialize_u64: u64, serialize_f32: f32,
            serialize_f64: f64, serialize_char: char, serialize_str: &str, serialize_bytes: &[u8]);
    fn serialize_none(self) -> Result<(), ShapeErr> {
        self.0.push_str("None");
        Ok(())
    }
    fn serialize_some<T: Serialize + ?Sized>(self, v: &T) -> Result<(), ShapeErr> {
        self.0.push_str("Some(");
        v.serialize(Rec(self.0))?;
        self.0.push(')');
        Ok(())
    }
    fn serialize_unit(self) -> Result<(), ShapeErr> {
        self.0.push_str("Unit");
        Ok(())
    }
    fn serialize_unit_struct(self, _n: &'static str) -> Result<(), ShapeErr> {
        self.0.push_str("UnitStruct");
        Ok(())
    }
    fn serialize_unit_variant(self, _n: &'static str, _i: u32, _v: &'static str) -> Result<(), ShapeErr> {
        self.0.push_str("UnitVariant");
        Ok(())
    }
    fn serialize_newtype_struct<T: Serialize + ?Sized>(self, _n: &'static str, v: &T) -> Result<(), ShapeErr> {
        self.0.push_str("Newtype(");
        v.serialize(Rec(self.0))?;
        self.0.push(')');
        Ok(())
    }
    fn serialize_newtype_variant<T: Serialize + ?Sized>(self, _n: &'static str, _i: u32, _v: &'static str, v: &T) -> Result<(), ShapeErr> {
        self.0.push_str("NewtypeVariant(");
        v.serialize(Rec(self.0))?;
        self.0.push(')');
        Ok(())
    }
    fn serialize_seq(self, len: Option<usize>) -> Result<Comp<'a>, ShapeErr> {
        match len {
            Some(n) => self.0.push_str(&format!("S{}(", n)),
            None => self.0.push_str("S?("),
        }
        Ok(Comp(self.0))
    }
    fn serialize_tuple(self, len: usize) -> Result<Comp<'a>, ShapeErr> {
        self.0.push_str(&format!("T{}(", len));
        Ok(Comp(self.0))
    }
    fn serialize_tuple_struct(self, _n: &'static str, len: usize) -> Result<Comp<'a>, ShapeErr> {
        self.0.push_str(&format!("TS{}(", len));
        Ok(Comp(self.0))
    }
    fn serialize_tuple_variant(self, _n: &'static str, _i: u32, _v: &'static str, len: usize) -> Result<Comp<'a>, ShapeErr> {
        self.0.push_str(&format!("TV{}(", len));
        Ok(Comp(self.0))
    }
    fn serialize_map(self, len: Option<usize>) -> Result<Comp<'a>, ShapeErr> {
        match len {
            Some(n) => self.0.push_str(&format!("M{}(", n)),
            None => self.0.push_str("M?("),
        }
        Ok(Comp(self.0))
    }
    fn serialize_struct(self, _n: &'static str, len: usize) -> Result<Comp<'a>, ShapeErr> {
        self.0.push_str(&format!("R{}(", len));
        Ok(Comp(self.0))
    }
    fn serialize_struct_variant(self, _n: &'static str, _i: u32, _v: &'static str, len: usize) -> Result<Comp<'a>, ShapeErr> {
        self.0.push_str(&format!("RV{}(", len));
        Ok(Comp(self.0))
    }
}

macro_rules! comp_impl {
    ($tr:ident, $elem:ident) => {
        impl<'a> ser::$tr for Comp<'a> {
            type Ok = ();
            type Error = ShapeErr;
            fn $elem<T: Serialize + ?Sized>(&mut self, v: &T) -> Result<(), ShapeErr> {
                v.serialize(Rec(self.0))
            }
            fn end(self) -> Result<(), ShapeErr> {
                self.0.push(')');
                Ok(())
            }
        }
    };
}
comp_impl!(SerializeSeq, serialize_element);
comp_impl!(SerializeTuple, serialize_element);
comp_impl!(SerializeTupleStruct, serialize_field);
comp_impl!(SerializeTupleVariant, serialize_field);

impl<'a> ser::SerializeMap for Comp<'a> {
    type Ok = ();
    type Error = ShapeErr;
    fn serialize_key<T: Serialize + ?Sized>(&mut self, k: &T) -> Result<(), ShapeErr> {
        k.serialize(Rec(self.0))
    }
    fn serialize_value<T: Serialize + ?Sized>(&mut self, v: &T) -> Result<(), ShapeErr> {
        v.serialize(Rec(self.0))
    }
    fn end(self) -> Result<(), ShapeErr> {
        self.0.push(')');
        Ok(())
    }
}
macro_rules! struct_impl {
    ($tr:ident) => {
        impl<'a> ser::$tr for Comp<'a> {
            type Ok = ();
            type Error = ShapeErr;
            fn serialize_field<T: Serialize + ?Sized>(&mut self, _k: &'static str, v: &T) -> Result<(), ShapeErr> {
                v.serialize(Rec(self.0))
            }
            fn end(self) -> Result<(), ShapeErr> {
                self.0.push(')');
                Ok(())
            }
        }
    };
}
struct_impl!(SerializeStruct);
struct_impl!(SerializeStructVariant);
