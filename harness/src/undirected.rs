// Body shared by ungraph and sync_ungraph.

use crate::{guarded, pi64, pu64, pusize, Case};
use std::cell::{Cell, RefCell};

type N = Node<Kt, i64, Et>;
type Ed = Edge<Kt, i64, Et>;

fn fmt_edge(e: &Ed) -> String {
    format!("({}>{}:{})", e.source().key(), e.target().key(), e.value())
}

fn okey(o: Option<N>) -> String {
    match o {
        Some(n) => format!("{}", n.key()),
        None => "-".to_string(),
    }
}

fn err_str(e: gdsl::error::Error) -> String {
    match e {
        gdsl::error::Error::EdgeAlreadyExists => "err exists".to_string(),
        gdsl::error::Error::EdgeNotFound => "err notfound".to_string(),
    }
}

/// pure edge predicate family shared with the model driver
#[derive(Clone)]
enum Pred {
    All,
    Salt(u64, u64),
    Rej(Vec<(u64, u64, u64)>),
}

impl Pred {
    fn eval(&self, e: &Ed) -> bool {
        let (s, t, v) = (e.source().key().n(), e.target().key().n(), e.value().n());
        match self {
            Pred::All => true,
            Pred::Salt(a, m) => (3 * s + 5 * t + 7 * v + a) % m != 0,
            Pred::Rej(l) => !l.contains(&(s, t, v)),
        }
    }
}

#[derive(PartialEq, Clone, Copy)]
enum Meth {
    None,
    Filter,
    Each,
}

struct World {
    nodes: RefCell<Vec<N>>,
    graphs: RefCell<Vec<Graph<Kt, i64, Et>>>,
    /// thread programs of the conc channel: per thread a list of calls
    threads: RefCell<Vec<Vec<Vec<String>>>>,
    /// pending script: (invocation index, step tokens), consumed by the next loop/search
    script: RefCell<Vec<(usize, Vec<String>)>>,
    /// pending extra script (container operations, nested searches/loops, comparisons, sizeof) run from inside the next loop/search
    xscript: RefCell<Vec<(usize, Vec<String>)>>,
    /// number of edge loops run so far in this case (selects the iterator consumer)
    loops: Cell<usize>,
    /// nodes handed back by Graph::remove are kept alive here (their neighbours still refer to them weakly)
    keep: RefCell<Vec<N>>,
}


/// obtain a handle of node `i` by the provenance named in the step's trailing `via:<how>` token (C03: the effect of an
/// operation must not depend on which handle of the node is used). Falls back to a clone when that provenance is not
/// available in the current graph.
fn handle_via(w: &World, i: usize, how: &str) -> N {
    let base = w.nodes.borrow()[i].clone();
    match how {
        // endpoint of an edge handed out by the node's own iterator (a clone made by the iterator)
        "e" => {
            // (the iterator is dropped before `base` is moved: it may own a guard)
            let first = base.iter().next();
            match first {
                Some(e) => e.source().clone(),
                None => base,
            }
        }
        // target endpoint of an edge of some OTHER node: obtained by upgrading the weak adjacency entry
        "t" => {
            for n in w.nodes.borrow().iter() {
                for e in n.iter() {
                    if e.target().key() == base.key() {
                        return e.target().clone();
                    }
                }
            }
            base
        }
        // container lookup
        "g" => {
            let mut g: Graph<Kt, i64, Et> = Graph::new();
            g.insert(base.clone());
            g.get(base.key()).unwrap()
        }
        // search result
        "s" => {
            for n in w.nodes.borrow().iter() {
                if n.key() != base.key() {
                    if let Some(r) = n.bfs().target(base.key()).search() {
                        return r;
                    }
                }
            }
            base
        }
        _ => base,
    }
}

/// node-channel steps; used at top level and from inside callbacks
fn exec_node_step(w: &World, st: &[String]) -> Option<String> {
    let how: String = st.last().and_then(|t| t.strip_prefix("via:")).unwrap_or("").to_string();
    let node = |i: &String| {
        if how.is_empty() {
            w.nodes.borrow()[pusize(i)].clone()
        } else {
            handle_via(w, pusize(i), &how)
        }
    };
    Some(match st[0].as_str() {
        "new" => {
            let n = Node::new(Kt::of(pu64(&st[1])), pi64(&st[2]));
            w.nodes.borrow_mut().push(n);
            "ok".to_string()
        }
        // when both operands name the same node (and no provenance is requested) they are THE SAME HANDLE OBJECT half of the
        // time (`a.connect(&a, e)`), two clones otherwise
        "con" => guarded(|| {
            if st[1] == st[2] && how.is_empty() && pu64(&st[3]) % 2 == 0 {
                let a = node(&st[1]);
                a.connect(&a, Et::of(pu64(&st[3])));
            } else {
                node(&st[1]).connect(&node(&st[2]), Et::of(pu64(&st[3])));
            }
            "ok".to_string()
        }),
        "try" => guarded(|| {
            let r = if st[1] == st[2] && how.is_empty() && pu64(&st[3]) % 2 == 0 {
                let a = node(&st[1]);
                a.try_connect(&a, Et::of(pu64(&st[3])))
            } else {
                node(&st[1]).try_connect(&node(&st[2]), Et::of(pu64(&st[3])))
            };
            match r {
                Ok(()) => "ok".to_string(),
                Err(e) => err_str(e),
            }
        }),
        "dis" => guarded(|| match node(&st[1]).disconnect(&Kt::of(pu64(&st[2]))) {
            Ok(e) => format!("ok {}", e),
            Err(e) => err_str(e),
        }),
        "iso" => guarded(|| {
            node(&st[1]).isolate();
            "ok".to_string()
        }),
        "qry" => guarded(|| qry(&node(&st[1]), Kt::of(pu64(&st[2])))),
        "snap" => guarded(|| snap(&w.nodes.borrow().clone())),
        _ => return None,
    })
}

struct CbState<'a> {
    w: &'a World,
    pred: Pred,
    script: Vec<(usize, Vec<String>)>,
    xscript: Vec<(usize, Vec<String>)>,
    xlog: RefCell<Vec<String>>,
    count: Cell<usize>,
    trace: RefCell<Vec<String>>,
    log: RefCell<Vec<String>>,
}

impl<'a> CbState<'a> {
    fn new(w: &'a World, pred: Pred) -> Self {
        let script = std::mem::take(&mut *w.script.borrow_mut());
        let xscript = std::mem::take(&mut *w.xscript.borrow_mut());
        CbState { w, pred, script, xscript, xlog: RefCell::new(vec![]), count: Cell::new(0), trace: RefCell::new(vec![]), log: RefCell::new(vec![]) }
    }
    fn on_edge(&self, e: &Ed) -> bool {
        self.trace.borrow_mut().push(fmt_edge(e));
        let k = self.count.get();
        self.count.set(k + 1);
        for (i, st) in &self.script {
            if *i == k {
                let r = exec_node_step(self.w, st).unwrap_or_else(|| "unknown".to_string());
                self.log.borrow_mut().push(r.split(' ').take(2).collect::<Vec<_>>().join("_"));
            }
        }
        for (i, st) in &self.xscript {
            if *i == k {
                let r = exec_any(self.w, st);
                self.xlog.borrow_mut().push(r.replace(' ', "_"));
            }
        }
        self.pred.eval(e)
    }
    /// forget what the closure has seen so far (between two runs of one search object)
    fn reset(&self) {
        self.trace.borrow_mut().clear();
        self.log.borrow_mut().clear();
        self.xlog.borrow_mut().clear();
        self.count.set(0);
    }
    fn tail(&self, show_trace: bool) -> String {
        let mut s = String::new();
        if show_trace {
            s.push_str(" | tr");
            for t in self.trace.borrow().iter() {
                s.push_str(t);
            }
        }
        if !self.script.is_empty() {
            s.push_str(" | log");
            for l in self.log.borrow().iter() {
                s.push(' ');
                s.push_str(l);
            }
        }
        if !self.xscript.is_empty() {
            s.push_str(" | xlog");
            for l in self.xlog.borrow().iter() {
                s.push(' ');
                s.push_str(l);
            }
        }
        s
    }
}

fn parse_method(st: &[String], at: usize) -> (Meth, Pred) {
    match st.get(at).map(|s| s.as_str()) {
        Some("each") => (Meth::Each, Pred::All),
        Some("filt") => (Meth::Filter, Pred::Salt(pu64(&st[at + 1]), pu64(&st[at + 2]))),
        Some("rej") => {
            let n = pusize(&st[at + 1]);
            let mut l = vec![];
            for i in 0..n {
                l.push((pu64(&st[at + 2 + 3 * i]), pu64(&st[at + 3 + 3 * i]), pu64(&st[at + 4 + 3 * i])));
            }
            (Meth::Filter, Pred::Rej(l))
        }
        _ => (Meth::None, Pred::All),
    }
}

macro_rules! fmt_path {
    ($p:expr) => {
        match $p {
            None => "r none".to_string(),
            Some(p) => {
                let mut s = String::from("r path ");
                for e in p.iter_edges() {
                    s.push_str(&fmt_edge(&e));
                }
                s.push_str(" nodes");
                for n in p.to_vec_nodes() {
                    s.push_str(&format!(" {}", n.key()));
                }
                s.push_str(&format!(" len {}", p.len()));
                // the other accessors of Path
                let fe = p.first_edge().map(|e| fmt_edge(e)).unwrap_or_default();
                let le = p.last_edge().map(|e| fmt_edge(e)).unwrap_or_default();
                let f_n = p.first_node().map(|n| format!("{}", n.key())).unwrap_or_default();
                let l_n = p.last_node().map(|n| format!("{}", n.key())).unwrap_or_default();
                let i0 = if p.len() > 1 { fmt_edge(&p[0]) } else { String::new() };
                let ve = p.to_vec_edges().iter().map(|e| fmt_edge(e)).collect::<Vec<_>>().join("");
                let ni = p.iter_nodes().count();
                s.push_str(&format!(" acc {} {} {} {} {} {} {}", fe, le, f_n, l_n, i0, ve, ni));
                // the PUBLIC field `edges` and indexing at every position are the same sequence the accessors report
                let field = p.edges.iter().map(|e| fmt_edge(e)).collect::<Vec<_>>().join("");
                let indexed = (0..p.edges.len()).map(|i| fmt_edge(&p[i])).collect::<Vec<_>>().join("");
                if field != ve || indexed != ve {
                    s.push_str(" PATH.EDGES-OR-INDEXING-DIFFERS-FROM-TO_VEC_EDGES");
                }
                // iter_nodes() yields the very nodes to_vec_nodes() returns, in the same order
                let it_nodes = p.iter_nodes().map(|n| format!("{}", n.key())).collect::<Vec<_>>();
                let vec_nodes = p.to_vec_nodes().iter().map(|n| format!("{}", n.key())).collect::<Vec<_>>();
                if it_nodes != vec_nodes {
                    s.push_str(" ITER_NODES-DIFFERS-FROM-TO_VEC_NODES");
                }
                s
            }
        }
    };
}

fn fmt_nodes(v: Vec<N>) -> String {
    let mut s = String::from("r nodes");
    for n in v {
        s.push_str(&format!(" {}", n.key()));
    }
    s
}

fn fmt_edges(v: Vec<Ed>) -> String {
    let mut s = String::from("r edges ");
    for e in v {
        s.push_str(&fmt_edge(&e));
    }
    s
}

macro_rules! with_method {
    ($b:expr, $meth:expr, $ff:expr, $fe:expr, $nf:expr, $ne:expr, $variant:expr) => {{
        let b = $b;
        match $meth {
            Meth::Filter if $variant == 1 => b.for_each($ne).filter($ff),
            Meth::Each if $variant == 1 => b.filter($nf).for_each($fe),
            // the SAME setter twice: the later closure replaces the earlier one, it does not chain with it
            Meth::Filter if $variant == 3 => b.filter($nf).filter($ff),
            Meth::Each if $variant == 3 => b.for_each($ne).for_each($fe),
            Meth::Filter => b.filter($ff),
            Meth::Each => b.for_each($fe),
            Meth::None => b,
        }
    }};
}


// ---------------------------------------------------------------------------
// container / scc / dot / serde channel
// ---------------------------------------------------------------------------
type Gr = Graph<Kt, i64, Et>;

fn order_str(g: &Gr) -> String {
    let mut s = String::from("ord [");
    for (i, (k, _)) in g.iter().enumerate() {
        if i > 0 {
            s.push(' ');
        }
        s.push_str(&format!("{}", k));
    }
    s.push(']');
    s
}

fn keys_str(v: &[N]) -> String {
    v.iter().map(|n| format!("{}", n.key())).collect::<Vec<_>>().join(" ")
}

/// text of a DOT export -> canonical tokens (whitespace is not part of the property)
fn dot_tokens(text: &str) -> String {
    let mut out = Vec::new();
    for line in text.lines() {
        let l = line.trim();
        if l.is_empty() {
            continue;
        }
        // the frame of the document: exactly one opening line first and one closing brace last
        if l == "digraph {" {
            out.push("OPEN".to_string());
            continue;
        }
        if l == "}" {
            out.push("CLOSE".to_string());
            continue;
        }
        if let Some(pos) = l.find(" -> ") {
            let (a, rest) = l.split_at(pos);
            let rest = &rest[4..];
            let (b, attrs) = match rest.find(' ') {
                Some(p) => (&rest[..p], rest[p + 1..].trim()),
                None => (rest, ""),
            };
            if attrs.is_empty() {
                out.push(format!("E:{}>{}", a, b));
            } else {
                out.push(format!("E:{}>{}:{}", a, b, attrs));
            }
        } else if l.contains("=\"") && !l.contains('[') {
            out.push(format!("G:{}", l));
        } else {
            let (a, attrs) = match l.find(' ') {
                Some(p) => (&l[..p], l[p + 1..].trim()),
                None => (l, ""),
            };
            if attrs.is_empty() {
                out.push(format!("N:{}", a));
            } else {
                out.push(format!("N:{}:{}", a, attrs));
            }
        }
    }
    out.join(" ")
}

/// `[ [ i1 i5 ] n t s"x" { s"k" i1 } d1.5 ]` -> JSON text
fn tokens_to_json(toks: &[String]) -> String {
    let mut s = String::new();
    let mut need_comma: Vec<bool> = vec![false];
    let mut in_map: Vec<(bool, usize)> = vec![(false, 0)];
    for t in toks {
        let closing = t == "]" || t == "}";
        if !closing {
            let (m, cnt) = *in_map.last().unwrap();
            if *need_comma.last().unwrap() {
                if m && cnt % 2 == 1 {
                    s.push(':');
                } else {
                    s.push(',');
                }
            }
        }
        match t.as_str() {
            "[" => {
                s.push('[');
                if let Some(l) = in_map.last_mut() {
                    l.1 += 1;
                }
                *need_comma.last_mut().unwrap() = true;
                need_comma.push(false);
                in_map.push((false, 0));
                continue;
            }
            "{" => {
                s.push('{');
                if let Some(l) = in_map.last_mut() {
                    l.1 += 1;
                }
                *need_comma.last_mut().unwrap() = true;
                need_comma.push(false);
                in_map.push((true, 0));
                continue;
            }
            "]" => {
                s.push(']');
                need_comma.pop();
                in_map.pop();
                continue;
            }
            "}" => {
                s.push('}');
                need_comma.pop();
                in_map.pop();
                continue;
            }
            "n" => s.push_str("null"),
            "t" => s.push_str("true"),
            "f" => s.push_str("false"),
            _ => {
                let (c, rest) = t.split_at(1);
                match c {
                    "i" | "d" => s.push_str(rest),
                    "s" => s.push_str(&format!("\"{}\"", rest)),
                    _ => s.push_str("null"),
                }
            }
        }
        if let Some(l) = in_map.last_mut() {
            l.1 += 1;
        }
        *need_comma.last_mut().unwrap() = true;
    }
    s
}

fn doc_str(v: &serde_json::Value) -> String {
    // canonical rendering of the emitted document: doc [[k v]..] [[u v e]..]
    let mut s = String::from("doc");
    if let Some(top) = v.as_array() {
        for part in top {
            s.push_str(" [");
            if let Some(items) = part.as_array() {
                for it in items {
                    s.push('[');
                    if let Some(xs) = it.as_array() {
                        s.push_str(&xs.iter().map(|x| x.to_string()).collect::<Vec<_>>().join(" "));
                    } else {
                        s.push_str(&it.to_string());
                    }
                    s.push(']');
                }
            } else {
                s.push_str(&part.to_string());
            }
            s.push(']');
        }
    } else {
        s.push_str(&format!(" {}", v));
    }
    s
}

fn ser_value(g: &Gr, fmt: &str) -> Result<serde_json::Value, String> {
    match fmt {
        "json" => {
            let text = serde_json::to_string(g).map_err(|e| e.to_string())?;
            serde_json::from_str(&text).map_err(|e| e.to_string())
        }
        _ => {
            let bytes = serde_cbor::to_vec(g).map_err(|e| e.to_string())?;
            serde_cbor::from_slice(&bytes).map_err(|e| e.to_string())
        }
    }
}

fn de_graph(fmt: &str, json_text: &str) -> Result<Gr, String> {
    match fmt {
        "json" => serde_json::from_str::<Gr>(json_text).map_err(|e| e.to_string()),
        _ => {
            let v: serde_json::Value = serde_json::from_str(json_text).map_err(|e| format!("cannot build cbor: {}", e))?;
            let bytes = serde_cbor::to_vec(&v).map_err(|e| e.to_string())?;
            serde_cbor::from_slice::<Gr>(&bytes).map_err(|e| e.to_string())
        }
    }
}

fn exec_graph_step(w: &World, st: &[String]) -> Option<String> {
    let gi = |i: &String| pusize(i);
    Some(match st[0].as_str() {
        "gnew" => {
            let g = match st.get(1).map(|x| x.as_str()) {
                Some("cap") => graph_cap!(pusize(&st[2])),
                Some("def") => Default::default(),
                _ => Graph::new(),
            };
            w.graphs.borrow_mut().push(g);
            "ok".to_string()
        }
        "gins" => guarded(|| {
            let n = w.nodes.borrow()[pusize(&st[2])].clone();
            format!("ok {}", w.graphs.borrow_mut()[gi(&st[1])].insert(n) as u8)
        }),
        "gget" => guarded(|| format!("get {}", okey(w.graphs.borrow()[gi(&st[1])].get(&Kt::of(pu64(&st[2])))))),
        "gcon" => guarded(|| {
            let gs = w.graphs.borrow();
            let g = &gs[gi(&st[1])];
            let a = g.get(&Kt::of(pu64(&st[2]))).unwrap();
            let b = g.get(&Kt::of(pu64(&st[3]))).unwrap();
            a.connect(&b, Et::of(pu64(&st[4])));
            "ok".to_string()
        }),
        "gidx" => guarded(|| {
            let gs = w.graphs.borrow();
            let k = Kt::of(pu64(&st[2]));
            let by_ref = idx_ref!(gs[gi(&st[1])], k);
            let n = &gs[gi(&st[1])][k];
            // Deref: a node dereferences to its value
            format!("idx {}{}{}", n.key(), if by_ref != n.key().n() { " IDXREF!" } else { "" }, if **n != *n.value() { " DEREF!" } else { "" })
        }),
        "ghas" => guarded(|| format!("has {}", w.graphs.borrow()[gi(&st[1])].contains(&Kt::of(pu64(&st[2]))) as u8)),
        "glen" => guarded(|| {
            let gs = w.graphs.borrow();
            format!("len {} emp {}", gs[gi(&st[1])].len(), gs[gi(&st[1])].is_empty() as u8)
        }),
        "grem" => guarded(|| {
            let removed = w.graphs.borrow_mut()[gi(&st[1])].remove(&Kt::of(pu64(&st[2])));
            match removed {
                Some(n) => {
                    // the handle handed back must be the member itself, with its edges untouched
                    let out = format!("some {} deg {}", n.key(), deg!(n));
                    w.keep.borrow_mut().push(n);
                    out
                }
                None => "none".to_string(),
            }
        }),
        // a member that only the container owns: no handle is kept outside (the slot in `nodes` gets an unrelated dummy
        // so that node indices stay aligned with the model; cases never use that index)
        "gnn" => guarded(|| {
            let ok = w.graphs.borrow_mut()[gi(&st[1])].insert(Node::new(Kt::of(pu64(&st[2])), pi64(&st[3])));
            w.nodes.borrow_mut().push(Node::new(Kt::of(pu64(&st[2])), pi64(&st[3])));
            format!("ok {}", ok as u8)
        }),
        "gsnap" => guarded(|| {
            let gs = w.graphs.borrow();
            format!("gsnap {}", graph_snap(&gs[gi(&st[1])]))
        }),
        "gvec" => guarded(|| {
            let gs = w.graphs.borrow();
            let g = &gs[gi(&st[1])];
            format!("{} res {}", order_str(g), keys_str(&g.to_vec()))
        }),
        "giter" => guarded(|| {
            let gs = w.graphs.borrow();
            let g = &gs[gi(&st[1])];
            let v: Vec<N> = g.iter().map(|(k, n)| { assert!(k == n.key()); n.clone() }).collect();
            format!("{} res {}", order_str(g), keys_str(&v))
        }),
        "gorph" => guarded(|| {
            let gs = w.graphs.borrow();
            let g = &gs[gi(&st[1])];
            format!("{} res {}", order_str(g), keys_str(&g.orphans()))
        }),
        "gdot" => guarded(|| {
            let gs = w.graphs.borrow();
            let g = &gs[gi(&st[1])];
            format!("{} dot {}", order_str(g), dot_tokens(&g.to_dot()))
        }),
        "gser" => guarded(|| {
            let gs = w.graphs.borrow();
            let g = &gs[gi(&st[1])];
            match ser_value(g, &st[2]) {
                Ok(v) => format!("{} {} dm {}", order_str(g), doc_str(&v), crate::shape::shape_of(g)),
                Err(e) => format!("ser-error {}", e),
            }
        }),
        "grt" => guarded(|| {
            let gs = w.graphs.borrow();
            let g = &gs[gi(&st[1])];
            let ord = order_str(g);
            let back: Result<Gr, String> = match st[2].as_str() {
                "json" => serde_json::to_string(g).map_err(|e| e.to_string()).and_then(|t| serde_json::from_str(&t).map_err(|e| e.to_string())),
                _ => serde_cbor::to_vec(g).map_err(|e| e.to_string()).and_then(|b| serde_cbor::from_slice(&b).map_err(|e| e.to_string())),
            };
            match back {
                Ok(g2) => format!("{} de ok {}", ord, graph_snap(&g2)),
                Err(_) => format!("{} de err", ord),
            }
        }),
        "gde" => guarded(|| {
            let text = tokens_to_json(&st[2..]);
            match de_graph(&st[1], &text) {
                Ok(g2) => format!("de ok {}", graph_snap(&g2)),
                Err(e) => {
                    if e.starts_with("cannot build cbor") {
                        "de unbuildable".to_string()
                    } else {
                        "de err".to_string()
                    }
                }
            }
        }),
        "gdebytes" => guarded(|| {
            // raw (possibly mutated) bytes given as hex: never panic; Ok => the graph must be sane
            let hex: &str = st.get(2).map(|x| x.as_str()).unwrap_or(""); // an empty input has no third token
            let bytes: Vec<u8> = (0..hex.len() / 2).map(|i| u8::from_str_radix(&hex[2 * i..2 * i + 2], 16).unwrap()).collect();
            let r: Result<Gr, String> = match st[1].as_str() {
                "json" => serde_json::from_slice::<Gr>(&bytes).map_err(|e| e.to_string()),
                _ => serde_cbor::from_slice::<Gr>(&bytes).map_err(|e| e.to_string()),
            };
            match r {
                Ok(g2) => format!("de ok {}", graph_snap(&g2)),
                Err(_) => "de err".to_string(),
            }
        }),
        _ => return None,
    })
}

fn graph_snap(g: &Gr) -> String {
    let mut v = g.to_vec();
    v.sort_by_key(|n| n.key().n());
    let mut s = String::new();
    for n in &v {
        s.push_str(&format!("[{} {} adj", n.key(), n.value()));
        for e in n.iter() {
            s.push_str(&fmt_edge(&e));
        }
        s.push(']');
    }
    s
}

fn exec_graph_step_flavour(w: &World, st: &[String]) -> Option<String> {
    let gi = |i: &String| pusize(i);
    Some(match st[0].as_str() {
        "gdota" => guarded(|| {
            let gs = w.graphs.borrow();
            let g = &gs[gi(&st[1])];
            let (ga, na, ea) = (pu64(&st[2]), pu64(&st[3]), pu64(&st[4]));
            let text = dot_attr!(g, ga, na, ea);
            format!("{} dot {}", order_str(g), dot_tokens(&text))
        }),
        _ => return None,
    })
}

/// every step kind; used at top level and (for the extra script) from inside callbacks
fn exec_any(w: &World, st: &[String]) -> String {
    if let Some(o) = exec_node_step(w, st) {
        o
    } else if let Some(o) = exec_graph_step(w, st) {
        o
    } else if let Some(o) = exec_graph_step_flavour(w, st) {
        o
    } else {
        match st[0].as_str() {
            "nvord" => guarded(|| match FLAVOUR {
                "digraph" => crate::nvord_digraph(),
                "sync_digraph" => crate::nvord_sync_digraph(),
                "ungraph" => crate::nvord_ungraph(),
                _ => crate::nvord_sync_ungraph(),
            }),
            "klossy" => guarded(|| match FLAVOUR {
                "digraph" => crate::lossy_digraph(),
                "sync_digraph" => crate::lossy_sync_digraph(),
                "ungraph" => crate::lossy_ungraph(),
                _ => crate::lossy_sync_ungraph(),
            }),
            "scr" => {
                w.script.borrow_mut().push((pusize(&st[1]), st[2..].to_vec()));
                "ok".to_string()
            }
            "scx" => {
                w.xscript.borrow_mut().push((pusize(&st[1]), st[2..].to_vec()));
                "ok".to_string()
            }
            "size" => guarded(|| {
                // sizeof of a node and of every container: exercised for panics / self-deadlock only
                let n = w.nodes.borrow()[pusize(&st[1])].clone();
                let a = n.sizeof();
                let b: usize = w.graphs.borrow().iter().map(|g| graph_sizeof!(g)).sum();
                format!("ok{}", if a == 0 || b == usize::MAX { "?" } else { "" })
            }),
            "thr" => {
                let t = pusize(&st[1]);
                let mut th = w.threads.borrow_mut();
                while th.len() <= t {
                    th.push(Vec::new());
                }
                th[t].push(st[2..].to_vec());
                "ok".to_string()
            }
            "sched" => {
                let nodes: Vec<N> = w.nodes.borrow().clone();
                let progs = w.threads.borrow().clone();
                let schedule: Vec<usize> = st[1..].iter().map(|x| pusize(x)).collect();
                conc_step!(&nodes, &progs, &schedule)
            }
            "srch" => guarded(|| run_search(w, st)),
            "loop" => guarded(|| run_loop(w, st)),
            "ecmp" => guarded(|| {
                let a = w.nodes.borrow()[pusize(&st[1])].clone();
                let b = w.nodes.borrow()[pusize(&st[3])].clone();
                let ex = a.iter().nth(pusize(&st[2]));
                let ey = b.iter().nth(pusize(&st[4]));
                match (ex, ey) {
                    (Some(x), Some(y)) => format!(
                        "ecmp eq={} cmp={:?} pcmp={:?} rev={} rr={}",
                        (x == y) as u8,
                        x.cmp(&y),
                        x.partial_cmp(&y),
                        fmt_edge(&x.reverse()),
                        fmt_edge(&x.reverse().reverse())
                    ),
                    _ => "none".to_string(),
                }
            }),
            "cmp" => guarded(|| {
                let a = w.nodes.borrow()[pusize(&st[1])].clone();
                let b = w.nodes.borrow()[pusize(&st[2])].clone();
                format!(
                    "cmp eq={} lt={} le={} cmp={:?} pcmp={:?} ne={} gt={} ge={} max={} min={}",
                    (a == b) as u8,
                    (a < b) as u8,
                    (a <= b) as u8,
                    a.cmp(&b),
                    a.partial_cmp(&b),
                    (a != b) as u8,
                    (a > b) as u8,
                    (a >= b) as u8,
                    // Ord::max / Ord::min (values): which operand's VALUE is returned
                    std::cmp::max(a.clone(), b.clone()).value(),
                    std::cmp::min(a.clone(), b.clone()).value()
                )
            }),
            other => format!("unknown-step {}", other),
        }
    }
}

pub fn run_case(case: &Case, sink: &mut dyn FnMut(usize, String)) {
    let w = World { nodes: RefCell::new(Vec::new()), graphs: RefCell::new(Vec::new()), threads: RefCell::new(Vec::new()), script: RefCell::new(Vec::new()), xscript: RefCell::new(Vec::new()), loops: Cell::new(0), keep: RefCell::new(Vec::new()) };
    for (si, st) in case.steps.iter().enumerate() {
        // `only:<flavour>` restricts a step to one flavour (API not common to the twins)
        let mut st: &[String] = st;
        if st[0].starts_with("only:") {
            if &st[0][5..] != FLAVOUR {
                sink(si, "skip".to_string());
                continue;
            }
            st = &st[1..];
        }
        let obs = exec_any(&w, st);
        sink(si, obs);
    }
}

fn snap(nodes: &[N]) -> String {
    let mut s = String::from("snap");
    for n in nodes {
        s.push_str(&format!(" [{} {} adj", n.key(), n.value()));
        for e in n.iter() {
            s.push_str(&fmt_edge(&e));
        }
        s.push_str(&format!(" dg={} o={}]", n.degree(), n.is_orphan() as u8));
    }
    s
}

fn qry(n: &N, k: Kt) -> String {
    format!("q conn={} fa={}", n.is_connected(&k) as u8, okey(n.find_adjacent(&k)))
}


/// drive an edge iterator to its end through one of several consumers of the Iterator protocol (a `for` loop,
/// map+collect, extend into a vector at capacity, explicit next() with size_hint() queries, chain+fold): all of them
/// must hand out the same edges; the choice is a pure function of the step text and of how many loops ran before
macro_rules! consume_edges {
    ($it:expr, $cbs:expr, $variant:expr) => {{
        let mut it = $it;
        match $variant {
            0 => {
                for e in it {
                    $cbs.on_edge(&e);
                }
            }
            1 => {
                let v: Vec<Ed> = it.map(|e| { $cbs.on_edge(&e); e }).collect();
                drop(v);
            }
            2 => {
                let mut v: Vec<Ed> = Vec::with_capacity(1);
                v.extend(it.map(|e| { $cbs.on_edge(&e); e }));
                drop(v);
            }
            3 => loop {
                let (lo, hi) = it.size_hint();
                if let Some(h) = hi {
                    assert!(lo <= h, "size_hint lower bound above the upper bound");
                }
                match it.next() {
                    Some(e) => {
                        $cbs.on_edge(&e);
                    }
                    None => break,
                }
            },
            4 => {
                let first = it.next();
                if let Some(e) = first {
                    $cbs.on_edge(&e);
                    let rest: Vec<Ed> = std::iter::empty::<Ed>().chain(it).map(|e| { $cbs.on_edge(&e); e }).collect();
                    drop(rest);
                }
            }
            // Iterator's PROVIDED methods on an iterator that has already been advanced: nth(0) is next(), step_by(1) walks
            // with next() once and nth(0) afterwards: the same edges in the same order as the plain loop
            5 => {
                if let Some(e) = it.next() {
                    $cbs.on_edge(&e);
                    while let Some(e) = it.nth(0) {
                        $cbs.on_edge(&e);
                    }
                }
            }
            6 => {
                if let Some(e) = it.next() {
                    $cbs.on_edge(&e);
                    for e in it.step_by(1) {
                        $cbs.on_edge(&e);
                    }
                }
            }
            // INTERNAL iteration (Iterator::for_each / fold / sum): the loop body runs inside the iterator's own method,
            // which must not hold a borrow / guard across it either
            8 => {
                it.for_each(|e| {
                    $cbs.on_edge(&e);
                });
            }
            9 => {
                if let Some(e) = it.next() {
                    $cbs.on_edge(&e);
                    let n: usize = it.map(|e| { $cbs.on_edge(&e); 1usize }).sum();
                    let _ = n;
                }
            }
            _ => loop {
                match it.next() {
                    Some(e) => {
                        $cbs.on_edge(&e);
                    }
                    None => break,
                }
                match it.nth(0) {
                    Some(e) => {
                        $cbs.on_edge(&e);
                    }
                    None => break,
                }
            },
        }
    }};
}
fn run_loop(w: &World, st: &[String]) -> String {
    let u = w.nodes.borrow()[pusize(&st[2])].clone();
    let cbs = CbState::new(w, Pred::All);
    let nth = w.loops.get();
    w.loops.set(nth + 1);
    let variant = (st.iter().map(|t| t.bytes().map(|b| b as usize).sum::<usize>()).sum::<usize>() + nth) % 10;
    match st[1].as_str() {
        "adj" => {
            consume_edges!(u.iter(), cbs, variant);
        }
        _ => {
            for e in &u {
                cbs.on_edge(&e);
            }
        }
    }
    format!("r loop{}", cbs.tail(true))
}

// srch <algo> <what> <root> <transpose(ignored)> <target|-> [method...]
fn run_search(w: &World, st: &[String]) -> String {
    // `srch ... then <op>`: the SAME configured search object is run, the graph is changed (or the object re-targeted),
    // and the object is run again
    let (st, then_op): (&[String], Option<&[String]>) = match st.iter().position(|t| t == "then") {
        Some(i) => (&st[..i], Some(&st[i + 1..])),
        None => (st, None),
    };
    let retarget_key: Kt = match then_op {
        Some(op) if op[0] == "retarget" => Kt::of(pu64(&op[1])),
        _ => Kt::of(0),
    };
    let algo = st[1].as_str();
    let what = st[2].as_str();
    let root = w.nodes.borrow()[pusize(&st[3])].clone();
    let target: Option<Kt> = if st[5] == "-" { None } else { Some(Kt::of(pu64(&st[5]))) };
    let (meth, pred) = parse_method(st, 6);
    let cbs = CbState::new(w, pred);
    let mut ff = |e: &Ed| cbs.on_edge(e);
    let mut fe = |e: &Ed| {
        cbs.on_edge(e);
    };
    // closures that are set and then REPLACED by the step's own method (filter and for_each share one slot: the later call wins)
    let replaced_called = std::cell::Cell::new(false);
    let mut nf = |_e: &Ed| {
        replaced_called.set(true);
        false
    };
    let mut ne = |_e: &Ed| {
        replaced_called.set(true);
    };
    // the builder calls are made in an order chosen per step (a pure function of the step text)
    let variant: u32 = st.iter().map(|t| t.bytes().map(|b| b as u32).sum::<u32>()).sum::<u32>() % 4;
    let wrong_key: Kt = Kt::of(999_983);
    macro_rules! terminal {
        ($b:expr, $kind:tt) => {{
            let mut b = $b;
            // a configured search object may be run again where the terminal method takes a plain `&mut self`
            // (search_path of every algorithm): it must give the same answer
            macro_rules! again {
                ($first:expr, $second:expr) => {{
                    let first = $first;
                    if let Some(op) = then_op {
                        // each run reports what its closure saw; the second run starts with a clean record
                        let first = format!("{}{}", first, cbs.tail(meth != Meth::None));
                        cbs.reset();
                        if op[0] == "retarget" {
                            b = b.target(&retarget_key);
                        } else {
                            let _ = exec_node_step(w, op);
                        }
                        let second = $second;
                        format!("{} THEN {}", first, second)
                    } else if meth == Meth::None {
                        let second = $second;
                        if second != first {
                            format!("{} REUSED-OBJECT-ANSWERS {}", first, second)
                        } else {
                            first
                        }
                    } else {
                        first
                    }
                }};
            }
            macro_rules! fmt_find {
                ($r:expr) => {
                    match $r {
                        Some(n) => format!("r node {}", n.key()),
                        None => "r none".to_string(),
                    }
                };
            }
            macro_rules! find_arm {
                (plain) => { fmt_find!(b.search()) };
                // Pfs::search takes &mut self: the object is reused (second run, possibly after a change of the graph), and
                // search() must keep agreeing with search_path() on the same object
                (pfs) => {{
                    let r = again!(fmt_find!(b.search()), fmt_find!(b.search()));
                    if then_op.is_none() && meth == Meth::None {
                        let p = b.search_path().is_some();
                        if p != r.starts_with("r node") { format!("{} SEARCH-AND-SEARCH_PATH-DISAGREE-ON-ONE-OBJECT", r) } else { r }
                    } else { r }
                }};
            }
            if meth == Meth::None && then_op.is_none() && variant >= 2 && what != "path" {
                // another terminal method first, on the same object, its result discarded
                let _ = b.search_path();
            }
            match what {
                "find" => find_arm!($kind),
                "path" => again!(fmt_path!(b.search_path()), fmt_path!(b.search_path())),
                "cycle" => fmt_path!(b.search_cycle()),
                _ => "bad-what".to_string(),
            }
        }};
    }
    macro_rules! prio_none { ($b:expr) => { $b }; }
    macro_rules! prio_min { ($b:expr) => { $b.min() }; }
    macro_rules! prio_max { ($b:expr) => { $b.max() }; }
    macro_rules! prio_maxmin { ($b:expr) => { $b.max().min() }; }
    macro_rules! prio_minmax { ($b:expr) => { $b.min().max() }; }
    macro_rules! cfg3 {
        ($b:expr, $pr:ident, $kind:tt) => {{
            let mut b = $b;
            match variant {
                0 | 3 => {
                    if variant == 0 {
                        b = $pr!(b);
                    }
                    if let Some(ref t) = target {
                        b = b.target(t);
                    }
                    let mut b = with_method!(b, meth, &mut ff, &mut fe, &mut nf, &mut ne, variant);
                    if variant == 3 {
                        b = $pr!(b);
                    }
                    terminal!(b, $kind)
                }
                1 => {
                    let mut b = with_method!(b, meth, &mut ff, &mut fe, &mut nf, &mut ne, variant);
                    if let Some(ref t) = target {
                        b = b.target(t);
                    }
                    b = $pr!(b);
                    terminal!(b, $kind)
                }
                _ => {
                    if let Some(ref t) = target {
                        b = b.target(&wrong_key).target(t);
                    }
                    b = $pr!(b);
                    let b = with_method!(b, meth, &mut ff, &mut fe, &mut nf, &mut ne, variant);
                    terminal!(b, $kind)
                }
            }
        }};
    }
    // pre() / post() called AFTER the closure was set must not drop it
    macro_rules! ord_after {
        ($b:expr, none) => { $b };
        ($b:expr, pre) => { $b.pre() };
        ($b:expr, post) => { $b.post() };
    }
    macro_rules! ord {
        ($b:expr) => { ord!($b, none) };
        ($b:expr, $after:tt) => {{
            let b = $b;
            let b = with_method!(b, meth, &mut ff, &mut fe, &mut nf, &mut ne, variant);
            let mut b = ord_after!(b, $after);
            macro_rules! once {
                () => {
                    match what {
                        "nodes" => {
                            if meth == Meth::None && variant >= 2 {
                                let _ = b.search_edges();   // the other terminal first, on the same object
                            }
                            fmt_nodes(b.search_nodes())
                        }
                        "edges" => {
                            if meth == Meth::None && variant >= 2 {
                                let _ = b.search_nodes();
                            }
                            fmt_edges(b.search_edges())
                        }
                        _ => "bad-what".to_string(),
                    }
                };
            }
            let first = once!();
            if let Some(op) = then_op {
                let first = format!("{}{}", first, cbs.tail(meth != Meth::None));
                cbs.reset();
                let _ = exec_node_step(w, op);
                let second = once!();
                format!("{} THEN {}", first, second)
            } else if meth == Meth::None {
                let second = once!();
                if second != first {
                    format!("{} REUSED-OBJECT-ANSWERS {}", first, second)
                } else {
                    first
                }
            } else {
                first
            }
        }};
    }
    let res = match algo {
        "bfs" => cfg3!(root.bfs(), prio_none, plain),
        "dfs" => cfg3!(root.dfs(), prio_none, plain),
        "pmin" => match variant {
            0 => cfg3!(root.pfs(), prio_none, pfs), // Min is the default priority
            1 => cfg3!(root.pfs(), prio_maxmin, pfs),
            _ => cfg3!(root.pfs(), prio_min, pfs),
        },
        "pmax" => match variant {
            1 => cfg3!(root.pfs(), prio_minmax, pfs),
            _ => cfg3!(root.pfs(), prio_max, pfs),
        },
        "pre" => {
            if variant == 3 {
                ord!(root.order().post(), pre) // the ordering chosen after the closure was set
            } else if variant == 1 {
                ord!(root.order()) // the default ordering of order() is preorder
            } else if variant == 2 {
                ord!(root.order().post().pre()) // the later setter wins
            } else {
                ord!(root.order().pre())
            }
        }
        "post" => {
            if variant == 3 {
                ord!(root.order(), post)
            } else if variant == 2 {
                ord!(root.order().pre().post())
            } else {
                ord!(root.order().post())
            }
        }
        _ => "bad-algo".to_string(),
    };
    // a closure that a later setter replaced must never be called (setters replace, they do not chain)
    let marker = if replaced_called.get() { " A-REPLACED-CLOSURE-WAS-CALLED" } else { "" };
    format!("{}{}{}", res, cbs.tail(meth != Meth::None), marker)
}
