#!/bin/sh
# Build the framework from files on disk only (offline): Coq development, extracted model + OCaml driver, Rust harness.
set -e
cd "$(dirname "$0")"
export CARGO_NET_OFFLINE=true
python3 - <<'PY'
import sys, os
sys.path.insert(0, os.path.join(os.getcwd(), "tools"))
import vlib
rc, out = vlib.build_coq(None, timeout=3000)
print(out[-3000:])
if rc != 0:
    # a broken proof is reported by the individual checks; setup still builds the executables
    print("WARNING: coq build returned", rc)
rc, out = vlib.build_model_driver()
print(out[-2000:])
if rc != 0:
    sys.exit(1)
rc, out = vlib.build_harness()
print(out[-2000:])
sys.exit(0 if rc == 0 else 1)
PY
