(* driver.ml — runs case files on the extracted Coq model (model.ml) and prints
   the same observation lines as the Rust harness.  Keys and edge values are
   Coq N, node values Coq Z, ids/positions/fuel Coq nat. *)
open Model

(* ---------- conversions ---------- *)
let rec nat_of_int (i : int) : nat = if i <= 0 then O else S (nat_of_int (i - 1))
let rec int_of_nat (n : nat) : int = match n with O -> 0 | S m -> 1 + int_of_nat m

let rec pos_of_int (i : int) : positive =
  if i <= 1 then XH else if i land 1 = 0 then XO (pos_of_int (i lsr 1)) else XI (pos_of_int (i lsr 1))
let rec int_of_pos (p : positive) : int =
  match p with XH -> 1 | XO q -> 2 * int_of_pos q | XI q -> 2 * int_of_pos q + 1

let n_of_int (i : int) : n = if i = 0 then N0 else Npos (pos_of_int i)
let int_of_n (x : n) : int = match x with N0 -> 0 | Npos p -> int_of_pos p
let z_of_int (i : int) : z = if i = 0 then Z0 else if i > 0 then Zpos (pos_of_int i) else Zneg (pos_of_int (-i))
let int_of_z (x : z) : int = match x with Z0 -> 0 | Zpos p -> int_of_pos p | Zneg p -> - (int_of_pos p)

(* node values are i64 in the harness: the full range goes through Int64 (an OCaml int has 63 bits) *)
let rec pos_of_u64 (i : int64) : positive =
  if Int64.equal i 1L || Int64.equal i 0L then XH
  else if Int64.equal (Int64.logand i 1L) 0L then XO (pos_of_u64 (Int64.shift_right_logical i 1))
  else XI (pos_of_u64 (Int64.shift_right_logical i 1))
let rec u64_of_pos (p : positive) : int64 =
  match p with XH -> 1L | XO q -> Int64.shift_left (u64_of_pos q) 1 | XI q -> Int64.logor (Int64.shift_left (u64_of_pos q) 1) 1L
let z_of_str (s : string) : z =
  let i = Int64.of_string s in
  if Int64.equal i 0L then Z0 else if Int64.compare i 0L > 0 then Zpos (pos_of_u64 i) else Zneg (pos_of_u64 (Int64.neg i))
let zstr (x : z) : string =
  match x with Z0 -> "0" | Zpos p -> Int64.to_string (u64_of_pos p) | Zneg p -> Int64.to_string (Int64.neg (u64_of_pos p))

let keqb (a : n) (b : n) : bool = N.eqb a b

type hp = (n, z, n) heap

let b2i b = if b then 1 else 0

(* keys and edge values are u64 *)
let u64_of_n (x : n) : int64 = match x with N0 -> 0L | Npos p -> u64_of_pos p
let ncmp (a : n) (b : n) : int = Int64.unsigned_compare (u64_of_n a) (u64_of_n b)
let nstr (x : n) : string = match x with N0 -> "0" | Npos p -> Printf.sprintf "%Lu" (u64_of_pos p)

let key_str (h : hp) (u : nat) : string =
  match keyof h u with Some k -> nstr k | None -> "?"

let fmt_edge (h : hp) (s : nat) (t : nat) (e : n) : string =
  Printf.sprintf "(%s>%s:%s)" (key_str h s) (key_str h t) (nstr e)

(* decimal literal of any length -> Z (None when it is not an optionally signed run of digits) *)
let z_of_dec (s : string) : z option =
  let len = String.length s in
  let neg = len > 0 && s.[0] = '-' in
  let start = if neg || (len > 0 && s.[0] = '+') then 1 else 0 in
  if len - start <= 0 then None
  else if not (String.for_all (fun ch -> ch >= '0' && ch <= '9') (String.sub s start (len - start))) then None
  else begin
    let d = Array.init (len - start) (fun i -> Char.code s.[start + i] - 48) in
    let is_zero () = Array.for_all (fun x -> x = 0) d in
    let bits = ref [] in   (* least significant first *)
    while not (is_zero ()) do
      bits := (d.(Array.length d - 1) land 1) :: !bits;
      let carry = ref 0 in
      Array.iteri (fun i x -> let cur = !carry * 10 + x in d.(i) <- cur / 2; carry := cur mod 2) d
    done;
    (* !bits is most significant first *)
    match !bits with
    | [] -> Some Z0
    | _ :: rest ->
        let p = List.fold_left (fun acc b -> if b = 1 then XI acc else XO acc) XH rest in
        Some (if neg then Zneg p else Zpos p)
  end
let rec pos_len (p : positive) : int = match p with XH -> 1 | XO q | XI q -> 1 + pos_len q
let rec pos_is_pow2 (p : positive) : bool = match p with XH -> true | XO q -> pos_is_pow2 q | XI _ -> false

let ids (h : hp) : nat list =
  let rec go i n = if i >= n then [] else nat_of_int i :: go (i + 1) n in
  go 0 (int_of_nat (size h))

let snap_d (h : hp) : string =
  let b = Buffer.create 256 in
  Buffer.add_string b "snap";
  List.iter (fun u ->
    let k = key_str h u in
    let v = match valof h u with Some v -> zstr v | None -> "0" in
    Buffer.add_string b (Printf.sprintf " [%s %s out" k v);
    List.iter (fun (t, e) -> Buffer.add_string b (fmt_edge h u t e)) (h.outs u);
    Buffer.add_string b " in";
    List.iter (fun (s, e) -> Buffer.add_string b (fmt_edge h s u e)) (h.ins u);
    Buffer.add_string b (Printf.sprintf " od=%d id=%d r=%d l=%d o=%d]"
      (int_of_nat (out_degree h u)) (int_of_nat (in_degree h u))
      (b2i (is_root h u)) (b2i (is_leaf h u)) (b2i (is_orphan h u)))) (ids h);
  Buffer.contents b

let snap_u (h : hp) : string =
  let b = Buffer.create 256 in
  Buffer.add_string b "snap";
  List.iter (fun u ->
    let k = key_str h u in
    let v = match valof h u with Some v -> zstr v | None -> "0" in
    Buffer.add_string b (Printf.sprintf " [%s %s adj" k v);
    List.iter (fun (t, e) -> Buffer.add_string b (fmt_edge h u t e)) (adj_u h u);
    Buffer.add_string b (Printf.sprintf " dg=%d o=%d]"
      (int_of_nat (degree_u h u)) (b2i (is_orphan h u)))) (ids h);
  Buffer.contents b

let outcome_str (o : n outcome) : string =
  match o with
  | OkU -> "ok"
  | OkE e -> Printf.sprintf "ok %d" (int_of_n e)
  | ErrNotFound -> "err notfound"
  | ErrExists -> "err exists"
  | Panic -> "panic"
  | Invalid -> "invalid"

let okey (h : hp) (o : (nat * n) option) : string =
  match o with Some (v, _) -> key_str h v | None -> "-"

(* ---------- case files ---------- *)
type case = { name : string; cls : char; steps : string array list }

let split_ws (s : string) : string list =
  List.filter (fun t -> t <> "") (String.split_on_char ' ' (String.trim s))

let parse_cases (ic : in_channel) : case list =
  let cases = ref [] and cur = ref None in
  let flush () = match !cur with
    | Some c -> cases := { c with steps = List.rev c.steps } :: !cases; cur := None
    | None -> () in
  (try
    while true do
      let line = input_line ic in
      let toks = split_ws line in
      match toks with
      | [] -> ()
      | t :: _ when String.length t > 0 && t.[0] = '#' -> ()
      | "case" :: nm :: cl :: _ -> flush (); cur := Some { name = nm; cls = cl.[0]; steps = [] }
      | _ -> (match !cur with
              | Some c -> cur := Some { c with steps = Array.of_list toks :: c.steps }
              | None -> ())
    done
  with End_of_file -> ());
  flush ();
  List.rev !cases

let ios = int_of_string

let big_fuel : nat = nat_of_int 300000

let log_str (o : n outcome) : string =
  match o with
  | OkU -> "ok"
  | OkE e -> Printf.sprintf "ok_%d" (int_of_n e)
  | ErrNotFound -> "err_notfound"
  | ErrExists -> "err_exists"
  | Panic -> "panic"
  | Invalid -> "invalid"

let parse_op (st : string array) (at : int) : (n, z, n) op option =
  match st.(at) with
  | "new" -> Some (ONew (n_of_int (ios st.(at+1)), z_of_str st.(at+2)))
  | "con" -> Some (OConnect (nat_of_int (ios st.(at+1)), nat_of_int (ios st.(at+2)), n_of_int (ios st.(at+3))))
  | "try" -> Some (OTryConnect (nat_of_int (ios st.(at+1)), nat_of_int (ios st.(at+2)), n_of_int (ios st.(at+3))))
  | "dis" -> Some (ODisconnect (nat_of_int (ios st.(at+1)), n_of_int (ios st.(at+2))))
  | "iso" -> Some (OIsolate (nat_of_int (ios st.(at+1))))
  | _ -> None

(* method: (is_filter, show_trace, pred on (source key, target key, value)) *)
let parse_method (st : string array) (at : int) : bool * bool * (n -> n -> n -> bool) =
  if Array.length st <= at then (false, false, (fun _ _ _ -> true))
  else match st.(at) with
  | "each" -> (false, true, (fun _ _ _ -> true))
  | "filt" ->
      let a = ios st.(at+1) and m = ios st.(at+2) in
      (true, true, (fun s t e -> (3 * int_of_n s + 5 * int_of_n t + 7 * int_of_n e + a) mod m <> 0))
  | "rej" ->
      let k = ios st.(at+1) in
      let l = List.init k (fun i -> (ios st.(at+2+3*i), ios st.(at+3+3*i), ios st.(at+4+3*i))) in
      (true, true, (fun s t e -> not (List.mem (int_of_n s, int_of_n t, int_of_n e) l)))
  | _ -> (false, false, (fun _ _ _ -> true))

let tail (h : hp) (c : n cbst) (show_trace : bool) (has_script : bool) : string =
  let b = Buffer.create 64 in
  if show_trace then begin
    Buffer.add_string b " | tr";
    List.iter (fun ((s, t), e) -> Buffer.add_string b (fmt_edge h s t e)) (List.rev c.c_trace)
  end;
  if has_script then begin
    Buffer.add_string b " | log";
    List.iter (fun o -> Buffer.add_string b (" " ^ log_str o)) (List.rev c.c_log)
  end;
  Buffer.contents b

let fmt_path (h : hp) (p : n edge list) : string =
  let b = Buffer.create 64 in
  Buffer.add_string b "r path ";
  List.iter (fun ((s, t), e) -> Buffer.add_string b (fmt_edge h s t e)) p;
  Buffer.add_string b " nodes";
  List.iter (fun u -> Buffer.add_string b (" " ^ key_str h u)) (path_nodes p);
  Buffer.add_string b (Printf.sprintf " len %d" (List.length p + 1));
  (* first_edge last_edge first_node (= target of the first edge, as coded) last_node path[0] to_vec_edges iter_nodes().count() *)
  let fe ((s, t), e) = fmt_edge h s t e in
  let so f o = (match o with Some x -> f x | None -> "") in
  (* all from the model's PathApi definitions *)
  Buffer.add_string b (Printf.sprintf " acc %s %s %s %s %s %s %d" (so fe (p_first_edge p)) (so fe (p_last_edge p))
    (so (key_str h) (p_first_node p)) (so (key_str h) (p_last_node p))
    (so fe (p_index p O)) (String.concat "" (List.map fe (p_to_vec_edges p))) (List.length (p_iter_nodes p)));
  Buffer.contents b

(* ---------- containers ---------- *)
type gr = (n * nat) list

let split_at_order (st : string array) : string array * n list =
  (* tokens after "@" are the observed iteration order (keys) *)
  let l = Array.to_list st in
  let rec go acc = function
    | [] -> (List.rev acc, [])
    | "@" :: r -> (List.rev acc, List.map (fun x -> n_of_int (ios x)) r)
    | x :: r -> go (x :: acc) r in
  let (a, o) = go [] l in (Array.of_list a, o)

let order_str (o : n list) : string =
  "ord [" ^ String.concat " " (List.map (fun k -> string_of_int (int_of_n k)) o) ^ "]"

(* the observed iteration order is an INPUT of the container functions; the hypothesis OrderOK of their theorems is tested
   here with the model's own decision procedure (Container.order_okb, sound by order_okb_sound): an order that is not a
   duplicate-free listing of exactly the bound keys is answered with a marker no implementation output can equal *)
let ord_chk (g : gr) (o : n list) : string =
  if order_okb keqb g o then order_str o else "ord-is-not-a-listing-of-the-members " ^ order_str o

let keys_of (h : hp) (l : nat list) : string = String.concat " " (List.map (key_str h) l)

let graph_snap (directed : bool) (h : hp) (g : gr) : string =
  let ms = List.sort (fun (a, _) (b, _) -> ncmp a b) g in
  let b = Buffer.create 128 in
  List.iter (fun (k, u) ->
    let v = match valof h u with Some v -> zstr v | None -> "0" in
    if directed then begin
      Buffer.add_string b (Printf.sprintf "[%s %s out" (nstr k) v);
      List.iter (fun (t, e) -> Buffer.add_string b (fmt_edge h u t e)) (h.outs u);
      Buffer.add_string b " in";
      List.iter (fun (s, e) -> Buffer.add_string b (fmt_edge h s u e)) (h.ins u);
      Buffer.add_string b "]"
    end else begin
      Buffer.add_string b (Printf.sprintf "[%s %s adj" (nstr k) v);
      List.iter (fun (t, e) -> Buffer.add_string b (fmt_edge h u t e)) (adj_u h u);
      Buffer.add_string b "]"
    end) ms;
  Buffer.contents b

(* value trees from the token form  [ [ i1 i5 ] n t s"x" { .. } d1.5 ] *)
let parse_value (toks : string list) : value =
  let rec one = function
    | "[" :: r -> let (l, r') = many r in (VSeq l, r')
    | "{" :: r -> let (l, r') = manym r in (VMap l, r')
    | "n" :: r -> (VNull, r)
    | "t" :: r -> (VBool true, r)
    | "f" :: r -> (VBool false, r)
    | t :: r ->
        if String.length t > 0 && t.[0] = 'i' then
          (match z_of_dec (String.sub t 1 (String.length t - 1)) with
           | Some z -> (VInt z, r)
           | None -> (VOther, r))
        else (VOther, r)
    | [] -> (VNull, [])
  and many = function
    | "]" :: r -> ([], r)
    | [] -> ([], [])
    | l -> let (v, r) = one l in let (vs, r') = many r in (v :: vs, r')
  and manym = function
    | "}" :: r -> ([], r)
    | [] -> ([], [])
    | l -> let (k, r) = one l in let (v, r2) = one r in let (vs, r') = manym r2 in ((k, v) :: vs, r') in
  fst (one toks)

(* the ranges serde enforces for the harness's field types: u64 keys / edge values, i64 node values *)
let dec_u64 (v : value) : n option =
  match v with
  | VInt Z0 -> Some N0
  | VInt (Zpos p) -> if pos_len p <= 64 then Some (Npos p) else None
  | _ -> None
let dec_i64 (v : value) : z option =
  match v with
  | VInt Z0 -> Some Z0
  | VInt (Zpos p) -> if pos_len p <= 63 then Some (Zpos p) else None
  | VInt (Zneg p) -> if pos_len p <= 63 || (pos_len p = 64 && pos_is_pow2 p) then Some (Zneg p) else None
  | _ -> None

let dot_tokens (h : hp) (l : n dotstmt list) (ga : int) (na : int) (ea : int) : string =
  let tok = function
    | GraphAttr i -> if int_of_nat i = 0 then "G:rankdir=\"LR\"" else "G:label=\"g\""
    | NodeStmt (u, a) ->
        if not a then "N:" ^ key_str h u
        else if na = 1 then Printf.sprintf "N:%s:[label=\"n%s\\l\"]" (key_str h u) (key_str h u)
        else Printf.sprintf "N:%s:[label=\"n%s\\l\"][v=\"%s\"]" (key_str h u) (key_str h u)
               (match valof h u with Some v -> zstr v | None -> "0")
    | EdgeStmt (u, v, e, a) ->
        if not a then Printf.sprintf "E:%s>%s" (key_str h u) (key_str h v)
        else if ea = 3 then Printf.sprintf "E:%s>%s:[p=\"%s>%s:%d\"]" (key_str h u) (key_str h v) (key_str h u) (key_str h v) (int_of_n e)
        else if ea = 6 then Printf.sprintf "E:%s>%s:[w=\"%d\"][c=\"x\"]" (key_str h u) (key_str h v) (int_of_n e)
        else Printf.sprintf "E:%s>%s:[w=\"%d\"]" (key_str h u) (key_str h v) (int_of_n e) in
  (* the document is `digraph {` ... `}`: the harness reports the opening and the closing line as tokens too *)
  String.concat " " ("OPEN" :: List.map tok l @ ["CLOSE"])

let cmp_name (c : comparison) : string = match c with Lt -> "Less" | Eq -> "Equal" | Gt -> "Greater"

(* ---------- conc channel (C17) ---------- *)
let parse_call (st : string array) (at : int) : (n, n) call option =
  let nn i = nat_of_int (ios st.(at + i)) in
  match st.(at) with
  | "con" -> Some (CConnect (nn 1, nn 2, n_of_int (ios st.(at+3))))
  | "try" -> Some (CTryConnect (nn 1, nn 2, n_of_int (ios st.(at+3))))
  | "dis" -> Some (CDisconnect (nn 1, n_of_int (ios st.(at+2))))
  | "iso" -> Some (CIsolate (nn 1))
  | "deg" -> Some (CDegree (nn 1))
  | "ideg" -> Some (CInDegree (nn 1))
  | "orph" -> Some (CIsOrphan (nn 1))
  | "conn" -> Some (CIsConnected (nn 1, n_of_int (ios st.(at+2))))
  | "iter" -> Some (CIter (nn 1))
  | "iterin" -> Some (CIterIn (nn 1))
  | _ -> None

let cres_str (h : hp) (r : n cres) : string =
  match r with
  | RO o -> log_str o
  | RNat k -> string_of_int (int_of_nat k)
  | RBool b -> string_of_int (b2i b)
  | REdges l -> "[" ^ String.concat "" (List.map (fun ((a, b), e) -> fmt_edge h a b e) l) ^ "]"

let conc_obs (directed : bool) (c : (n, z, n) config) (evs : ((nat * nat) * bool) list) : string =
  let h = c.c_heap in
  let b = Buffer.create 256 in
  Buffer.add_string b "ev";
  List.iter (fun ((t, u), w) -> Buffer.add_string b (Printf.sprintf " %d:%s:%s" (int_of_nat t) (key_str h u) (if w then "w" else "r"))) evs;
  List.iteri (fun i t ->
    Buffer.add_string b (Printf.sprintf " | t%d %s" i
      (match t.t_status with TRun -> "running" | TDone -> "done" | TPanic -> "panic" | TFuel -> "fuel"));
    List.iter (fun r -> Buffer.add_string b (" " ^ cres_str h r)) t.t_results) c.c_threads;
  Buffer.add_string b " | pois";
  List.iter (fun k -> Buffer.add_string b (" " ^ string_of_int k))
    (List.sort compare (List.map (fun u -> match keyof h u with Some k -> int_of_n k | None -> -1) c.c_poisoned));
  Buffer.add_string b " | snap";
  let poisoned u = List.exists (fun v -> int_of_nat v = int_of_nat u) c.c_poisoned in
  List.iter (fun u ->
    if poisoned u then Buffer.add_string b (Printf.sprintf " [%s poisoned]" (key_str h u))
    else if directed then begin
      Buffer.add_string b (Printf.sprintf " [%s out" (key_str h u));
      List.iter (fun (t, e) -> Buffer.add_string b (fmt_edge h u t e)) (h.outs u);
      Buffer.add_string b " in";
      List.iter (fun (s, e) -> Buffer.add_string b (fmt_edge h s u e)) (h.ins u);
      Buffer.add_string b "]"
    end else begin
      Buffer.add_string b (Printf.sprintf " [%s adj" (key_str h u));
      List.iter (fun (t, e) -> Buffer.add_string b (fmt_edge h u t e)) (adj_u h u);
      Buffer.add_string b "]"
    end) (ids h);
  Buffer.contents b

let conc_fuel : nat = nat_of_int 5000

(* collect the thread programs of a case: thr <tid> <call...> *)
let thread_progs (c : case) : (n, n) call list list =
  let tbl : (int, (n, n) call list) Hashtbl.t = Hashtbl.create 4 in
  let maxt = ref (-1) in
  List.iter (fun st ->
    if st.(0) = "thr" then begin
      let t = ios st.(1) in
      if t > !maxt then maxt := t;
      match parse_call st 2 with
      | Some cl -> Hashtbl.replace tbl t ((try Hashtbl.find tbl t with Not_found -> []) @ [cl])
      | None -> ()
    end) c.steps;
  List.init (!maxt + 1) (fun t -> try Hashtbl.find tbl t with Not_found -> [])

(* is the schedule serial: a thread is only preempted between two of its calls *)
let is_serial (directed : bool) (c0 : (n, z, n) config) (sched : nat list) : bool =
  let c = ref c0 and prev = ref (-1) and ok = ref true in
  let nres t = match List.nth_opt (!c).c_threads t with Some th -> List.length th.t_results | None -> 0 in
  let midcall = ref false in
  List.iter (fun tid ->
    let t = int_of_nat tid in
    if !prev >= 0 && t <> !prev && !midcall then ok := false;
    let before = nres t in
    let (c1, _) = cstep keqb directed !c tid in
    c := c1;
    let th = List.nth (!c).c_threads t in
    midcall := (nres t = before) && (match th.t_status with TRun -> true | _ -> false);
    prev := t) sched;
  !ok

let explore_cases (cls : char) (cases : case list) (oc : out_channel) (limit : int) : unit =
  List.iter (fun c ->
    if c.cls = cls && List.exists (fun st -> st.(0) = "explore") c.steps then begin
      let directed = (cls = 'D') in
      let step = if directed then step_d keqb else step_u keqb in
      let h = ref empty_heap in
      List.iter (fun st -> match parse_op st 0 with
        | Some o -> let (h1, _) = step !h o in h := h1
        | None -> ()) c.steps;
      let cfg = init_config keqb directed !h (thread_progs c) in
      (* depth-first enumeration of the maximal schedules with the model's own step function (Conc.cstep), like
         Conc.explore but bounded: serial schedules are always kept, the others up to `limit` (0 = up to 20000) *)
      let cap = if limit <= 0 then 20000 else limit in
      let acc = ref [] and total = ref 0 and kept_nonserial = ref 0 in
      let nthreads = List.length cfg.c_threads in
      let rec dfs (cf : (n, z, n) config) (prefix : nat list) (depth : int) : unit =
        let tids = List.filter (fun i -> match List.nth_opt cf.c_threads i with
                                         | Some t -> (match t.t_status, t.t_cur with TRun, Some (Step _) -> true | _ -> false)
                                         | None -> false) (List.init nthreads (fun i -> i)) in
        if tids = [] || depth > 400 then begin
          incr total;
          let sc = List.rev prefix in
          if is_serial directed cfg sc then acc := sc :: !acc
          else if !kept_nonserial < cap then begin incr kept_nonserial; acc := sc :: !acc end
        end else
          List.iter (fun i ->
            if !total < 400000 then
              let (c1, _) = cstep keqb directed cf (nat_of_int i) in
              dfs c1 (nat_of_int i :: prefix) (depth + 1)) tids in
      dfs cfg [] 0;
      let scheds = List.rev !acc in
      let n = !total in
      let limit = 0 in
      let pre = List.filter (fun st -> st.(0) <> "explore") c.steps in
      let nonserial = ref 0 in
      List.iteri (fun i sc ->
        let serial = is_serial directed cfg sc in
        (* serial schedules are always replayed (they define the sequential outcomes); the others up to the limit *)
        if serial || limit <= 0 || !nonserial < limit then begin
          if not serial then incr nonserial;
          Printf.fprintf oc "case %s_s%d%s %c\n" c.name i (if serial then "S" else "") cls;
          List.iter (fun st -> Printf.fprintf oc "%s\n" (String.concat " " (Array.to_list st))) pre;
          Printf.fprintf oc "sched %s\n" (String.concat " " (List.map (fun t -> string_of_int (int_of_nat t)) sc))
        end) scheds;
      let cls_name = (match known_class keqb directed !h (thread_progs c) with
        | None -> "none"
        | Some KIsolate -> "isolate-vs-concurrent-access"
        | Some KDisconnect -> "disconnect-vs-concurrent-access"
        | Some KTryConnect -> "try_connect-check-then-act"
        | Some KConSeveral -> "connect-observed-by-several-calls"
        | Some KConSamePair -> "connect-connect-same-pair-order"
        | Some KUndirSelfLoop -> "undirected-self-loop-connect-half-visible"
        | Some KUndirIterShift -> "undirected-iteration-shifted-by-connect"
        | Some KConCycle -> "connect-cycle-of-list-orders") in
      Printf.fprintf oc "# %s: %d schedules class=%s\n" c.name n cls_name
    end) cases


let rec run_case (oc : out_channel) (c : case) : unit =
  if String.length c.name >= 4 && String.sub c.name 0 4 = "deep" then begin
    (* structures with thousands of nodes: decided on the implementation by the independent oracle only (the model's
       unary ids and functional adjacency make it cubic there); every step is reported as exercise-only *)
    Printf.fprintf oc "case %s\n" c.name;
    List.iteri (fun si _ -> Printf.fprintf oc "%d exercise-only\n" si) c.steps
  end else run_case_model oc c
and run_case_model (oc : out_channel) (c : case) : unit =
  Printf.fprintf oc "case %s\n" c.name;
  let directed = (c.cls = 'D') in
  let step = if directed then step_d keqb else step_u keqb in
  let h : hp ref = ref empty_heap in
  let apply (o : (n, z, n) op) : string =
    let (h1, r) = step !h o in h := h1; outcome_str r in
  let graphs : gr array ref = ref [||] in
  let getg i = (!graphs).(i) in
  let setg i g = (!graphs).(i) <- g in
  let script : (nat * (n, z, n) op list) list ref = ref [] in
  let take_script () = let s = List.rev !script in script := []; s in
  (* extra script: container operations, nested searches/loops, comparisons, sizeof, executed from inside the closure AFTER the
     scripted node operations of the same invocation index. The closure handed to the model's machines is then an OCaml
     wrapper around the model's mk_cb that runs these steps on the heap mk_cb returns (the theorems of C20 are stated for
     arbitrary closures, so the wrapper is one more instance). *)
  let xscript : (int * string array) list ref = ref [] in
  let take_xscript () = let s = List.rev !xscript in xscript := []; s in
  let underscore (s : string) = String.map (fun ch -> if ch = ' ' then '_' else ch) s in
  let rec wrap_cb xs xlog cb =
    if xs = [] then cb else
    (fun (c : n cbst) (hh : hp) (e : n edge) ->
      let k = int_of_nat c.c_count in
      let ((c1, h1), ok) = cb c hh e in
      h := h1;
      List.iter (fun (i, stx) -> if i = k then xlog := underscore (exec stx) :: !xlog) xs;
      ((c1, !h), ok))
  and xtail xs xlog = if xs = [] then "" else " | xlog" ^ String.concat "" (List.map (fun l -> " " ^ l) (List.rev !xlog))
  and exec (st : string array) : string =
    let st = if String.length st.(0) > 5 && String.sub st.(0) 0 5 = "only:" then Array.sub st 1 (Array.length st - 1) else st in
    let (st, order) = split_at_order st in
      match st.(0) with
      | "scx" -> xscript := (ios st.(1), Array.sub st 2 (Array.length st - 2)) :: !xscript; "ok"
      | "size" -> "ok"
      | "nvord" -> "ok"    (* self-checking probe of the harness: node value whose PartialOrd is not its Ord *)
      | "klossy" -> "ok"   (* self-checking probe of the harness: keys with a non-injective Display *)
      | "gnew" -> graphs := Array.append !graphs [| [] |]; "ok"
      | "gins" ->
          let gi = ios st.(1) in
          let (g', b) = g_insert keqb !h (getg gi) (nat_of_int (ios st.(2))) in
          setg gi g'; Printf.sprintf "ok %d" (b2i b)
      | "gget" ->
          (match g_get keqb (getg (ios st.(1))) (n_of_int (ios st.(2))) with
           | Some u -> "get " ^ key_str !h u | None -> "get -")
      | "gcon" ->
          let g = getg (ios st.(1)) in
          (match g_get keqb g (n_of_int (ios st.(2))), g_get keqb g (n_of_int (ios st.(3))) with
           | Some a, Some b -> apply (OConnect (a, b, n_of_int (ios st.(4))))
           | _, _ -> "panic")
      | "gidx" ->
          (match g_get keqb (getg (ios st.(1))) (n_of_int (ios st.(2))) with
           | Some u -> "idx " ^ key_str !h u | None -> "panic")
      | "ghas" -> Printf.sprintf "has %d" (b2i (g_contains keqb (getg (ios st.(1))) (n_of_int (ios st.(2)))))
      | "glen" -> let g = getg (ios st.(1)) in Printf.sprintf "len %d emp %d" (int_of_nat (g_len g)) (b2i (g_is_empty g))
      | "grem" ->
          let gi = ios st.(1) in
          let (g', r) = g_remove keqb (getg gi) (n_of_int (ios st.(2))) in
          setg gi g';
          (match r with
           | Some u ->
               let d = if directed then int_of_nat (out_degree !h u) + int_of_nat (in_degree !h u) else List.length (adj_u !h u) in
               Printf.sprintf "some %s deg %d" (key_str !h u) d
           | None -> "none")
      | "gnn" ->
          let gi = ios st.(1) in
          let u = size !h in
          ignore (apply (ONew (n_of_int (ios st.(2)), z_of_str st.(3))));
          let (g', b) = g_insert keqb !h (getg gi) u in
          setg gi g'; Printf.sprintf "ok %d" (b2i b)
      | "gsnap" -> "gsnap " ^ graph_snap directed !h (getg (ios st.(1)))
      | "gvec" | "giter" -> Printf.sprintf "%s res %s" (ord_chk (getg (ios st.(1))) order) (keys_of !h (g_iter keqb (getg (ios st.(1))) order))
      | "gorph" -> Printf.sprintf "%s res %s" (ord_chk (getg (ios st.(1))) order) (keys_of !h (g_orphans keqb !h (getg (ios st.(1))) order))
      | "groots" -> Printf.sprintf "%s res %s" (ord_chk (getg (ios st.(1))) order) (keys_of !h (g_roots keqb !h (getg (ios st.(1))) order))
      | "gleaves" -> Printf.sprintf "%s res %s" (ord_chk (getg (ios st.(1))) order) (keys_of !h (g_leaves keqb !h (getg (ios st.(1))) order))
      | "gscc" ->
          (match scc keqb big_fuel !h (getg (ios st.(1))) order with
           | Some comps ->
               Printf.sprintf "%s comps%s" (ord_chk (getg (ios st.(1))) order)
                 (String.concat "" (List.map (fun c -> " [" ^ keys_of !h c ^ "]") comps))
           | None -> "fuel")
      | "gdot" ->
          Printf.sprintf "%s dot %s" (ord_chk (getg (ios st.(1))) order)
            (dot_tokens !h (g_to_dot keqb directed !h (getg (ios st.(1))) order) 0 0 0)
      | "gdota" ->
          let ga = ios st.(2) and na = ios st.(3) and ea = ios st.(4) in
          let nattr u = (na = 1) || (na = 2 && (match keyof !h u with Some k -> int_of_n k mod 2 = 0 | None -> false)) in
          let kn u = (match keyof !h u with Some k -> int_of_n k | None -> 0) in
          let eattr u v e = (ea = 1) || (ea = 2 && int_of_n e mod 2 = 0) || (ea = 3) || (ea = 6) || (ea = 4 && kn u < kn v) in
          Printf.sprintf "%s dot %s" (ord_chk (getg (ios st.(1))) order)
            (dot_tokens !h (g_to_dot_attr keqb directed !h (getg (ios st.(1))) order
                              (nat_of_int (if ga = 1 then 2 else 0)) nattr eattr) ga na ea)
      | "gser" ->
          let (ns, es) = decompose keqb !h (getg (ios st.(1))) order in
          (* "dm": the serde data-model calls of Serialize (harness/src/shape.rs): a 2-tuple of two sequences with
             length hints, of 2-tuples (key, value) and 3-tuples (source, target, edge value) of scalars *)
          Printf.sprintf "%s doc [%s] [%s] dm T2(S%d(%s)S%d(%s))" (ord_chk (getg (ios st.(1))) order)
            (String.concat "" (List.map (fun (k, v) -> Printf.sprintf "[%s %s]" (nstr k) (zstr v)) ns))
            (String.concat "" (List.map (fun ((a, b), e) -> Printf.sprintf "[%s %s %s]" (nstr a) (nstr b) (nstr e)) es))
            (List.length ns) (String.concat "" (List.map (fun _ -> "T2(__)") ns))
            (List.length es) (String.concat "" (List.map (fun _ -> "T3(___)") es))
      | "grt" ->
          let (ns, es) = decompose keqb !h (getg (ios st.(1))) order in
          (match rebuild keqb ns es with
           | DeOk (h2, g2) -> Printf.sprintf "%s de ok %s" (ord_chk (getg (ios st.(1))) order) (graph_snap directed h2 g2)
           | DeMissing _ -> Printf.sprintf "%s de err" (ord_chk (getg (ios st.(1))) order))
      | "gdebytes" -> "exercise-only"
      | "xenc" ->
          (* integer encoding of the whole heap; compared with the same encoding computed by vm_compute inside Coq
             (thorough tier: validates extraction itself) *)
          let b = Buffer.create 256 in
          List.iter (fun u ->
            Buffer.add_string b (Printf.sprintf " 100 %d" (List.length ((!h).outs u)));
            List.iter (fun (v, e) -> Buffer.add_string b (Printf.sprintf " %d %d" (int_of_nat v) (int_of_n e))) ((!h).outs u);
            Buffer.add_string b (Printf.sprintf " %d" (List.length ((!h).ins u)));
            List.iter (fun (v, e) -> Buffer.add_string b (Printf.sprintf " %d %d" (int_of_nat v) (int_of_n e))) ((!h).ins u)) (ids !h);
          "xenc" ^ Buffer.contents b
      | "ecmp" ->
          (* ecmp u i v j : compare the i-th iterated edge of u with the j-th iterated edge of v *)
          let u = nat_of_int (ios st.(1)) and v = nat_of_int (ios st.(3)) in
          let l x = if directed then (!h).outs x else adj_u !h x in
          (match List.nth_opt (l u) (ios st.(2)), List.nth_opt (l v) (ios st.(4)) with
           | Some (t1, e1), Some (t2, e2) ->
               let a = ((u, t1), e1) and b = ((v, t2), e2) in
               let eq = if directed then edge_eqb_d keqb !h a b else edge_eqb_u N.compare a b in
               let c = edge_cmp N.compare a b in
               Printf.sprintf "ecmp eq=%d cmp=%s pcmp=Some(%s) rev=%s rr=%s" (b2i eq) (cmp_name c) (cmp_name c)
                 (let ((rs, rt), re) = edge_reverse a in fmt_edge !h rs rt re)
                 (let ((rs, rt), re) = edge_reverse (edge_reverse a) in fmt_edge !h rs rt re)
           | _, _ -> "none")
      | "thr" -> "ok"
      | "sched" ->
          let cfg = init_config keqb directed !h (thread_progs c) in
          let sched = List.map (fun x -> nat_of_int (ios x)) (List.tl (Array.to_list st)) in
          let (c1, evs) = run_sched keqb directed conc_fuel cfg sched [] in
          h := c1.c_heap;
          conc_obs directed c1 evs
      | "mac" ->
          (* mac <form> <nitems> { key val nedges { target evalue }* }* *)
          let pos = ref 3 in
          let next () = let v = ios st.(!pos) in incr pos; v in
          let nitems = ios st.(2) in
          let items = List.init nitems (fun _ ->
            let k = next () in let v = next () in let ne = next () in
            let edges = List.init ne (fun _ -> let t = next () in let e = next () in (n_of_int t, n_of_int e)) in
            ((n_of_int k, z_of_int v), edges)) in
          (match macro_build keqb items with
           | MOk (h2, g2) -> "ok " ^ graph_snap directed h2 g2
           | MPanic k -> Printf.sprintf "panic %d" (int_of_n k))
      | "hm" when st.(1) = "3" ->
          (* FL![(String) (a) => [String::from("b"), String::from("a")] (b) => []] with by-value String variables a, b *)
          let items = [((n_of_int 1, z_of_int 0), [(n_of_int 2, n_of_int 0); (n_of_int 1, n_of_int 0)]); ((n_of_int 2, z_of_int 0), [])] in
          (match macro_build keqb items with
           | MOk (h2, _) ->
               let deg u = int_of_nat (if directed then out_degree h2 u else degree_u h2 u) in
               Printf.sprintf "ok a:%d b:%d" (deg O) (deg (S O))
           | MPanic k -> Printf.sprintf "panic %d" (int_of_n k))
      | "hm" ->
          let ops = if st.(1) = "1" then
              [ONew (n_of_int 5, z_of_int 0); ONew (n_of_int 6, z_of_int 0);
               OConnect (nat_of_int 0, nat_of_int 1, n_of_int 0); OConnect (nat_of_int 1, nat_of_int 1, n_of_int 0)]
            else
              [ONew (n_of_int 5, z_of_int (-2)); ONew (n_of_int 7, z_of_int 9);
               OConnect (nat_of_int 0, nat_of_int 1, n_of_int 8); OConnect (nat_of_int 0, nat_of_int 0, n_of_int 3);
               OConnect (nat_of_int 1, nat_of_int 0, n_of_int 8)] in
          let (h2, _) = run_from step empty_heap ops in
          "ok " ^ graph_snap directed h2 [((match keyof h2 O with Some k -> k | None -> N0), O);
                                          ((match keyof h2 (S O) with Some k -> k | None -> N0), S O)]
      | "gde" ->
          let toks = Array.to_list (Array.sub st 2 (Array.length st - 2)) in
          (match deserialize keqb dec_u64 dec_i64 dec_u64 (parse_value toks) with
           | DOk (h2, g2) -> "de ok " ^ graph_snap directed h2 g2
           | DErr -> "de err")
      | "new" -> apply (ONew (n_of_int (ios st.(1)), z_of_str st.(2)))
      | "con" -> apply (OConnect (nat_of_int (ios st.(1)), nat_of_int (ios st.(2)), n_of_int (ios st.(3))))
      | "try" -> apply (OTryConnect (nat_of_int (ios st.(1)), nat_of_int (ios st.(2)), n_of_int (ios st.(3))))
      | "dis" -> apply (ODisconnect (nat_of_int (ios st.(1)), n_of_int (ios st.(2))))
      | "iso" -> apply (OIsolate (nat_of_int (ios st.(1))))
      | "qry" ->
          let u = nat_of_int (ios st.(1)) and k = n_of_int (ios st.(2)) in
          if directed then
            Printf.sprintf "q conn=%d fo=%s fi=%s" (b2i (is_connected_d keqb !h u k))
              (okey !h (find_outbound keqb !h u k)) (okey !h (find_inbound keqb !h u k))
          else
            Printf.sprintf "q conn=%d fa=%s" (b2i (is_connected_u keqb !h u k))
              (okey !h (find_adjacent keqb !h u k))
      | "snap" -> if directed then snap_d !h else snap_u !h
      | "scr" ->
          (match parse_op st 2 with
           | Some o -> script := (nat_of_int (ios st.(1)), [o]) :: !script; "ok"
           | None -> "bad-script-op")
      | "cmp" ->
          let a = nat_of_int (ios st.(1)) and b = nat_of_int (ios st.(2)) in
          (match node_cmp Z.compare !h a b with
           | Some c ->
               let va = (match valof !h a with Some v -> v | None -> z_of_int 0) and vb = (match valof !h b with Some v -> v | None -> z_of_int 0) in
               (* the derived operators and Ord::max / Ord::min are std's defaults over cmp: max returns the second operand unless
                  the first is greater, min the first unless the second is less *)
               Printf.sprintf "cmp eq=%d lt=%d le=%d cmp=%s pcmp=Some(%s) ne=%d gt=%d ge=%d max=%s min=%s" (b2i (node_eqb keqb !h a b))
                 (b2i (c = Lt)) (b2i (c <> Gt)) (cmp_name c) (cmp_name c)
                 (b2i (not (node_eqb keqb !h a b))) (b2i (c = Gt)) (b2i (c <> Lt))
                 (zstr (if c = Gt then va else vb)) (zstr (if c = Gt then vb else va))
           | None -> "invalid")
      | "loop" ->
          let d = (match st.(1) with "out" -> DOut | "in" -> DIn | "adj" -> DAdj | _ -> if directed then DOut else DAdj) in
          let sc = take_script () in
          let xs = take_xscript () in
          let xlog = ref [] in
          let cb = wrap_cb xs xlog (mk_cb step false (fun _ _ _ -> true) sc) in
          let ((c, h1), ok) = edge_loop cb big_fuel d cb0 !h (nat_of_int (ios st.(2))) O in
          h := h1;
          if ok then "r loop" ^ tail !h c true (sc <> []) ^ xtail xs xlog else "fuel"
      | "srch" when Array.exists (fun t -> t = "then") st ->
          (* the same search run, the graph changed (or the search re-targeted), and run again *)
          let i = (let rec find k = if st.(k) = "then" then k else find (k + 1) in find 0) in
          let st1 = Array.sub st 0 i and op = Array.sub st (i + 1) (Array.length st - i - 1) in
          let r1 = exec st1 in
          let st2 = if op.(0) = "retarget" then (let c = Array.copy st1 in c.(5) <- op.(1); c) else (ignore (exec op); st1) in
          let r2 = exec st2 in
          r1 ^ " THEN " ^ r2
      | "srch" ->
          let algo = st.(1) and what = st.(2) and root = nat_of_int (ios st.(3)) in
          let tr = (st.(4) = "1") in
          let target = if st.(5) = "-" then None else Some (n_of_int (ios st.(5))) in
          let d = if not directed then DAdj else if tr then DIn else DOut in
          let (is_filter, show, pred) = parse_method st 6 in
          let sc = take_script () in
          let xs = take_xscript () in
          let xlog = ref [] in
          let cb = wrap_cb xs xlog (mk_cb step is_filter pred sc) in
          let fin (stt : (n, z, n, n cbst) sst) (res : string) =
            h := stt.s_heap; res ^ tail !h stt.s_cb show (sc <> []) ^ xtail xs xlog in
          let sres (stt, r) =
            (match r with
             | RNone -> fin stt "r none"
             | RNode v -> fin stt ("r node " ^ key_str stt.s_heap v)
             | RPath p -> fin stt (fmt_path stt.s_heap p)
             | RPanic -> h := stt.s_heap; "panic"
             | RFuel -> h := stt.s_heap; "fuel") in
          (match algo with
           | "bfs" | "dfs" | "pmin" | "pmax" ->
               let k = (match algo with "bfs" -> KBfs | "dfs" -> KDfs | "pmin" -> KPfsMin | _ -> KPfsMax) in
               (match what with
                | "find" -> sres (search_find' keqb cb Z.leb k d big_fuel !h cb0 root target)
                | "path" -> sres (search_path keqb cb Z.leb k d big_fuel !h cb0 root target false)
                | "cycle" -> sres (search_path keqb cb Z.leb k d big_fuel !h cb0 root target true)
                | _ -> "bad-what")
           | "pre" | "post" ->
               let post = (algo = "post") in
               (match what with
                | "nodes" ->
                    (match order_nodes keqb cb d post big_fuel !h cb0 root with
                     | (stt, Some l) ->
                         fin stt ("r nodes" ^ String.concat "" (List.map (fun u -> " " ^ key_str stt.s_heap u) l))
                     | (stt, None) -> h := stt.s_heap; "fuel")
                | "edges" ->
                    (match order_edges keqb cb d post big_fuel !h cb0 root with
                     | (stt, Some l) ->
                         fin stt ("r edges " ^ String.concat "" (List.map (fun ((s, t), e) -> fmt_edge stt.s_heap s t e) l))
                     | (stt, None) -> h := stt.s_heap; "fuel")
                | _ -> "bad-what")
           | _ -> "bad-algo")
      | other -> "unknown-step " ^ other in
  List.iteri (fun si st -> let obs = exec st in Printf.fprintf oc "%d %s\n" si obs) c.steps



(* ---------- own channel (C19) ---------- *)
type okind = KNode of nat | KEdge of (n edge) | KPath of (n edge) list | KNodes of nat list | KGraph of gr

let run_own_case (oc : out_channel) (c : case) : unit =
  Printf.fprintf oc "case %s\n" c.name;
  let directed = (c.cls = 'D') in
  let step = if directed then step_d keqb else step_u keqb in
  let st : (n, z, n) ostate ref = ref o_init in
  let kinds : (int, okind) Hashtbl.t = Hashtbl.create 16 in
  let val_of u = match valof (!st).o_heap u with Some v -> int_of_z v | None -> 0 in
  let rel_str (l : nat list) : string =
    " | rel" ^ String.concat "" (List.map (fun v -> " " ^ string_of_int v) (List.sort compare (List.map val_of l))) in
  let node_in s = match Hashtbl.find_opt kinds s with Some (KNode u) -> u | _ -> failwith "slot does not hold a node" in
  (* every ledger step goes through the model's API layer (Own.astep / aop): what an object owns is decided THERE *)
  let apply (a : (n, n) aop) = let (st', rel) = astep !st a in st := st'; rel in
  let put s kind =
    let sn = nat_of_int s in
    let a = match kind with
      | KNode u -> ANode (sn, u) | KEdge e -> AEdge (sn, e) | KPath p -> APath (sn, p)
      | KNodes l -> ANodes (sn, l) | KGraph g -> AGraph (sn, g) in
    let rel = apply a in Hashtbl.replace kinds s kind; rel in
  let released u = is_released !st u in
  let kv u = Printf.sprintf "%s:%d" (key_str (!st).o_heap u) (val_of u) in
  let deg u = int_of_nat (out_degree (!st).o_heap u) + int_of_nat (in_degree (!st).o_heap u) in
  let adjl u = if directed then (!st).o_heap.outs u else adj_u (!st).o_heap u in
  let d = if directed then DOut else DAdj in
  let recorder = mk_cb step false (fun _ _ _ -> true) [] in
  let trace_dangling (c : n cbst) = List.exists (fun ((_, t), _) -> released t) c.c_trace in
  let set_heap_ h = st := { !st with o_heap = h } in
  List.iteri (fun si stp ->
    let body, rel =
      try
      match stp.(0) with
      | "onew" ->
          let s = ios stp.(1) in
          let u = size (!st).o_heap in
          let (st', rel) = o_new !st (nat_of_int s) (n_of_int (ios stp.(2))) (z_of_int (ios stp.(3))) in
          st := st'; Hashtbl.replace kinds s (KNode u); ("ok", rel)
      | "oclone" -> let u = node_in (ios stp.(2)) in ("ok", put (ios stp.(1)) (KNode u))
      | "ocon" ->
          let (h1, _) = step (!st).o_heap (OConnect (node_in (ios stp.(1)), node_in (ios stp.(2)), n_of_int (ios stp.(3)))) in
          set_heap_ h1; ("ok", [])
      | "oqry" ->
          let a = node_in (ios stp.(1)) and b = node_in (ios stp.(2)) in
          let hh = (!st).o_heap in
          let conn x y = (match keyof hh y with
                          | Some k -> if directed then is_connected_d keqb hh x k else is_connected_u keqb hh x k
                          | None -> false) in
          (Printf.sprintf "q %d %d" (b2i (conn a b)) (b2i (conn b a)), [])
      | "otry" ->
          let (h1, r) = step (!st).o_heap (OTryConnect (node_in (ios stp.(1)), node_in (ios stp.(2)), n_of_int (ios stp.(3)))) in
          set_heap_ h1; (outcome_str r, [])
      | "odis" ->
          let (h1, r) = step (!st).o_heap (ODisconnect (node_in (ios stp.(1)), n_of_int (ios stp.(2)))) in
          set_heap_ h1; (outcome_str r, [])
      | "oexer" -> ("ok", [])   (* traversals whose results are dropped at once: ownership unchanged *)
      | "oiso" ->
          let (h1, r) = step (!st).o_heap (OIsolate (node_in (ios stp.(1)))) in
          set_heap_ h1; (outcome_str r, [])
      | "odrop" ->
          let s = ios stp.(1) in
          let rel = apply (ADrop (nat_of_int s)) in
          Hashtbl.remove kinds s; ("ok", rel)
      | "oedge" ->
          let u = node_in (ios stp.(2)) and pos = ios stp.(3) in
          let l = adjl u in
          let rec firstn k = function [] -> [] | x :: r -> if k <= 0 then [] else x :: firstn (k - 1) r in
          let seen = firstn (pos + 1) l in
          if List.exists (fun (v, _) -> released v) seen then ("panic", [])
          else (match List.nth_opt l pos with
                | Some (v, e) ->
                    let rel = put (ios stp.(1)) (KEdge ((u, v), e)) in
                    ("edge " ^ fmt_edge (!st).o_heap u v e, rel)
                | None -> ("none", []))
      | "opath" | "ofind" ->
          let u = node_in (ios stp.(2)) and k = n_of_int (ios stp.(3)) in
          let kind = (match stp.(4) with "bfs" -> KBfs | "dfs" -> KDfs | _ -> KPfsMin) in
          let (stt, r) = search_path keqb recorder Z.leb kind d big_fuel (!st).o_heap cb0 u (Some k) false in
          if trace_dangling stt.s_cb then ("panic", [])
          else (match r with
                | RPath p ->
                    if stp.(0) = "opath" then
                      let rel = put (ios stp.(1)) (KPath p) in
                      ("path " ^ String.concat "" (List.map (fun ((a, b), e) -> fmt_edge (!st).o_heap a b e) p), rel)
                    else
                      let v = (match List.rev p with ((_, b), _) :: _ -> b | [] -> u) in
                      let rel = put (ios stp.(1)) (KNode v) in
                      ("node " ^ key_str (!st).o_heap v, rel)
                | RNone -> ("none", [])
                | _ -> ("panic", []))
      | "onodes" ->
          let u = node_in (ios stp.(2)) in
          let post = (stp.(3) = "post") in
          (match order_nodes keqb recorder d post big_fuel (!st).o_heap cb0 u with
           | (stt, Some l) ->
               if trace_dangling stt.s_cb then ("panic", [])
               else let rel = put (ios stp.(1)) (KNodes l) in
                    ("nodes " ^ keys_of (!st).o_heap l, rel)
           | (_, None) -> ("fuel", []))
      | "ogra" -> ("ok", put (ios stp.(1)) (KGraph []))
      | "ogins" ->
          let gs = ios stp.(1) in
          let u = node_in (ios stp.(2)) in
          (match Hashtbl.find_opt kinds gs with
           | Some (KGraph g) ->
               let (g', b) = g_insert keqb (!st).o_heap g u in
               let rel = if b then put gs (KGraph g') else [] in
               (Printf.sprintf "ok %d" (b2i b), rel)
           | _ -> failwith "not a graph")
      | "ogget" ->
          (match Hashtbl.find_opt kinds (ios stp.(2)) with
           | Some (KGraph g) ->
               (match g_get keqb g (n_of_int (ios stp.(3))) with
                | Some u -> let rel = put (ios stp.(1)) (KNode u) in ("node " ^ key_str (!st).o_heap u, rel)
                | None -> ("none", []))
           | _ -> failwith "not a graph")
      | "ogrem" ->
          let gs = ios stp.(2) in
          (match Hashtbl.find_opt kinds gs with
           | Some (KGraph g) ->
               let (g', r) = g_remove keqb g (n_of_int (ios stp.(3))) in
               (match r with
                | Some u ->
                    (* the node moves from the container into the slot: first the slot owns it, then the container lets go *)
                    let rel = put (ios stp.(1)) (KNode u) in
                    let rel2 = put gs (KGraph g') in
                    ("node " ^ key_str (!st).o_heap u, rel @ rel2)
                | None -> ("none", []))
           | _ -> failwith "not a graph")
      | "ouse" ->
          ((match Hashtbl.find_opt kinds (ios stp.(1)) with
            | Some (KNode u) -> Printf.sprintf "node %s deg %d" (kv u) (deg u)
            | Some (KEdge ((a, b), e)) -> Printf.sprintf "edge %s %s %d deg %d %d" (kv a) (kv b) (int_of_n e) (deg a) (deg b)
            | Some (KPath p) -> "path" ^ String.concat "" (List.map (fun u -> " " ^ kv u) (path_nodes p))
            | Some (KNodes l) -> "nodes " ^ String.concat " " (List.map kv l)
            | Some (KGraph g) ->
                let ms = List.sort compare (List.map (fun (k, u) -> (int_of_n k, val_of u)) g) in
                Printf.sprintf "graph %d%s" (List.length g) (String.concat "" (List.map (fun (k, v) -> Printf.sprintf " %d:%d" k v) ms))
            | None -> "empty"), [])
      | other -> ("unknown-step " ^ other, [])
      with Failure _ -> ("panic", []) in
    Printf.fprintf oc "%d %s%s\n" si body (rel_str rel)) c.steps

let () =
  if Array.length Sys.argv >= 5 && Sys.argv.(1) = "explore" then begin
    (* driver explore <D|U> <casefile> <outfile> [limit] *)
    let cls = Sys.argv.(2).[0] in
    let ic = open_in Sys.argv.(3) in
    let cases = parse_cases ic in
    close_in ic;
    let oc = open_out Sys.argv.(4) in
    let limit = if Array.length Sys.argv > 5 then int_of_string Sys.argv.(5) else 0 in
    explore_cases cls cases oc limit;
    close_out oc;
    exit 0
  end;
  if Array.length Sys.argv < 4 then (prerr_endline "usage: driver <D|U> <casefile> <outfile>"; exit 2);
  let cls = Sys.argv.(1).[0] in
  let ic = open_in Sys.argv.(2) in
  let cases = parse_cases ic in
  close_in ic;
  let oc = open_out Sys.argv.(3) in
  List.iteri (fun ci c -> if c.cls = cls then begin (if String.length c.name >= 3 && String.sub c.name 0 3 = "own" then run_own_case oc c else run_case oc c); Printf.fprintf oc "end %d\n" ci end) cases;
  close_out oc
