(* driver.ml — runs case files on the extracted Coq model (model.ml) and prints
   the same observation lines as the Rust harness.  Keys and edge values are
   Coq N, node values Coq Z, ids/positions/fuel Coq nat. *)
open Model

(* ---------- conversions ---------- *)
let rec nat_of_int (i : int) : nat = if i <= 0 then O else S (nat_of_int (i - 1))
let rec int_of_nat (n : nat) : int = match n with O -> 0 | S m -> 1 + int_of_nat m

let rec pos_of_int (i : int) : positive =
  if i <= 1 then XH else if i land 1 = 0 then XO (pos_of_int (i lsr 1)) else XI (pos_of_int (i lsr 1))
let rec int_of_pos (p : positive) : int =
  match p with XH -> 1 | XO q -> 2 * int_of_pos q | XI q -> 2 * int_of_pos q + 1

let n_of_int (i : int) : n = if i = 0 then N0 else Npos (pos_of_int i)
let int_of_n (x : n) : int = match x with N0 -> 0 | Npos p -> int_of_pos p
let z_of_int (i : int) : z = if i = 0 then Z0 else if i > 0 then Zpos (pos_of_int i) else Zneg (pos_of_int (-i))
let int_of_z (x : z) : int = match x with Z0 -> 0 | Zpos p -> int_of_pos p | Zneg p -> - (int_of_pos p)

let keqb (a : n) (b : n) : bool = N.eqb a b

type hp = (n, z, n) heap

let b2i b = if b then 1 else 0

let key_str (h : hp) (u : nat) : string =
  match keyof h u with Some k -> string_of_int (int_of_n k) | None -> "?"

let fmt_edge (h : hp) (s : nat) (t : nat) (e : n) : string =
  Printf.sprintf "(%s>%s:%d)" (key_str h s) (key_str h t) (int_of_n e)

let ids (h : hp) : nat list =
  let rec go i n = if i >= n then [] else nat_of_int i :: go (i + 1) n in
  go 0 (int_of_nat (size h))

let snap_d (h : hp) : string =
  let b = Buffer.create 256 in
  Buffer.add_string b "snap";
  List.iter (fun u ->
    let k = key_str h u in
    let v = match valof h u with Some v -> int_of_z v | None -> 0 in
    Buffer.add_string b (Printf.sprintf " [%s %d out" k v);
    List.iter (fun (t, e) -> Buffer.add_string b (fmt_edge h u t e)) (h.outs u);
    Buffer.add_string b " in";
    List.iter (fun (s, e) -> Buffer.add_string b (fmt_edge h s u e)) (h.ins u);
    Buffer.add_string b (Printf.sprintf " od=%d id=%d r=%d l=%d o=%d]"
      (int_of_nat (out_degree h u)) (int_of_nat (in_degree h u))
      (b2i (is_root h u)) (b2i (is_leaf h u)) (b2i (is_orphan h u)))) (ids h);
  Buffer.contents b

let snap_u (h : hp) : string =
  let b = Buffer.create 256 in
  Buffer.add_string b "snap";
  List.iter (fun u ->
    let k = key_str h u in
    let v = match valof h u with Some v -> int_of_z v | None -> 0 in
    Buffer.add_string b (Printf.sprintf " [%s %d adj" k v);
    List.iter (fun (t, e) -> Buffer.add_string b (fmt_edge h u t e)) (adj_u h u);
    Buffer.add_string b (Printf.sprintf " dg=%d o=%d]"
      (int_of_nat (degree_u h u)) (b2i (is_orphan h u)))) (ids h);
  Buffer.contents b

let outcome_str (o : n outcome) : string =
  match o with
  | OkU -> "ok"
  | OkE e -> Printf.sprintf "ok %d" (int_of_n e)
  | ErrNotFound -> "err notfound"
  | ErrExists -> "err exists"
  | Panic -> "panic"
  | Invalid -> "invalid"

let okey (h : hp) (o : (nat * n) option) : string =
  match o with Some (v, _) -> key_str h v | None -> "-"

(* ---------- case files ---------- *)
type case = { name : string; cls : char; steps : string array list }

let split_ws (s : string) : string list =
  List.filter (fun t -> t <> "") (String.split_on_char ' ' (String.trim s))

let parse_cases (ic : in_channel) : case list =
  let cases = ref [] and cur = ref None in
  let flush () = match !cur with
    | Some c -> cases := { c with steps = List.rev c.steps } :: !cases; cur := None
    | None -> () in
  (try
    while true do
      let line = input_line ic in
      let toks = split_ws line in
      match toks with
      | [] -> ()
      | t :: _ when String.length t > 0 && t.[0] = '#' -> ()
      | "case" :: nm :: cl :: _ -> flush (); cur := Some { name = nm; cls = cl.[0]; steps = [] }
      | _ -> (match !cur with
              | Some c -> cur := Some { c with steps = Array.of_list toks :: c.steps }
              | None -> ())
    done
  with End_of_file -> ());
  flush ();
  List.rev !cases

let ios = int_of_string

let run_case (oc : out_channel) (c : case) : unit =
  Printf.fprintf oc "case %s\n" c.name;
  let directed = (c.cls = 'D') in
  let step = if directed then step_d keqb else step_u keqb in
  let h : hp ref = ref empty_heap in
  let apply (o : (n, z, n) op) : string =
    let (h1, r) = step !h o in h := h1; outcome_str r in
  List.iteri (fun si st ->
    let obs =
      match st.(0) with
      | "new" -> apply (ONew (n_of_int (ios st.(1)), z_of_int (ios st.(2))))
      | "con" -> apply (OConnect (nat_of_int (ios st.(1)), nat_of_int (ios st.(2)), n_of_int (ios st.(3))))
      | "try" -> apply (OTryConnect (nat_of_int (ios st.(1)), nat_of_int (ios st.(2)), n_of_int (ios st.(3))))
      | "dis" -> apply (ODisconnect (nat_of_int (ios st.(1)), n_of_int (ios st.(2))))
      | "iso" -> apply (OIsolate (nat_of_int (ios st.(1))))
      | "qry" ->
          let u = nat_of_int (ios st.(1)) and k = n_of_int (ios st.(2)) in
          if directed then
            Printf.sprintf "q conn=%d fo=%s fi=%s" (b2i (is_connected_d keqb !h u k))
              (okey !h (find_outbound keqb !h u k)) (okey !h (find_inbound keqb !h u k))
          else
            Printf.sprintf "q conn=%d fa=%s" (b2i (is_connected_u keqb !h u k))
              (okey !h (find_adjacent keqb !h u k))
      | "snap" -> if directed then snap_d !h else snap_u !h
      | other -> "unknown-step " ^ other in
    Printf.fprintf oc "%d %s\n" si obs) c.steps

let () =
  if Array.length Sys.argv < 4 then (prerr_endline "usage: driver <D|U> <casefile> <outfile>"; exit 2);
  let cls = Sys.argv.(1).[0] in
  let ic = open_in Sys.argv.(2) in
  let cases = parse_cases ic in
  close_in ic;
  let oc = open_out Sys.argv.(3) in
  List.iteri (fun ci c -> if c.cls = cls then begin run_case oc c; Printf.fprintf oc "end %d\n" ci end) cases;
  close_out oc
