#!/usr/bin/env python3-vt
import json, sys, glob, jsonschema
jsonschema.validate(json.load(open('/verif/MANIFEST.json')), json.load(open('/root/.vp/MANIFEST.schema.json')))
print('manifest ok')
sch = json.load(open('/root/.vp/EVIDENCE.schema.json'))
for p in sorted(glob.glob('/verif/evidence/*.json')):
    jsonschema.validate(json.load(open(p)), sch); print(p, 'ok')
