#!/usr/bin/env python3
# seed_regress.py <out.jsonl> [slots] — regression of the CURRENT machinery against every stored seeded change
# (/verif/seeded/<id>/patch.diff): for each seed, a scratch worktree of /repo at HEAD gets the patch (git apply, falling back
# to --3way for seeds made before later `fix:` commits), and the checks that reported it when it was filed are run against the
# worktree (GDSL_REPO override, private cache and Coq copy).  Records reported / MISSED / not-applicable-any-more.
# Nothing is changed in /repo or in seeded/; worktrees live under /tmp/sreg_slot<N> and are removed at the end.
import json, os, subprocess, sys, time
from multiprocessing import Pool

VERIF = os.path.dirname(os.path.dirname(os.path.abspath(__file__)))


def sh(cmd, cwd=None, timeout=3600, env=None):
    e = dict(os.environ, CARGO_NET_OFFLINE="true")
    if env:
        e.update(env)
    try:
        p = subprocess.run(cmd, shell=True, cwd=cwd, stdout=subprocess.PIPE, stderr=subprocess.STDOUT, text=True, timeout=timeout, env=e)
        return p.returncode, p.stdout
    except subprocess.TimeoutExpired:
        return 124, "timeout"


def work(args):
    slot, names = args
    wt = "/tmp/sreg_slot%d" % slot
    cache = os.path.join(VERIF, ".cache_seedreg%d" % slot)
    res = []
    sh("git -C /repo worktree remove --force %s" % wt)
    sh("git -C /repo worktree add -q --detach %s HEAD" % wt)
    sh("mkdir -p %s/coq && rsync -a --delete --exclude gen/ %s/coq/ %s/coq/" % (cache, VERIF, cache))
    for name in names:
        d = os.path.join(VERIF, "seeded", name)
        meta = json.load(open(os.path.join(d, "meta.json")))
        sh("git checkout -q -- . && git clean -fdq", cwd=wt)
        r = dict(name=name, property=meta.get("property"))
        rc, out = sh("git apply %s" % os.path.join(d, "patch.diff"), cwd=wt)
        if rc != 0:
            rc, out = sh("git apply --3way %s" % os.path.join(d, "patch.diff"), cwd=wt)
            if rc != 0 or "conflicts" in out:
                r["status"] = "patch-does-not-apply-any-more"
                res.append(r)
                continue
            r["applied"] = "3way"
        rc, out = sh("cargo check --offline --lib 2>&1 | tail -3", cwd=wt, timeout=600)
        if "error" in out:
            r["status"] = "does-not-compile-any-more"
            res.append(r)
            continue
        was = [c for c, v in (meta.get("checks_run") or {}).items() if isinstance(v, dict) and v.get("exit") == 1] or [meta.get("property")]
        det = {}
        t0 = time.time()
        for c in was:
            env = dict(GDSL_REPO=wt, VERIF_CACHE=cache, VERIF_COQ=os.path.join(cache, "coq"))
            rc, out = sh("timeout 1500 ./check %s 2>&1 | grep -E '^VIOLATION' | head -2" % c, cwd=VERIF, timeout=1600, env=env)
            det[c] = "VIOLATION" in out
            if det[c]:
                break
        r["checks"] = det
        r["status"] = "reported" if any(det.values()) else "MISSED"
        r["wall_s"] = round(time.time() - t0, 1)
        res.append(r)
        with open("/tmp/sreg_progress_%d.jsonl" % slot, "a") as f:
            f.write(json.dumps(r) + "\n")
    sh("git -C /repo worktree remove --force %s" % wt)
    sh("rm -rf %s" % cache)
    return res


def main():
    out = sys.argv[1]
    slots = int(sys.argv[2]) if len(sys.argv) > 2 else 4
    names = sorted(os.listdir(os.path.join(VERIF, "seeded")))
    names = [n for n in names if os.path.exists(os.path.join(VERIF, "seeded", n, "patch.diff"))]
    if len(sys.argv) > 3:       # optional name prefix filter
        names = [n for n in names if n.startswith(sys.argv[3])]
    parts = [(i, names[i::slots]) for i in range(slots)]
    with Pool(slots) as pool:
        allres = [r for part in pool.map(work, parts) for r in part]
    with open(out, "w") as f:
        for r in sorted(allres, key=lambda r: r["name"]):
            f.write(json.dumps(r) + "\n")
    from collections import Counter
    print(Counter(r["status"] for r in allres))
    for r in allres:
        if r["status"] != "reported":
            print(r)


if __name__ == "__main__":
    main()
