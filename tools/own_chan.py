# own_chan.py — generators and oracle for the `own` channel (C19)
import itertools, random, re
from vlib import Case

NODE_SLOTS = list(range(0, 12))
EDGE_SLOTS = [12, 13]
PATH_SLOT, VEC_SLOT, GRAPH_SLOT = 14, 15, 16
CLONE_SLOT = 11
ALL_SLOTS = list(range(0, 17))

SHAPES = {
    "single": (1, []),
    "selfloop": (1, [(0, 0)]),
    "edge": (2, [(0, 1)]),
    "two-cycle": (2, [(0, 1), (1, 0)]),
    "parallel+loop": (2, [(0, 1), (0, 1), (1, 1)]),
    "chain": (3, [(0, 1), (1, 2)]),
    "triangle": (3, [(0, 1), (1, 2), (2, 0)]),
    "star+back": (3, [(0, 1), (0, 2), (2, 0), (1, 1)]),
}
EXTRAS = ["clone", "edge", "path", "vec", "graph"]


def gen_enumerated(cls, rng, tier):
    cases = []
    idx = 0
    for shape, (n, edges) in SHAPES.items():
        for r in range(len(EXTRAS) + 1):
            for extras in itertools.combinations(EXTRAS, r):
                pre = ["onew %d %d %d" % (i, 20 + i, 100 + i) for i in range(n)]
                pre += ["ocon %d %d %d" % (u, v, 50 + j) for j, (u, v) in enumerate(edges)]
                live = list(range(n))
                if "clone" in extras:
                    pre.append("oclone %d 0" % CLONE_SLOT)
                    live.append(CLONE_SLOT)
                if "edge" in extras:
                    pre.append("oedge %d 0 0" % EDGE_SLOTS[0])
                    live.append(EDGE_SLOTS[0])
                if "path" in extras:
                    pre.append("opath %d 0 %d bfs" % (PATH_SLOT, 20 + n - 1))
                    live.append(PATH_SLOT)
                if "vec" in extras:
                    pre.append("onodes %d 0 post" % VEC_SLOT)
                    live.append(VEC_SLOT)
                if "graph" in extras:
                    pre.append("ogra %d" % GRAPH_SLOT)
                    pre += ["ogins %d %d" % (GRAPH_SLOT, i) for i in range(n)]
                    live.append(GRAPH_SLOT)
                if len(live) <= 4:
                    orders = list(itertools.permutations(live))
                else:
                    orders = [tuple(live), tuple(reversed(live))] + [tuple(rng.sample(live, len(live))) for _ in range(6 if tier == "thorough" else 2)]
                for order in orders:
                    steps = list(pre)
                    remaining = list(order)
                    for s in order:
                        steps.append("odrop %d" % s)
                        remaining.remove(s)
                        # objects still held must stay usable; nodes only reachable through them stay alive
                        for t in remaining:
                            if t >= CLONE_SLOT:
                                steps.append("ouse %d" % t)
                    steps += ["odrop %d" % s for s in ALL_SLOTS]
                    cases.append(Case("own%s%d" % (cls, idx), cls, steps, dict(kind="enumerated-drop-order", shape=shape, extras=list(extras))))
                    idx += 1
    return cases


def gen_random(cls, rng, count):
    cases = []
    for ci in range(count):
        steps = []
        n = rng.randint(2, 5) if ci % 3 else rng.randint(6, 10)
        keys = rng.sample(range(1, 40), n)
        for i in range(n):
            steps.append("onew %d %d %d" % (i, keys[i], 100 + i))
        dropped_any = False
        nexttok = 100 + n
        for j in range(rng.randint(15, 60) if n <= 5 else rng.randint(40, 120)):
            r = rng.random()
            a, b = rng.randrange(n), rng.randrange(n)
            if r < 0.16 or (r < 0.22 and dropped_any):
                steps.append("ocon %d %d %d" % (a, b, rng.randint(0, 30)))
            elif r < 0.22:
                # lookups (is_connected both ways, a try_connect that may be refused): they must not retain handles
                steps.append(rng.choice(["oqry %d %d" % (a, b), "oqry %d %d" % (a, b), "otry %d %d %d" % (a, b, rng.randint(0, 30))]))
            elif r < 0.30 and not dropped_any:
                steps.append(rng.choice(["odis %d %d" % (a, keys[b]), "oiso %d" % a, "otry %d %d %d" % (a, b, rng.randint(0, 30)), "oexer %d" % a, "oexer %d" % a]))
            elif r < 0.38:
                steps.append("oclone %d %d" % (rng.choice(NODE_SLOTS), a))
                dropped_any = True     # overwriting a slot drops its previous content
            elif r < 0.46:
                steps.append("oedge %d %d %d" % (rng.choice(EDGE_SLOTS), a, rng.randint(0, 2)))
            elif r < 0.54:
                steps.append("opath %d %d %d %s" % (PATH_SLOT, a, keys[b], rng.choice(["bfs", "dfs", "pmin"])))
            elif r < 0.60:
                steps.append("ofind %d %d %d %s" % (rng.choice(NODE_SLOTS), a, keys[b], rng.choice(["bfs", "dfs", "pmin"])))
                dropped_any = True
            elif r < 0.66:
                steps.append("onodes %d %d %s" % (VEC_SLOT, a, rng.choice(["pre", "post"])))
            elif r < 0.72:
                if rng.random() < 0.3:
                    steps.append("ogra %d" % GRAPH_SLOT)
                steps.append("ogins %d %d" % (GRAPH_SLOT, a))
            elif r < 0.76:
                steps.append(rng.choice(["ogget", "ogrem"]) + " %d %d %d" % (rng.choice(NODE_SLOTS), GRAPH_SLOT, keys[b]))
                dropped_any = True
            elif r < 0.90:
                steps.append("odrop %d" % rng.choice(ALL_SLOTS))
                dropped_any = True
            elif r < 0.93:
                steps.append("onew %d %d %d" % (rng.choice(NODE_SLOTS), rng.randint(41, 60), nexttok))
                nexttok += 1
                dropped_any = True
            else:
                steps.append("ouse %d" % rng.choice(ALL_SLOTS))
        steps += ["odrop %d" % s for s in ALL_SLOTS]
        cases.append(Case("own%sR%d" % (cls, ci), cls, steps, dict(kind="random-ownership-history")))
    return cases


def gen_lookup(cls, rng, count):
    """cyclic structures on which every edge is looked up (is_connected / refused try_connect / disconnect+reconnect)
    before everything is dropped: a lookup must not leave a node owning its neighbour"""
    cases = []
    for ci in range(count):
        n = rng.randint(1, 5)
        keys = rng.sample(range(1, 40), n)
        steps = ["onew %d %d %d" % (i, keys[i], 100 + i) for i in range(n)]
        shape = rng.choice(["ring", "ring", "two-cycles", "self-loops", "random", "hubs", "hubs", "bighub"])
        lookups = None
        if shape == "bighub":
            # one node with 33-70 adjacency entries (parallel edges to a few neighbours) and ONE neighbour that is only found
            # deep in that list (connected last; for the undirected flavours also as an inbound half): lookups that have to
            # walk dozens of entries must not leave the hub owning itself or the neighbour
            n = max(n, 3)
            keys = rng.sample(range(1, 40), n)
            steps = ["onew %d %d %d" % (i, keys[i], 100 + i) for i in range(n)]
            edges = [(0, rng.randrange(1, n - 1)) for _ in range(rng.choice([33, 34, 40, 64, 65, 70]))]
            late = (0, n - 1) if rng.random() < 0.5 else (n - 1, 0)
            edges.append(late)
            lookups = [(0, n - 1), (0, n - 1), (n - 1, 0), (0, 1)] + [(0, rng.randrange(n)) for _ in range(3)]
        elif shape == "hubs":
            # nodes with many (9-14) outbound edges, parallel edges and self-loops included, pointing at each other
            n = max(n, 2)
            keys = rng.sample(range(1, 40), n)
            steps = ["onew %d %d %d" % (i, keys[i], 100 + i) for i in range(n)]
            edges = []
            for hub in range(rng.randint(1, 2)):
                edges += [(hub, rng.randrange(n)) for _ in range(rng.randint(9, 14))]
            edges += [(0, 1), (1, 0)]
            rng.shuffle(edges)
        elif shape == "ring":
            edges = [(i, (i + 1) % n) for i in range(n)]
        elif shape == "two-cycles":
            edges = [(i, j) for i in range(n) for j in range(n) if i != j and rng.random() < 0.6] or [(0, 0)]
        elif shape == "self-loops":
            edges = [(i, i) for i in range(n)] + [(rng.randrange(n), rng.randrange(n))]
        else:
            edges = [(rng.randrange(n), rng.randrange(n)) for _ in range(rng.randint(1, 8))]
        steps += ["ocon %d %d %d" % (a, b, rng.randint(0, 30)) for (a, b) in edges]
        if rng.random() < 0.4:
            steps += ["ogra %d" % GRAPH_SLOT] + ["ogins %d %d" % (GRAPH_SLOT, i) for i in range(n) if rng.random() < 0.8]
        for rnd in range(rng.randint(1, 3)):
            order = list(lookups if lookups is not None else edges)
            rng.shuffle(order)
            for (a, b) in order:
                r = rng.random()
                if r < 0.45:
                    steps.append("oqry %d %d" % (a, b))
                elif r < 0.85:
                    steps.append("otry %d %d %d" % (a, b, rng.randint(0, 30)))
                elif r < 0.93:
                    steps += ["odis %d %d" % (a, keys[b]), "ocon %d %d %d" % (a, b, rng.randint(0, 30)), "oqry %d %d" % (a, b)]
                else:
                    steps.append("oqry %d %d" % (b, a))
        steps += ["oexer %d" % rng.randrange(n) for _ in range(rng.randint(0, 2))]
        if rng.random() < 0.25:
            steps.append("oiso %d" % rng.randrange(n))
        drops = list(ALL_SLOTS)
        rng.shuffle(drops)
        steps += ["odrop %d" % s for s in drops]
        cases.append(Case("own%sL%d" % (cls, ci), cls, steps, dict(kind="lookups-on-cycles-then-drop", shape=shape)))
    return cases


def gen_twins(cls, rng, count):
    """a container that (often solely) owns connected nodes is offered same-key twins: the refused twin must not replace,
    release or outlive anything; get / remove then hand out the ORIGINAL. No disconnect / isolate / search after a twin
    exists (same-key live nodes are outside C01-C03's proviso)."""
    cases = []
    for ci in range(count):
        n = rng.randint(2, 4)
        keys = rng.sample(range(1, 40), n)
        steps = ["onew %d %d %d" % (i, keys[i], 100 + i) for i in range(n)]
        for j in range(rng.randint(1, 6)):
            steps.append("ocon %d %d %d" % (rng.randrange(n), rng.randrange(n), rng.randint(0, 30)))
        steps.append("ogra %d" % GRAPH_SLOT)
        members = [i for i in range(n) if rng.random() < 0.85] or [0]
        steps += ["ogins %d %d" % (GRAPH_SLOT, i) for i in members]
        # the container becomes the only owner of some members
        for i in members:
            if rng.random() < 0.6:
                steps.append("odrop %d" % i)
        tok = 200
        twin_slots = []
        for j in range(rng.randint(1, 3)):
            i = rng.choice(members)
            slot = rng.choice([s for s in NODE_SLOTS if s >= n] or NODE_SLOTS)
            steps.append("onew %d %d %d" % (slot, keys[i], tok))
            tok += 1
            steps.append("ogins %d %d" % (GRAPH_SLOT, slot))
            twin_slots.append(slot)
            r = rng.random()
            if r < 0.4:
                steps.append("ogget %d %d %d" % (rng.choice(NODE_SLOTS), GRAPH_SLOT, keys[i]))
            elif r < 0.6:
                steps.append("ogrem %d %d %d" % (rng.choice(NODE_SLOTS), GRAPH_SLOT, keys[i]))
            elif r < 0.8:
                steps.append("odrop %d" % slot)
            steps.append("ouse %d" % rng.choice(ALL_SLOTS))
        drops = list(ALL_SLOTS)
        rng.shuffle(drops)
        steps += ["odrop %d" % s for s in drops]
        cases.append(Case("own%sT%d" % (cls, ci), cls, steps, dict(kind="same-key-twins-offered-to-container")))
    return cases


def oracle_own(case, obs):
    """independent reading of C19 on the implementation's observations: values are released at most once, only values
    that exist, never while a handle this oracle KNOWS to be alive holds them (node slots whose content is known, and the
    container's members as decided by insert's contract), shown objects are usable and show live values, container
    contents are exactly the accepted inserts, and nothing is left once every slot has been dropped"""
    if obs == "HANG":
        return "call never returns"
    created = set()
    released = []
    for s in case.steps:
        t = s.split()
        if t[0] == "onew":
            created.add(int(t[3]))
    slot_val = {}      # node slot -> value id it is known to hold (None = holds something unknown)
    key_of = {}        # value id -> key
    graph = None       # key -> value id (the container of GRAPH_SLOT), by insert's contract
    for (si, text) in obs:
        st = case.steps[si]
        t = st.split()
        body, _, rel = text.partition(" | rel")
        ids = [int(x) for x in rel.split()]
        for x in ids:
            if x in released:
                return "step %d `%s`: node value %d released twice" % (si, st, x)
            if x not in created:
                return "step %d `%s`: unknown value %d released" % (si, st, x)
            released.append(x)
        harness_panic = body.startswith("panic")
        if t[0] == "onew":
            slot_val[int(t[1])] = int(t[3])
            key_of[int(t[3])] = int(t[2])
        elif t[0] == "oclone" and not harness_panic:
            slot_val[int(t[1])] = slot_val.get(int(t[2]))
        elif t[0] == "odrop":
            slot_val.pop(int(t[1]), None)
            if int(t[1]) == GRAPH_SLOT:
                graph = None
        elif t[0] == "ogra":
            slot_val.pop(int(t[1]), None)
            graph = {}
        elif t[0] == "ogins" and graph is not None and not harness_panic:
            v = slot_val.get(int(t[2]))
            if v is None:
                graph = None     # unknown object inserted: stop tracking the container
            else:
                k = key_of[v]
                want = 0 if k in graph else 1
                if body != "ok %d" % want:
                    return "step %d `%s`: insert returned `%s`, key %d %s a member" % (si, st, body, k, "is" if k in graph else "is not")
                if want:
                    graph[k] = v
        elif t[0] in ("ogget", "ogrem") and not harness_panic:
            k = int(t[3])
            if graph is not None:
                if (k in graph) != body.startswith("node"):
                    return "step %d `%s` -> `%s`, but key %d %s a member" % (si, st, body, k, "is" if k in graph else "is not")
                if k in graph:
                    slot_val[int(t[1])] = graph[k]
                    if t[0] == "ogrem":
                        del graph[k]
            elif body.startswith("node"):
                slot_val[int(t[1])] = None
        elif t[0] in ("ofind", "oedge", "opath", "onodes") and not harness_panic:
            if not body.startswith("none"):
                slot_val[int(t[1])] = None   # a search result / edge / path / vector: content not tracked here
        if st.startswith("ouse"):
            if harness_panic:
                return "step %d `%s`: an object that is still held is not usable (panic)" % (si, st)
            for (k, v) in re.findall(r"(\d+):(\d+)", body):
                if int(v) in released:
                    return "step %d `%s` shows node value %s, which was released earlier although the object holding it is alive" % (si, st, v)
            if body.startswith("graph") and graph is not None:
                shown = sorted((int(k), int(v)) for (k, v) in re.findall(r"(\d+):(\d+)", body))
                if shown != sorted(graph.items()):
                    return "step %d `%s`: the container holds %s, the accepted inserts are %s" % (si, st, shown, sorted(graph.items()))
        # no value is released while a handle known to be alive holds it
        held = set(v for v in slot_val.values() if v is not None) | (set(graph.values()) if graph is not None else set())
        bad = held & set(released)
        if bad:
            return "step %d `%s`: node value %s released while a handle to its node is still held (a node slot or the container)" % (si, st, sorted(bad))
    # the generator ends every case by dropping every slot
    if len(obs) == len(case.steps):
        left = created - set(released)
        if left:
            return "after all handles were dropped the node values %s were never released (leak)" % sorted(left)
    return None
