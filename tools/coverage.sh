#!/bin/bash
# coverage.sh — how much of /repo/src the quick tier's correspondence executes (a measurement, not a check).
# Builds the harness with -C instrument-coverage into a private cache, runs every quick check that uses the harness,
# merges the raw profiles and prints llvm-cov's report for /repo/src plus the lines never executed.
set -e
cd "$(dirname "$0")/.."
LP=${LLVM_TOOLS:-/root/.rustup/toolchains/nightly-x86_64-unknown-linux-gnu/lib/rustlib/x86_64-unknown-linux-gnu/bin}
OUT=${1:-/tmp/gdsl_cov}
rm -rf "$OUT" .cache_cov; mkdir -p "$OUT" .cache_cov/coq
rsync -a --exclude gen/ coq/ .cache_cov/coq/
export VERIF_EXTRA_RUSTFLAGS="-C instrument-coverage" VERIF_CACHE=$PWD/.cache_cov VERIF_COQ=$PWD/.cache_cov/coq LLVM_PROFILE_FILE=$OUT/h-%p-%8m.profraw
for p in C01 C02 C03 C04 C05 C06 C07 C08 C09 C10 C11 C12 C13 C15 C17 C18 C19 C20; do ./check $p > /dev/null 2>&1 || true; done
$LP/llvm-profdata merge -sparse $OUT/*.profraw -o $OUT/all.profdata
BIN=.cache_cov/target/release/gdsl_verif_harness
$LP/llvm-cov report $BIN -instr-profile=$OUT/all.profdata --ignore-filename-regex='(registry|rustc|harness_crate)' | tail -45
echo "--- lines of /repo/src never executed:"
$LP/llvm-cov show $BIN -instr-profile=$OUT/all.profdata --ignore-filename-regex='(registry|rustc|harness_crate)' --show-line-counts 2>/dev/null \
  | awk '/^\/.*\.rs:$/ {file=$0} /^ +[0-9]+\| +0\|/ {print file, $0}' | cut -c1-160
rm -rf .cache_cov
