#!/usr/bin/env python3
# rs2coq_types.py — translator for C16: reads the type declarations of the four flavours from /repo's
# CURRENT working tree and regenerates coq/gen/TypesGen.v (declarations in the AST of model/AutoTraits.v).
# Parsed per flavour: `struct`/tuple-struct declarations of Node, WeakNode, Adjacent, Edge, Graph, the `type`
# aliases they use (scoped per file), which `Weak`/`HashMap` the file imports, and every
# `unsafe impl .. Send|Sync for <T> .. where ..`.  Anything it cannot parse is an error (broken tie).
import os, re, sys

FLAVOURS = ["digraph", "sync_digraph", "ungraph", "sync_ungraph"]
FILES = ["node/mod.rs", "node/adjacent.rs", "mod.rs"]
STRUCTS = ["Node", "WeakNode", "Adjacent", "Edge", "Graph"]
LEAVES = {"usize", "u8", "u16", "u32", "u64", "i8", "i16", "i32", "i64", "isize", "bool", "char", "String", "f32", "f64"}


class ParseError(Exception):
    pass


def strip_comments(src):
    src = re.sub(r"//[^\n]*", "", src)
    src = re.sub(r"/\*.*?\*/", "", src, flags=re.S)
    return src


# ---------------- type expressions ----------------
def tokenize(s):
    toks = re.findall(r"[A-Za-z_][A-Za-z0-9_]*|::|'[a-z_]+|[<>(),&]", s)
    return toks


class TP:
    def __init__(self, toks):
        self.t, self.i = toks, 0

    def peek(self):
        return self.t[self.i] if self.i < len(self.t) else None

    def eat(self, x=None):
        tok = self.peek()
        if tok is None or (x is not None and tok != x):
            raise ParseError("expected %r at %d in %r" % (x, self.i, self.t))
        self.i += 1
        return tok

    def ty(self):
        tok = self.peek()
        if tok == "(":
            self.eat("(")
            items = []
            while self.peek() != ")":
                items.append(self.ty())
                if self.peek() == ",":
                    self.eat(",")
            self.eat(")")
            return ("tuple", items)
        if tok == "&":
            raise ParseError("reference types are not supported in declarations")
        # path
        name = self.eat()
        while self.peek() == "::":
            self.eat("::")
            name = self.eat()
        args = []
        if self.peek() == "<":
            self.eat("<")
            while self.peek() != ">":
                if self.peek().startswith("'"):
                    self.eat()
                else:
                    args.append(self.ty())
                if self.peek() == ",":
                    self.eat(",")
            self.eat(">")
        return ("path", name, args)


def parse_type(s):
    p = TP(tokenize(s))
    t = p.ty()
    if p.peek() is not None:
        raise ParseError("trailing tokens in type %r" % s)
    return t


def split_top(s, sep=","):
    out, depth, cur = [], 0, ""
    for ch in s:
        if ch in "<([{":
            depth += 1
        elif ch in ">)]}":
            depth -= 1
        if ch == sep and depth == 0:
            out.append(cur)
            cur = ""
        else:
            cur += ch
    if cur.strip():
        out.append(cur)
    return out


# ---------------- per-file parsing ----------------
def file_info(src):
    """returns dict(weak='arc'|'rc'|None, aliases={name: (params, type string)}, structs={name: [field types]}, impls=[..])"""
    info = dict(weak=None, hashmap=False, aliases={}, structs={}, impls=[])
    m = re.search(r"\brc::\{[^}]*\bWeak\b|\brc::Weak\b", src)
    if m:
        info["weak"] = "rc"
    m = re.search(r"\bsync::\{[^}]*\bWeak\b|\bsync::Weak\b", src)
    if m:
        if info["weak"]:
            raise ParseError("both rc::Weak and sync::Weak imported")
        info["weak"] = "arc"
    for m in re.finditer(r"\btype\s+(\w+)\s*(<[^=]*>)?\s*=\s*([^;]+);", src):
        name, params, rhs = m.group(1), m.group(2) or "", m.group(3).strip()
        if name in ("Item", "Output", "Target", "IntoIter", "Value"):
            continue
        info["aliases"][name] = rhs
    # struct Name<..> [where ..] { fields }  |  struct Name<..>( fields ) [where ..];
    for m in re.finditer(r"\bstruct\s+(\w+)\s*", src):
        name = m.group(1)
        if name not in STRUCTS:
            continue
        rest = src[m.end():]
        if rest.startswith("<"):
            # skip the balanced generic parameter list (defaults like `N = ()` may contain parentheses)
            depth = 0
            for j, ch in enumerate(rest):
                if ch == "<":
                    depth += 1
                elif ch == ">":
                    depth -= 1
                    if depth == 0:
                        break
            rest = rest[j + 1:]
        rest_l = rest.lstrip()
        if rest_l.startswith("("):
            # tuple struct
            depth, j = 0, 0
            for j, ch in enumerate(rest_l):
                if ch == "(":
                    depth += 1
                elif ch == ")":
                    depth -= 1
                    if depth == 0:
                        break
            body = rest_l[1:j]
            fields = [re.sub(r"^\s*pub(\([^)]*\))?\s+", "", f.strip()) for f in split_top(body) if f.strip()]
        else:
            k = rest.find("{")
            semi = rest.find(";")
            if k < 0 or (0 <= semi < k):
                raise ParseError("cannot find the body of struct %s" % name)
            depth, j = 0, k
            for j in range(k, len(rest)):
                if rest[j] == "{":
                    depth += 1
                elif rest[j] == "}":
                    depth -= 1
                    if depth == 0:
                        break
            body = rest[k + 1:j]
            fields = []
            for f in split_top(body):
                f = f.strip()
                if not f:
                    continue
                mm = re.match(r"^(?:pub(?:\([^)]*\))?\s+)?(\w+)\s*:\s*(.+)$", f, flags=re.S)
                if not mm:
                    raise ParseError("cannot parse field %r of struct %s" % (f, name))
                fields.append(mm.group(2).strip())
        if name in info["structs"]:
            raise ParseError("struct %s declared twice in one file" % name)
        info["structs"][name] = fields
    # unsafe impl<..> Send for Node<K, N, E> where K: .. + Send, N: .., E: .. {}
    for m in re.finditer(r"\bunsafe\s+impl\s*(<[^>]*>)?\s*(\w+)\s+for\s+(\w+)\s*(<[^>]*>)?\s*(where\s+([^{]*))?\{", src):
        trait, target, where = m.group(2), m.group(3), m.group(6) or ""
        generics = m.group(1) or ""
        if trait not in ("Send", "Sync"):
            raise ParseError("unsafe impl of unexpected trait %s" % trait)
        b = {p: dict(send=False, sync=False) for p in "KNE"}
        clauses = split_top(where) + [g for g in split_top(generics.strip("<>")) if ":" in g]
        for cl in clauses:
            cl = cl.strip()
            if not cl:
                continue
            mm = re.match(r"^(\w+)\s*:\s*(.*)$", cl, flags=re.S)
            if not mm:
                raise ParseError("cannot parse where-clause %r" % cl)
            p, bs = mm.group(1), [x.strip() for x in mm.group(2).split("+")]
            if p not in b:
                raise ParseError("where-clause on unexpected parameter %r" % p)
            for x in bs:
                x = x.split("::")[-1]
                if x == "Send":
                    b[p]["send"] = True
                elif x == "Sync":
                    b[p]["sync"] = True
        info["impls"].append((trait, target, b))
    return info


def resolve(t, info, depth=0):
    """type AST -> Coq term of type ty"""
    if depth > 20:
        raise ParseError("alias expansion too deep")
    if t[0] == "tuple":
        return "TTuple [%s]" % "; ".join(resolve(x, info, depth) for x in t[1])
    _, name, args = t
    if name in ("K", "N", "E") and not args:
        return "TParam P%s" % name
    if name in info["aliases"]:
        return resolve(parse_type(info["aliases"][name]), info, depth + 1)
    if name in STRUCTS:
        return 'TNamed "%s"' % name
    a = "[%s]" % "; ".join(resolve(x, info, depth) for x in args)
    if name == "Arc":
        return "TApp CArc " + a
    if name == "Rc":
        return "TApp CRc " + a
    if name == "Weak":
        if info["weak"] == "arc":
            return "TApp CArcWeak " + a
        if info["weak"] == "rc":
            return "TApp CRcWeak " + a
        raise ParseError("Weak used but neither rc::Weak nor sync::Weak imported in this file")
    if name == "RwLock":
        return "TApp CRwLock " + a
    if name == "RefCell":
        return "TApp CRefCell " + a
    if name == "Vec":
        return "TApp CVec " + a
    if name in ("HashMap", "AHashMap"):
        return "TApp CHashMap " + a
    if name in LEAVES and not args:
        return "TApp CLeaf []"
    raise ParseError("unknown type constructor %r" % name)


def bounds_term(b):
    def f(which):
        return "(fun p => match p with PK => %s | PN => %s | PE => %s end)" % tuple(
            "true" if b[p][which] else "false" for p in "KNE")
    return "(mkBounds %s %s)" % (f("send"), f("sync"))


def translate(repo):
    out = ["(* GENERATED by tools/rs2coq_types.py from %s/src — do not edit. *)" % repo,
           "From Gdsl.Model Require Import AutoTraits.", "Open Scope string_scope.", ""]
    summary = {}
    for fl in FLAVOURS:
        decls = {}
        impls = []
        for rel in FILES:
            path = os.path.join(repo, "src", fl, rel)
            src = strip_comments(open(path).read())
            info = file_info(src)
            # adjacent.rs does `use super::*`: it sees the parent's imports
            if rel == "node/adjacent.rs" and info["weak"] is None:
                parent = file_info(strip_comments(open(os.path.join(repo, "src", fl, "node/mod.rs")).read()))
                info["weak"] = parent["weak"]
            for name, fields in info["structs"].items():
                if name in decls:
                    raise ParseError("%s: struct %s declared in two files" % (fl, name))
                decls[name] = [resolve(parse_type(f), info) for f in fields]
            impls += info["impls"]
        for s in STRUCTS:
            if s not in decls:
                raise ParseError("%s: struct %s not found" % (fl, s))
        # an explicit auto-trait impl ANYWHERE else in the flavour (search objects, paths, iterators, serde, macros) or at
        # the crate root is outside the declarations modelled here: the tie is broken, not silently ignored
        roots = [os.path.join(repo, "src", fl)] + ([os.path.join(repo, "src")] if fl == FLAVOURS[0] else [])
        for root in roots:
            for dirpath, dirs, files in os.walk(root):
                if root.endswith("src"):
                    dirs[:] = [d for d in dirs if d not in FLAVOURS]
                for f in sorted(files):
                    if not f.endswith(".rs"):
                        continue
                    path = os.path.join(dirpath, f)
                    if os.path.relpath(path, os.path.join(repo, "src", fl)) in FILES:
                        continue
                    text = strip_comments(open(path).read())
                    m = re.search(r"\bimpl\b[^;{]*\b(Send|Sync|Unpin|UnwindSafe|RefUnwindSafe)\b\s+for\b[^;{]*", text)
                    if m:
                        raise ParseError("%s: explicit auto-trait impl outside the modelled declarations: %s: `%s`" % (
                            fl, os.path.relpath(path, repo), " ".join(m.group(0).split())[:120]))
        lines = []
        for s in STRUCTS:
            send = [b for (tr, tg, b) in impls if tr == "Send" and tg == s]
            sync = [b for (tr, tg, b) in impls if tr == "Sync" and tg == s]
            if len(send) > 1 or len(sync) > 1:
                raise ParseError("%s: more than one explicit impl for %s" % (fl, s))
            lines.append('  mkDecl "%s" [%s] %s %s' % (
                s, "; ".join(decls[s]),
                "(Some %s)" % bounds_term(send[0]) if send else "None",
                "(Some %s)" % bounds_term(sync[0]) if sync else "None"))
        for (tr, tg, b) in impls:
            if tg not in STRUCTS:
                raise ParseError("%s: explicit %s impl for unexpected type %s" % (fl, tr, tg))
        out.append("Definition %s_decls : list decl := [\n%s\n]." % (fl, ";\n".join(lines)))
        out.append("")
        summary[fl] = dict(structs={s: decls[s] for s in STRUCTS}, impls=[(tr, tg) for (tr, tg, b) in impls])
    return "\n".join(out) + "\n", summary


if __name__ == "__main__":
    repo = sys.argv[1] if len(sys.argv) > 1 else "/repo"
    txt, summary = translate(repo)
    dest = sys.argv[2] if len(sys.argv) > 2 else os.path.join(os.path.dirname(os.path.dirname(os.path.abspath(__file__))), "coq", "gen", "TypesGen.v")
    os.makedirs(os.path.dirname(dest), exist_ok=True)
    old = open(dest).read() if os.path.exists(dest) else None
    if old != txt:
        open(dest, "w").write(txt)
    print("wrote", dest)
