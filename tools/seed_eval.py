#!/usr/bin/env python3
# seed_eval.py <seed dir with patch.diff, seed_demo.rs, meta.json> <name> [checks...]
# 1. confirms the seeded change in a scratch worktree: compiles, baseline tests pass, demo fails with / passes without the change
# 2. applies it to /repo, runs the given checks (default: the property's own), undoes it
# 3. files everything under /verif/seeded/<name>/
import json, os, shutil, subprocess, sys, time

VERIF = os.path.dirname(os.path.dirname(os.path.abspath(__file__)))


def sh(cmd, cwd=None, timeout=3600):
    p = subprocess.run(cmd, shell=True, cwd=cwd, stdout=subprocess.PIPE, stderr=subprocess.STDOUT, text=True, timeout=timeout,
                       env=dict(os.environ, CARGO_NET_OFFLINE="true"))
    return p.returncode, p.stdout


def main():
    src, name = sys.argv[1], sys.argv[2]
    checks = sys.argv[3:]
    meta = json.load(open(os.path.join(src, "meta.json"))) if os.path.exists(os.path.join(src, "meta.json")) else {}
    prop = meta.get("property", name.split("_")[0])
    if not checks:
        checks = [prop]
    patch = os.path.abspath(os.path.join(src, "patch.diff"))
    demo = os.path.abspath(os.path.join(src, "seed_demo.rs"))
    wt = "/tmp/confirm_%s" % name
    sh("git -C /repo worktree remove --force %s" % wt)
    rc, out = sh("git -C /repo worktree add -q %s HEAD" % wt)
    res = dict(applies=False)
    try:
        rc, out = sh("git apply %s" % patch, cwd=wt)
        res["applies"] = rc == 0
        if rc != 0:
            res["apply_error"] = out[-500:]
        else:
            rc, out = sh("cargo test --offline 2>&1 | grep -E '^test result|^error|FAILED'", cwd=wt)
            res["baseline_tests_pass_with_change"] = ("FAILED" not in out and "error" not in out) and out.count("test result: ok") >= 5
            res["baseline_tail"] = [l for l in out.splitlines() if l.startswith("test result")]
            shutil.copy(demo, os.path.join(wt, "tests", "seed_demo.rs"))
            rc1, out1 = sh("cargo test --offline --test seed_demo 2>&1 | tail -25", cwd=wt)
            res["demo_fails_with_change"] = ("test result: FAILED" in out1 or "panicked" in out1 or "could not compile" in out1 or "error[E" in out1) and "test result: ok" not in out1
            sh("git apply -R %s" % patch, cwd=wt)
            rc2, out2 = sh("cargo test --offline --test seed_demo 2>&1 | tail -25", cwd=wt)
            res["demo_passes_without_change"] = "test result: ok" in out2 and "FAILED" not in out2
    finally:
        sh("git -C /repo worktree remove --force %s" % wt)
    confirmed = res.get("applies") and res.get("baseline_tests_pass_with_change") and res.get("demo_fails_with_change") and res.get("demo_passes_without_change")
    res["confirmed"] = bool(confirmed)
    detections = {}
    if confirmed:
        # run the checks against a scratch worktree carrying the change (GDSL_REPO override, separate cache) — equivalent to
        # `git -C /repo apply` + checks + `git -C /repo checkout -- .`, but safe while background runs use /repo
        wt2 = "/tmp/seedrun_%s" % name
        sh("git -C /repo worktree remove --force %s" % wt2)
        sh("git -C /repo worktree add -q %s HEAD" % wt2)
        try:
            rc, out = sh("git apply %s" % patch, cwd=wt2)
            # a private copy of the Coq development too: C16 regenerates coq/gen/TypesGen.v from the tree under test
            scache = os.path.join(VERIF, os.environ.get("SEED_CACHE", ".cache_seed"))
            seedcoq = os.path.join(scache, "coq")
            sh("mkdir -p %s && rsync -a --delete --exclude gen/ %s/ %s/" % (seedcoq, os.path.join(VERIF, "coq"), seedcoq))
            env = "GDSL_REPO=%s VERIF_CACHE=%s VERIF_COQ=%s" % (wt2, scache, seedcoq)
            for c in checks:
                t0 = time.time()
                rc, out = sh("%s ./check %s 2>&1 | tail -8" % (env, c), cwd=VERIF, timeout=3600)
                lines = [l for l in out.splitlines() if l.startswith("VIOLATION")]
                det = dict(exit=1 if lines else 0, violation_lines=lines[:3], wall_s=round(time.time() - t0, 1), tail=out.splitlines()[-3:])
                if lines:
                    rp = lines[0].split("replay=")[1].split()[0]
                    try:
                        o = json.load(open(rp))
                        det["replay"] = {k: o.get(k) for k in ("kind", "flavours", "case", "oracle", "broken", "row", "invocation", "first_disagreement") if o.get(k) is not None}
                    except Exception as e:
                        det["replay"] = str(e)
                detections[c] = det
        finally:
            sh("git -C /repo worktree remove --force %s" % wt2)
    dst = os.path.join(VERIF, "seeded", name)
    os.makedirs(dst, exist_ok=True)
    shutil.copy(patch, os.path.join(dst, "patch.diff"))
    shutil.copy(demo, os.path.join(dst, "seed_demo.rs"))
    meta.update(dict(confirmation=res, checks_run=detections,
                     what_i_ran=["scratch worktree: git apply patch; cargo test --offline (baseline must pass); cargo test --test seed_demo (must fail); git apply -R; demo again (must pass)",
                                 "scratch worktree with the patch applied; GDSL_REPO=<worktree> VERIF_CACHE=.cache_seed ./check <id> (same checks, pointed at the patched copy; /repo itself untouched)"]))
    json.dump(meta, open(os.path.join(dst, "meta.json"), "w"), indent=1)
    print(json.dumps(dict(name=name, confirmed=res["confirmed"], res={k: v for k, v in res.items() if k != "baseline_tail"},
                          detected={c: (d["exit"], d["violation_lines"][:1]) for c, d in detections.items()}), indent=1))


if __name__ == "__main__":
    main()
