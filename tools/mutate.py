#!/usr/bin/env python3
# mutate.py — systematic syntactic mutation analysis of /repo/src against the checks (complements the LLM-written seeds).
#   mutate.py list                      : print the candidate mutants (file, line, operator)
#   mutate.py run <out.jsonl> [slots] [stride] [offset] : for every stride-th mutant: apply it in a scratch worktree,
#       `cargo check` (invalid mutants are dropped), run the 80 baseline integration tests (mutants they kill are recorded as
#       such), then run the checks that cover the mutated file against the worktree; record detected / SURVIVED.
# Nothing is ever changed in /repo; worktrees live under /tmp/mut_slot<N> and are removed at the end.
import json, os, re, subprocess, sys, time
from multiprocessing import Pool

VERIF = os.path.dirname(os.path.dirname(os.path.abspath(__file__)))
REPO = "/repo"

# which checks cover which file (by path fragment); sync flavours add the twin / concurrency checks
CHECKS = [
    ("node/adjacent.rs", ["C01", "C02", "C03", "C19"]),
    ("node/mod.rs", ["C01", "C02", "C03", "C20", "C18", "C12"]),
    ("algo/bfs.rs", ["C04", "C09", "C07"]),
    ("algo/dfs.rs", ["C05", "C09", "C07"]),
    ("algo/pfs.rs", ["C06", "C09", "C07"]),
    ("algo/order.rs", ["C10", "C07", "C11"]),
    ("algo/path.rs", ["C04", "C05", "C09"]),
    ("algo/method.rs", ["C07"]),
    ("graph_serde.rs", ["C12", "C13"]),
    ("graph_macros.rs", ["C14"]),
    ("/mod.rs", ["C18", "C11"]),
]

OPS = [
    ("eq->ne", re.compile(r"(?<![=!<>])==(?!=)"), "!="),
    ("ne->eq", re.compile(r"!=(?!=)"), "=="),
    ("and->or", re.compile(r"&&"), "||"),
    ("or->and", re.compile(r"\|\|(?!\s*\{)(?![^|]*\|\s*[^|])"), "&&"),
    ("drop-not", re.compile(r"(?<=[\s(])!(?=[a-zA-Z_(])"), ""),
    ("out->in", re.compile(r"\b(push|remove|find|len|get|clear)_outbound\b"), lambda m: m.group(1) + "_inbound"),
    ("in->out", re.compile(r"\b(push|remove|find|len|get|clear)_inbound\b"), lambda m: m.group(1) + "_outbound"),
    ("iter_out->iter_in", re.compile(r"\biter_out\b"), "iter_in"),
    ("iter_in->iter_out", re.compile(r"\biter_in\b"), "iter_out"),
    ("true->false", re.compile(r"\btrue\b"), "false"),
    ("false->true", re.compile(r"\bfalse\b"), "true"),
    ("continue->break", re.compile(r"\bcontinue\b"), "break"),
    ("break->continue", re.compile(r"\bbreak\b"), "continue"),
    ("plus->minus", re.compile(r"(?<=\s)\+(?=\s)(?!=)"), "-"),
    ("lt->le", re.compile(r"(?<=\s)<(?=\s)"), "<="),
    ("gt->ge", re.compile(r"(?<=\s)>(?=\s)"), ">="),
    ("ge->gt", re.compile(r"(?<=\s)>=(?=\s)"), ">"),
    ("le->lt", re.compile(r"(?<=\s)<=(?=\s)"), "<"),
    ("source<->target", re.compile(r"\.source\(\)"), ".target()"),
    ("target<->source", re.compile(r"\.target\(\)"), ".source()"),
    ("min<->max", re.compile(r"Priority::Min\b"), "Priority::Max"),
    ("push_back->push_front", re.compile(r"\.push_back\("), ".push_front("),
    ("pop_front->pop_back", re.compile(r"\.pop_front\("), ".pop_back("),
    ("field0->1", re.compile(r"(?<=[a-z_)])\.0\b(?!\.)"), ".1"),
    ("field1->0", re.compile(r"(?<=[a-z_)])\.1\b(?!\.)"), ".0"),
    ("reverse-dropped", re.compile(r"\.reverse\(\)"), ".clone()"),
]
STMT_DELETE = re.compile(r"^\s*(visited|queue|result|edges|nodes|self\.[a-z_.0-9()]*|[a-z_]+)\.(insert|push|push_back|push_front|extend|append|clear|remove|pop|truncate)\(.*\);\s*$")


def code_lines(path):
    """(lineno, text) of lines that are code: no comments / doc comments / attributes / hook lines"""
    out = []
    hook_next = False
    for i, l in enumerate(open(path).read().split("\n")):
        s = l.strip()
        if hook_next:
            hook_next = False
            continue
        if s.startswith("#[cfg(gdsl_verif)]"):
            hook_next = True
            continue
        if not s or s.startswith("//") or s.startswith("#[") or s.startswith("#!["):
            continue
        out.append((i, l))
    return out


def candidates():
    muts = []
    for fl in ("digraph", "sync_digraph", "ungraph", "sync_ungraph"):
        for root, _, files in os.walk(os.path.join(REPO, "src", fl)):
            for f in sorted(files):
                if not f.endswith(".rs"):
                    continue
                p = os.path.join(root, f)
                rel = os.path.relpath(p, REPO)
                for (i, l) in code_lines(p):
                    code = l.split("//")[0]
                    for (name, rx, rep) in OPS:
                        if name == "plus->minus" and re.search(r"\b(Clone|Hash|Display|Send|Sync|PartialEq|Eq|Ord|PartialOrd)\b", code):
                            continue    # `+` of a trait bound, not arithmetic
                        for k, m in enumerate(rx.finditer(code)):
                            muts.append(dict(file=rel, line=i, op=name, nth=k))
                    if STMT_DELETE.match(code):
                        muts.append(dict(file=rel, line=i, op="delete-stmt", nth=0))
    return muts


def apply(wt, mut):
    p = os.path.join(wt, mut["file"])
    lines = open(p).read().split("\n")
    l = lines[mut["line"]]
    if mut["op"] == "delete-stmt":
        new = re.sub(r"\S.*$", "// (statement deleted)", l)
    else:
        (name, rx, rep) = next(o for o in OPS if o[0] == mut["op"])
        code, sep, comment = l.partition("//")
        ms = list(rx.finditer(code))
        m = ms[mut["nth"]]
        r = rep(m) if callable(rep) else rep
        new = code[:m.start()] + r + code[m.end():] + sep + comment
    lines[mut["line"]] = new
    open(p, "w").write("\n".join(lines))
    return l.strip(), new.strip()


def sh(cmd, cwd=None, timeout=1800, env=None):
    e = dict(os.environ, CARGO_NET_OFFLINE="true")
    if env:
        e.update(env)
    try:
        p = subprocess.run(cmd, shell=True, cwd=cwd, stdout=subprocess.PIPE, stderr=subprocess.STDOUT, text=True, timeout=timeout, env=e)
        return p.returncode, p.stdout
    except subprocess.TimeoutExpired:
        return 124, "timeout"


def checks_for(path):
    for frag, cs in CHECKS:
        if frag in path:
            cs = list(cs)
            break
    else:
        cs = ["C03"]
    if "sync_" in path:
        cs.append("C15")
        if "node/mod.rs" in path or "adjacent.rs" in path:
            cs.append("C17")
    return cs


def work(args):
    slot, muts = args
    wt = "/tmp/mut_slot%d" % slot
    cache = os.path.join(VERIF, ".cache_mut%d" % slot)
    sh("git -C /repo worktree remove --force %s" % wt)
    sh("git -C /repo worktree add -q --detach %s HEAD" % wt)
    sh("mkdir -p %s/coq && rsync -a --delete --exclude gen/ %s/coq/ %s/coq/" % (cache, VERIF, cache))
    res = []
    for mut in muts:
        sh("git checkout -q -- src", cwd=wt)
        t0 = time.time()
        try:
            before, after = apply(wt, mut)
        except Exception as e:
            continue
        r = dict(mut, before=before, after=after)
        rc, out = sh("cargo check --offline --lib 2>&1 | tail -3", cwd=wt, timeout=600)
        rc, out = sh("cargo check --offline --lib", cwd=wt, timeout=600)
        if rc != 0:
            r["status"] = "invalid"
            res.append(r)
            continue
        rc, out = sh("timeout 600 cargo test --offline --tests 2>&1 | grep -E '^test result|FAILED|panicked' | head -8", cwd=wt, timeout=700)
        if "FAILED" in out or "test result: ok" not in out:
            r["status"] = "killed-by-baseline-tests"
            res.append(r)
            continue
        det = {}
        for c in checks_for(mut["file"]):
            env = dict(GDSL_REPO=wt, VERIF_CACHE=cache, VERIF_COQ=os.path.join(cache, "coq"))
            rc, out = sh("timeout 900 ./check %s 2>&1 | grep -E '^VIOLATION' | head -2" % c, cwd=VERIF, timeout=1000, env=env)
            det[c] = "VIOLATION" in out, ("no-failing-input-found" in out)
            if det[c][0]:
                break
        r["checks"] = {c: ("detected" + (" (tie)" if v[1] else "")) if v[0] else "silent" for c, v in det.items()}
        r["status"] = "detected" if any(v[0] for v in det.values()) else "SURVIVED"
        r["wall_s"] = round(time.time() - t0, 1)
        res.append(r)
        with open("/tmp/mut_progress_%d.jsonl" % slot, "a") as f:
            f.write(json.dumps(r) + "\n")
    sh("git -C /repo worktree remove --force %s" % wt)
    sh("rm -rf %s" % cache)
    return res


def main():
    if sys.argv[1] == "list":
        ms = candidates()
        for m in ms:
            print(m)
        print(len(ms), "candidates", file=sys.stderr)
        return
    out, slots = sys.argv[2], int(sys.argv[3]) if len(sys.argv) > 3 else 4
    stride = int(sys.argv[4]) if len(sys.argv) > 4 else 1
    offset = int(sys.argv[5]) if len(sys.argv) > 5 else 0
    ms = candidates()[offset::stride]
    if os.environ.get("MUT_FILE"):       # restrict to files whose path contains this fragment
        ms = [m for m in ms if os.environ["MUT_FILE"] in m["file"]]
    parts = [(i, ms[i::slots]) for i in range(slots)]
    with Pool(slots) as pool:
        allres = [r for part in pool.map(work, parts) for r in part]
    with open(out, "w") as f:
        for r in allres:
            f.write(json.dumps(r) + "\n")
    from collections import Counter
    print(Counter(r["status"] for r in allres))


if __name__ == "__main__":
    main()
