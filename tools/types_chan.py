# types_chan.py — C16: translator + Coq table + rustc trait-table probe
import os, re, shutil, subprocess, time
import vlib
from vlib import VERIF, CACHE, COQ, REPO, log
import rs2coq_types

FLAVOURS = ["digraph", "sync_digraph", "ungraph", "sync_ungraph"]
TYPES = ["Node", "Edge", "Graph"]
MARKS = [("SS", 1, 1), ("SO", 1, 0), ("YO", 0, 1), ("NN", 0, 0)]   # (name, Send, Sync)

PROBE_HEAD = r'''// GENERATED: evaluates Send/Sync of gdsl's types with rustc's own trait solver.
#![allow(dead_code)]
use std::cell::Cell;
use std::fmt;
use std::hash::{Hash, Hasher};
use std::marker::PhantomData;
use std::rc::Rc;
use std::sync::MutexGuard;

pub struct M<P>(u8, PhantomData<P>);
impl<P> Clone for M<P> { fn clone(&self) -> Self { M(self.0, PhantomData) } }
impl<P> PartialEq for M<P> { fn eq(&self, o: &Self) -> bool { self.0 == o.0 } }
impl<P> Eq for M<P> {}
impl<P> Hash for M<P> { fn hash<H: Hasher>(&self, h: &mut H) { self.0.hash(h) } }
impl<P> fmt::Display for M<P> { fn fmt(&self, f: &mut fmt::Formatter) -> fmt::Result { write!(f, "{}", self.0) } }
type SS = M<u8>;                          // Send + Sync
type SO = M<Cell<u8>>;                    // Send, !Sync
type YO = M<MutexGuard<'static, u8>>;     // !Send, Sync
type NN = M<Rc<u8>>;                      // !Send, !Sync

struct IsSend<T: ?Sized>(PhantomData<T>);
struct IsSync<T: ?Sized>(PhantomData<T>);
trait Fallback { const V: bool = false; }
impl<T: ?Sized> Fallback for IsSend<T> {}
impl<T: ?Sized> Fallback for IsSync<T> {}
impl<T: ?Sized + Send> IsSend<T> { const V: bool = true; }
impl<T: ?Sized + Sync> IsSync<T> { const V: bool = true; }

fn ok<T: Send + Sync>() {}

// value-level probe for objects whose type cannot be named from outside the crate (paths, iterators, search results)
macro_rules! val_probe {
    ($v:expr) => {{
        struct W<'a, T>(&'a T);
        trait NoS { fn is_send(&self) -> bool { false } }
        trait NoY { fn is_sync(&self) -> bool { false } }
        impl<'a, T> NoS for W<'a, T> {}
        impl<'a, T> NoY for W<'a, T> {}
        impl<'a, T: Send> W<'a, T> { fn is_send(&self) -> bool { true } }
        impl<'a, T: Sync> W<'a, T> { fn is_sync(&self) -> bool { true } }
        let v = $v;
        let w = W(&v);
        (w.is_send() as u8, w.is_sync() as u8)
    }};
}
fn mk<P>() -> M<P> { M(0, PhantomData) }
'''

VALUE_PROBES = r"""
    {
        // objects handed out by the API hold node handles: they may cross threads exactly when the nodes may
        let a = gdsl::%(fl)s::Node::<u8, %(pay)s, u8>::new(1, mk());
        let b = gdsl::%(fl)s::Node::<u8, %(pay)s, u8>::new(2, mk());
        a.connect(&b, 7);
        let r = val_probe!(a.bfs().target(&2).search_path().unwrap());
        println!("V %(fl)s path %(pay)s {} {}", r.0, r.1);
        let r = val_probe!(a.dfs().target(&2).search().unwrap());
        println!("V %(fl)s found-node %(pay)s {} {}", r.0, r.1);
        let r = val_probe!(%(iter)s);
        println!("V %(fl)s edge-iterator %(pay)s {} {}", r.0, r.1);
        let r = val_probe!(%(iter)s.next().unwrap());
        println!("V %(fl)s edge %(pay)s {} {}", r.0, r.1);
        let r = val_probe!(%(ordn)s);
        println!("V %(fl)s node-vector %(pay)s {} {}", r.0, r.1);
        let r = val_probe!(%(orde)s);
        println!("V %(fl)s edge-vector %(pay)s {} {}", r.0, r.1);
    }
"""


POSITIVE = r"""// GENERATED: `gdsl::%s::%s<K, N, E>` must be Send + Sync for ALL payload types that are Send + Sync
#![allow(dead_code)]
use std::fmt::Display;
use std::hash::Hash;
fn ok<T: Send + Sync>() {}
fn positive<K: Clone + Hash + Display + Eq + Send + Sync, N: Clone + Send + Sync, E: Clone + Send + Sync>() {
    ok::<gdsl::%s::%s<K, N, E>>();
}
fn borrowed<'a>(_k: &'a str) {
    // payloads that borrow (not 'static) are Send + Sync too
    ok::<gdsl::%s::%s<&'a str, &'a u8, &'a u16>>();
}
fn main() {}
"""
POSITIVE = POSITIVE.replace("%s::%s", "{0}::{1}").replace("%", "%%").replace("{0}::{1}", "%(fl)s::%(t)s")


def gen_probe(dirpath):
    os.makedirs(os.path.join(dirpath, "src"), exist_ok=True)
    with open(os.path.join(dirpath, "Cargo.toml"), "w") as f:
        f.write('[package]\nname = "gdsl_c16_probe"\nversion = "0.1.0"\nedition = "2021"\n\n[dependencies]\ngdsl = { path = "%s" }\n\n[workspace]\n' % REPO)
    shutil.copy(os.path.join(REPO, "Cargo.lock"), os.path.join(dirpath, "Cargo.lock"))
    os.makedirs(os.path.join(dirpath, ".cargo"), exist_ok=True)
    with open(os.path.join(dirpath, ".cargo", "config.toml"), "w") as f:
        f.write("[net]\noffline = true\n")
    src = [PROBE_HEAD]
    # positive generic obligations: must type-check for EVERY K, N, E that are Send + Sync (no other bound, in particular no
    # 'static): one small binary per obligation, so that a failing one is reported by name
    os.makedirs(os.path.join(dirpath, "src", "bin"), exist_ok=True)
    for fl in ("sync_digraph", "sync_ungraph"):
        for t in TYPES:
            with open(os.path.join(dirpath, "src", "bin", "pos_%s_%s.rs" % (fl, t.lower())), "w") as f:
                f.write(POSITIVE % dict(fl=fl, t=t))
    src.append("fn main() {")
    for fl in FLAVOURS:
        for t in TYPES:
            for (k, _, _) in MARKS:
                for (n, _, _) in MARKS:
                    for (e, _, _) in MARKS:
                        ty = "gdsl::%s::%s<%s, %s, %s>" % (fl, t, k, n, e)
                        src.append('    println!("%s %s %s %s %s {} {}", IsSend::<%s>::V as u8, IsSync::<%s>::V as u8);' % (fl, t, k, n, e, ty, ty))
    for fl in FLAVOURS:
        directed = "digraph" in fl and "un" not in fl.replace("sync_", "")[:2]
        for pay in ("SS", "SO", "NN"):
            src.append(VALUE_PROBES % dict(fl=fl, pay=pay,
                                           iter="a.iter_out()" if fl.endswith("digraph") else "a.iter()",
                                           ordn="a.preorder().search_nodes()" if fl.endswith("digraph") else "a.order().pre().search_nodes()",
                                           orde="a.postorder().search_edges()" if fl.endswith("digraph") else "a.order().post().search_edges()"))
    src.append("}")
    with open(os.path.join(dirpath, "src", "main.rs"), "w") as f:
        f.write("\n".join(src) + "\n")


def run_probe():
    d = os.path.join(CACHE, "probes", "c16")
    gen_probe(d)
    env = {"RUSTFLAGS": vlib.RUSTFLAGS, "CARGO_NET_OFFLINE": "true", "CARGO_TARGET_DIR": os.path.join(CACHE, "target")}
    rc, out = vlib.sh("cargo run --release --offline --bin gdsl_c16_probe 2>&1", cwd=d, env=env, timeout=1800)
    if rc != 0:
        return None, out
    rows = {}
    VALUE_ROWS.clear()
    for line in out.splitlines():
        t = line.split()
        if len(t) == 7 and t[0] in FLAVOURS:
            rows[(t[0], t[1], t[2], t[3], t[4])] = (int(t[5]), int(t[6]))
        elif len(t) == 6 and t[0] == "V":
            VALUE_ROWS[(t[1], t[2], t[3])] = (int(t[4]), int(t[5]))
    return rows, out


VALUE_ROWS = {}


def value_row_failures():
    """value-level rows: an object handed out by a sync flavour is Send / Sync exactly when its node value type is both
    (payload SS), and never in the plain flavours; returns [(key, got, want)]"""
    bad = []
    for (fl, what, pay), got in sorted(VALUE_ROWS.items()):
        want = (1, 1) if (fl.startswith("sync_") and pay == "SS") else (0, 0)
        if got != want:
            bad.append(((fl, what, pay), got, want))
    return bad


def run_positive():
    """type-check every generic positive obligation on its own; returns the list of (flavour, type, rustc message) that fail"""
    d = os.path.join(CACHE, "probes", "c16")
    env = {"RUSTFLAGS": vlib.RUSTFLAGS, "CARGO_NET_OFFLINE": "true", "CARGO_TARGET_DIR": os.path.join(CACHE, "target")}
    failed = []
    for fl in ("sync_digraph", "sync_ungraph"):
        for t in TYPES:
            rc, out = vlib.sh("cargo check --release --offline --bin pos_%s_%s 2>&1" % (fl, t.lower()), cwd=d, env=env, timeout=600)
            if rc != 0:
                errs = [l for l in out.splitlines() if l.startswith("error")]
                failed.append((fl, t, "; ".join(errs[:3])[:400]))
    return failed


def model_table():
    """evaluate `solve` on the regenerated declarations inside Coq for the same 768 rows"""
    p = os.path.join(CACHE, "c16_table.v")
    bit = {1: "true", 0: "false"}
    lines = ["From Gdsl.Model Require Import AutoTraits.", "From Gdsl.Gen Require Import TypesGen.", "Open Scope string_scope.",
             "Definition marks : list (bool * bool) := [(true, true); (true, false); (false, true); (false, false)].",
             "Definition rows (ds : list decl) (name : string) : list bool :=",
             "  flat_map (fun k => flat_map (fun n => flat_map (fun e =>",
             "    let r := solve ds (mk_env (fst k) (snd k) (fst n) (snd n) (fst e) (snd e)) name in [fst r; snd r]) marks) marks) marks.",
             "Definition table : list bool :="]
    parts = []
    for fl in FLAVOURS:
        for t in TYPES:
            parts.append('rows %s_decls "%s"' % (fl, t))
    lines.append("  " + " ++ ".join(parts) + ".")
    lines.append("Eval vm_compute in table.")
    open(p, "w").write("\n".join(lines) + "\n")
    rc, out = vlib.sh("timeout 300 coqc -q -Q model Gdsl.Model -Q gen Gdsl.Gen -o %s %s" % (os.path.join(CACHE, "c16_table.vo"), p), cwd=COQ)
    if rc != 0:
        return None, out
    vals = re.findall(r"\b(true|false)\b", out.split("=", 1)[1].split(": list bool")[0])
    rows = {}
    i = 0
    for fl in FLAVOURS:
        for t in TYPES:
            for (k, _, _) in MARKS:
                for (n, _, _) in MARKS:
                    for (e, _, _) in MARKS:
                        rows[(fl, t, k, n, e)] = (int(vals[i] == "true"), int(vals[i + 1] == "true"))
                        i += 2
    return rows, out


def property_row(key, val):
    """the property on one row of rustc's table; None or a message"""
    fl, t, k, n, e = key
    bits = {m[0]: (m[1], m[2]) for m in MARKS}
    allss = all(bits[x] == (1, 1) for x in (k, n, e))
    if fl.startswith("sync_"):
        want = (1, 1) if allss else (0, 0)
    else:
        want = (0, 0)
    if val != want:
        return "%s::%s<K=%s, N=%s, E=%s> is (Send=%d, Sync=%d); the property requires (%d, %d)  [SS=Send+Sync, SO=Send only, YO=Sync only, NN=neither]" % (
            fl, t, k, n, e, val[0], val[1], want[0], want[1])
    return None


def replay_program(key):
    fl, t, k, n, e = key
    return ("// add to a crate depending on gdsl; type aliases as in the probe (SS = Send+Sync payload, SO = Cell-like, YO = MutexGuard-like, NN = Rc-like)\n"
            "fn needs_send<T: Send>() {} fn needs_sync<T: Sync>() {}\n"
            "fn main() { needs_send::<gdsl::%s::%s<%s, %s, %s>>(); needs_sync::<gdsl::%s::%s<%s, %s, %s>>(); }\n" % (fl, t, k, n, e, fl, t, k, n, e))
