#!/usr/bin/env python3
# regenerates /verif/MANIFEST.json from the table below (single source of truth for what is claimed)
import json, os, subprocess

VERIF = os.path.dirname(os.path.dirname(os.path.abspath(__file__)))

NOTE = ("Trusted: Coq 8.16.1 kernel; extraction with ExtrOcamlBasic only + OCaml 4.13.1; hand-written OCaml driver and Rust harness "
        "(parsers/printers/watchdog); the generators. The model is hand-written from the source (not translated); its tie to /repo's "
        "working tree is the differential correspondence run by this check (exact equality of complete observations on the enumerated "
        "and sampled cases reported in the evidence). Rc/Arc/RefCell/RwLock, ahash, serde codecs and rustc are outside the model. "
        "See DESIGN.md section 7.")

CLAIMED = {
    "C01": dict(text="Theorems (coq/props/C01.v): after every history of new/connect/try_connect/disconnect/isolate with distinct keys, and after every "
                     "prefix, no call panicked and out-lists and in-lists mirror each other pair by pair as LISTS (multiplicity and order); degree/root/leaf and "
                     "lookup corollaries. Proved by induction over histories from per-operation preservation lemmas. Tied to digraph and sync_digraph by "
                     "exhaustive (state, operation) enumeration and seeded random histories.",
                tech="Coq proof: invariant by induction over operation histories + differential correspondence (extracted model vs implementation)", ref="DESIGN.md §5 C01"),
    "C02": dict(text="Theorems (coq/props/C02.v): same invariant for the undirected operations (half-edge mirror), hence symmetric adjacency as multisets "
                     "(Permutation), equal is_connected from both ends, degree = out halves + in halves; for all histories and prefixes. Tied to ungraph and sync_ungraph.",
                tech="Coq proof: invariant by induction over operation histories + differential correspondence", ref="DESIGN.md §5 C02"),
    "C03": dict(text="Theorems (coq/props/C03.v): per-operation refinement to the multigraph contract for every heap satisfying the invariant and every operand "
                     "(u = v included): connect appends exactly one edge last; try_connect iff no edge yet; disconnect removes exactly one edge at both ends and returns its "
                     "value or fails and changes nothing; isolate leaves every list = old list filtered of the node; no panic, position loops terminate within their fuel. "
                     "Handle independence and absence of self-deadlock rest on the correspondence (all four flavours, watchdog/lock probe).",
                tech="Coq proof: refinement of each operation to its contract + differential correspondence on all four flavours", ref="DESIGN.md §5 C03"),
    "C04": dict(text="Theorems (coq/props/C04.v) about the worklist machine with the FIFO queue, for every heap with valid ids and distinct keys, every direction "
                     "(plain, transpose(), undirected), every root/target and every pure filter: returned path is a chain of accepted stored edges from the root to the "
                     "target (sound), None only if the target is unreachable through accepted edges (complete), no accepted path is shorter (shortest), search() agrees with "
                     "search_path(), fuel_bound suffices, no panic. Tied to the four flavours by exhaustive small multigraphs x all options and seeded random graphs.",
                tech="Coq proof: loop invariants of the worklist machine, BFS level argument, backtrack correctness + differential correspondence", ref="DESIGN.md §5 C04"),
    "C05": dict(text="Theorems (coq/props/C05.v) about the recursive machine: dfs search_path is sound (chain of accepted stored edges root->target, no node twice), "
                     "complete, agrees with search(), terminates within fuel_bound, never panics; any direction, any pure filter.",
                tech="Coq proof: big-step Run relation for `descend`, invariants by induction + differential correspondence", ref="DESIGN.md §5 C05"),
    "C07": dict(text="Theorems (coq/props/C07.v): for bfs/pfs/dfs/preorder/postorder without target the recording closure is handed exactly the adjacency entries of the "
                     "reachable nodes, each once (Permutation of the trace), with true endpoints and values; with a pure filter only accepted edges are recorded and the "
                     "visited set is exactly the set reachable through accepted edges.",
                tech="Coq proof: trace = concatenation of the expanded nodes' adjacency lists, by machine invariants + differential correspondence (exact closure traces)", ref="DESIGN.md §5 C07"),
    "C08": dict(text="Theorems (coq/props/C08.v): simulation — every machine reads the heap only through the node table and the adjacency function of its direction, hence a "
                     "search/cycle search/ordering with transpose() equals the same call on the edge-reversed heap (result, recorded edges, closure trace), and without "
                     "transpose() the result is independent of the incoming tables; for all kinds, entry points, targets and pure callbacks.",
                tech="Coq proof: state simulation by induction on fuel + differential correspondence incl. explicit reversed graphs", ref="DESIGN.md §5 C08"),
    "C09": dict(text="Theorems (coq/props/C09.v): search_cycle (bfs, pfs-min/max, dfs; any direction) returns a non-empty chain of accepted stored edges from the root back to "
                     "the root with pairwise distinct targets, returns None only if no such closed path exists, the bfs cycle is shortest, and backtracking never panics.",
                tech="Coq proof: cycle mode = path mode with the root unvisited; RootLast + backtrack correctness + differential correspondence", ref="DESIGN.md §5 C09"),
    "C10": dict(text="Theorems (coq/props/C10.v): preorder/postorder search_edges/search_nodes are the discovery/finishing order of one depth-first traversal in the sense of "
                     "the inductive relation DfsKids (nondeterministic in successor order), visit exactly the reachable set once, root first/last, one accepted edge entering "
                     "each reachable non-root node; post_edge_order: for an edge u->v, v finishes before u unless u is reachable from v.",
                tech="Coq proof: refinement of `descend` to the DfsKids relation + differential correspondence with an exact some-DFS-produces-this oracle on small graphs", ref="DESIGN.md §5 C10"),
    "C16": dict(text="Theorems (coq/props/C16.v) over declarations REGENERATED from the source on every run by tools/rs2coq_types.py: for all 64 (Send,Sync)-classes "
                     "of (K,N,E), Node/Edge/Graph of sync_digraph and sync_ungraph are Send (resp. Sync) exactly when K,N,E are all Send+Sync, and the plain types never; "
                     "the solver's tables are fixpoints of rustc's structural auto-trait equations; every `unsafe impl Send/Sync` claims only what the structural rule derives from the fields "
                     "once the explicit impls are stripped (soundness of the unsafe impl). Translator and rule table are validated every run against rustc's own "
                     "trait solver on all 768 rows (generated probe crate, incl. generic positive obligations).",
                tech="Coq proof over a model regenerated by a translator (case analysis + vm_compute) + exhaustive trait-table comparison with rustc", ref="DESIGN.md §5 C16",
                note="Trusted: Coq kernel (vm_compute), the translator rs2coq_types.py and the auto-trait rule table of model/AutoTraits.v (both validated against rustc on 768 rows each "
                     "run, not proved), rustc's Send/Sync contract for the final step from trait bits to absence of unsynchronised access. See DESIGN.md section 7."),
    "C06": dict(text="Theorems (coq/props/C06.v): the worklist machine run with an exact transcription of std's BinaryHeap: whenever a node is popped for expansion, no "
                     "discovered-and-unexpanded node has a strictly smaller (larger for max) value; the frontier is exactly the discovered unexpanded nodes; the heap "
                     "transcription is PROVED to keep the heap order and to be a multiset queue; path soundness/completeness, search() agreement, termination; node "
                     "comparison = value comparison, node equality = key equality. Tied to the four flavours incl. exact tie-breaking order of equal priorities.",
                tech="Coq proof: heap-order invariant of the BinaryHeap transcription threaded through the worklist machine (instrumented + erasure) + differential correspondence", ref="DESIGN.md §5 C06"),
    "C11": dict(text="Theorem scc_correct (coq/props/C11.v): for every heap with the mirror invariant, every container closed under adjacency and EVERY iteration order of its "
                     "hash map, scc() returns a partition of the members into non-empty components in which two nodes share a component exactly when each reaches the other; "
                     "order independence as a corollary; termination within fuel_bound. Tied to digraph/sync_digraph with the observed iteration order as model input "
                     "(identical component lists), all digraphs on <=3 (thorough: 4) nodes in several containers, random up to 30 nodes.",
                tech="Coq proof of Kosaraju's algorithm over the DFS-run relation (leader invariant) + differential correspondence given the observed container order", ref="DESIGN.md §5 C11"),
    "C12": dict(text="Known finding (KNOWN_FINDINGS.txt): a container that is not closed under adjacency does not round-trip; the theorems carry the closure hypothesis. Theorems (coq/props/C12.v): decompose;rebuild returns a graph with the same keys and node values and, per node, the same outgoing (target key, value) list "
                     "in the same order (directed) / the same multiset of incident half-edges (undirected), for every container order; result satisfies the invariants. "
                     "The JSON/CBOR codecs themselves are outside the model; the correspondence runs real serde_json and serde_cbor round trips.",
                tech="Coq proof: list-level refinement of decompose/rebuild + differential correspondence on real JSON and CBOR round trips", ref="DESIGN.md §5 C12"),
    "C13": dict(text="Theorems (coq/props/C13.v): deserialize is total into {error, graph}; a graph result satisfies the invariants, has exactly the declared keys (first value "
                     "wins) and exactly the listed edges in order; an error results exactly when an edge names an undeclared key (or the document is ill-typed). Panics/hangs "
                     "inside serde_json/serde_cbor on arbitrary bytes are outside the model: exercised only (byte mutations, watchdog).",
                tech="Coq proof: totality and invariants of decode_doc;rebuild + differential correspondence on structurally mutated documents (JSON and CBOR)", ref="DESIGN.md §5 C13"),
    "C14": dict(text="Theorems (coq/props/C14.v): macro_build (the transcriber of all four forms) yields exactly the listed nodes/values and per node the listed edges in listed "
                     "order when keys are distinct and listed, and panics naming the first missing key otherwise. Tied to the four macros x four forms + helper macros by a "
                     "generated program compiled against the working tree (expansion itself is rustc's).",
                tech="Coq proof (macro_build = rebuild on the listed items) + generated probe crate compiled against the working tree", ref="DESIGN.md §5 C14"),
    "C18": dict(text="Theorems (coq/props/C18.v): the container refines a finite map key -> node identity: insert/get/index/contains/len/is_empty/remove; to_vec/iter hand out "
                     "exactly the bound nodes (Permutation, any hash order); roots/leaves/orphans are the members filtered by the C01/C02 predicates; DOT exports contain exactly "
                     "one node statement per member and one edge statement per iterated edge with the callbacks' attributes.",
                tech="Coq proof: refinement to an association-list map, permutation lemmas for order-dependent views + differential correspondence given the observed order", ref="DESIGN.md §5 C18"),
    "C19": dict(text="Theorems (coq/props/C19.v) about the ownership structure read off the source (node handles, edges, paths, result vectors and containers hold nodes "
                     "strongly; adjacency entries weakly): for every legal history no node value is released twice, none while any live object holds its node, a drop releases "
                     "exactly the nodes whose strong count reaches zero, and after all objects are dropped exactly the nodes ever held are released (cycles, self-loops, "
                     "still-connected structures included); adjacency changes never affect ownership; an Edge / Path / container owns the nodes it mentions (API layer of the model), "
                     "any object keeps its nodes unreleased, container insert / remove release nothing. Validated by drop-logging payloads on all four flavours after every step.",
                tech="Coq proof: invariant over ownership histories + differential correspondence with drop-counting node values", ref="DESIGN.md §5 C19"),
    "C20": dict(text="Theorems (coq/props/C20.v) for ARBITRARY heap-changing callbacks: every edge an edge loop or traversal yields is an entry of the current heap at that moment; "
                     "backtracking never panics; operations run from inside a closure keep the mirror invariant and never panic; an edge loop terminates once the closure stops "
                     "lengthening the walked list; every search and ordering terminates once the closure stops adding edges and nodes (growth budget on the closure state, explicit fuel). That the implementation's "
                     "iterators hold no borrow/lock across the body is checked by the correspondence: every single operation injected at every invocation index of every loop "
                     "kind on small graphs, plus container operations / nested searches / comparisons / sizeof called from inside the closure, edge loops driven through five "
                     "consumers of the Iterator protocol (for, map+collect, extend, explicit next()+size_hint(), chain), all four flavours, RefCell panics / lock probe (guard gdsl_verif) / watchdog.",
                tech="Coq proof: preservation lemma family for the machines under arbitrary callbacks + instrumented-log erasure + differential correspondence with scripted closures", ref="DESIGN.md §5 C20"),
    "C15": dict(text="The model has one set of definitions per flavour class and every correspondence run compares BOTH twins with it; C15's own check runs the union of all case "
                     "families (node histories, all searches/orderings with all options, containers, scc, serde, ownership, scripted closures, comparisons) on each plain "
                     "flavour and its sync twin, requires both to equal the model (hence each other), and compiles one program text against each twin. The Coq content "
                     "specific to C15 is small (coq/props/C15.v: twins_agree, Edge comparison traits); the assurance is carried by the correspondence, as DESIGN.md says.",
                tech="differential correspondence of both twins against one Coq model (+ small Coq lemmas on Edge comparison) and a twin compile/run probe", ref="DESIGN.md §5 C15"),
    "C17": dict(text="EXPLICITLY PARTIAL. Theorems (coq/props/C17.v) for every heap, every number of threads and every program over the micro-step model of the sync operations: a "
                     "thread holds at most one guard; no reachable configuration is deadlocked; programs without isolate never panic or poison a lock; connect/try_connect/query "
                     "programs mirror as multisets at quiescence; the explicit-guard and atomic semantics agree; single-connect threads whose connects form a forest over the adjacency lists are serialisable (unbounded; order of every list included). The full property (no panic, serialisable) is REFUTED in the "
                     "faithful model by six concrete schedules, each reproduced on real threads: mutations are two or more separately locked critical sections (D11) -> eight "
                     "known-finding classes. The check replays the model's schedules of ~1.6k small scenarios (thorough: all schedules of all 2-thread single-call scenarios on 2 "
                     "nodes) on real threads under a cooperative scheduler at lock points (hook gdsl_verif), plus free-running stress; a hang, deadlock, guard held at a lock point, "
                     "or a panic / non-serialisable outcome outside the listed classes is a VIOLATION.",
                tech="Coq proof (lock discipline, deadlock freedom, restricted panic freedom and quiescent mirror; refutations by vm_compute) + schedule exploration by the model replayed on real threads",
                ref="DESIGN.md §5 C17, §10.3",
                note="Trusted: Coq kernel; the cooperative scheduler and the lock-point hook (try_read/try_write probe taken while all other scheduled threads are parked); the hand-written "
                     "micro-step model of each call (validated schedule by schedule against real threads). Not modelled: OS-level fairness, the futex RwLock's writer preference (only the "
                     "free-running stress exhibits it), memory-model effects; concurrent traversals are represented by edge-iteration loops. Known findings: KNOWN_FINDINGS.txt (D11)."),
}

PENDING = {
    "C04": "search channel is built and its correspondence runs (./check C04) but the theorems are still being proved; not yet claimed",
    "C05": "search channel built; theorems in progress; not yet claimed",
    "C06": "search channel built; theorems in progress; not yet claimed",
    "C07": "search channel built; theorems in progress; not yet claimed",
    "C08": "search channel built; theorems in progress; not yet claimed",
    "C09": "search channel built; theorems in progress; not yet claimed",
    "C10": "search channel built; theorems in progress; not yet claimed",
    "C11": "not built yet",
    "C12": "not built yet",
    "C13": "not built yet",
    "C14": "not built yet",
    "C15": "not built yet",
    "C16": "not built yet",
    "C17": "not built yet",
    "C18": "not built yet",
    "C19": "not built yet",
    "C20": "not built yet",
}


def main():
    hooks_commits = []
    p = os.path.join(VERIF, "HOOK_COMMITS.txt")
    if os.path.exists(p):
        hooks_commits = [l.split()[0] for l in open(p) if l.strip() and not l.startswith("#")]
    checks = []
    for pid in sorted(CLAIMED):
        c = CLAIMED[pid]
        checks.append({
            "property_id": pid,
            "quick_cmd": "./check %s --tier quick" % pid,
            "thorough_cmd": "./check %s --tier thorough" % pid,
            "evidence_file": "evidence/%s.json" % pid,
            "replay_cmd_template": "./check %s --replay {path}" % pid,
            "engine": "coq-model",
            "level_claimed": {"category": "proof", "text": c["text"], "design_ref": c["ref"]},
            "level_note": c.get("note", NOTE),
            "technique": c["tech"],
        })
    man = {
        "version": 1,
        "setup_cmd": "./setup.sh",
        "hooks": {
            "guard": "gdsl_verif",
            "enable": "RUSTFLAGS=\"--cfg gdsl_verif --check-cfg cfg(gdsl_verif)\" (set by ./check when it builds harness/ against /repo)",
            "baseline_off_cmd": "cd /repo && cargo test --workspace --no-fail-fast --offline",
            "source_commits": hooks_commits,
            "add_only": True,
        },
        "engines": [
            {"name": "coq-model", "path": "coq/", "serves_properties": sorted(CLAIMED),
             "kind_free_text": "hand-written Gallina model (coq/model), theorems (coq/proofs, pinned in coq/props), Coq 8.16.1; extracted to OCaml (ocaml/driver.ml) for the correspondence"},
            {"name": "harness", "path": "harness/", "serves_properties": sorted(CLAIMED),
             "kind_free_text": "Rust crate (path dependency on /repo, built with --cfg gdsl_verif) running the shared case files on the four flavours"},
        ],
        "checks": checks,
        "not_applicable": [{"property_id": k, "reason": v} for k, v in sorted(PENDING.items()) if k not in CLAIMED],
        "notes": "All checks: ./check <id> [--tier quick|thorough] [--replay file]. Known findings and repaired defects: KNOWN_FINDINGS.txt. Design: DESIGN.md.",
    }
    with open(os.path.join(VERIF, "MANIFEST.json"), "w") as f:
        json.dump(man, f, indent=1)


if __name__ == "__main__":
    main()
