#!/usr/bin/env python3
# pin.py <Cxx> — (re)generate coq/props/<Cxx>.v from tools/pins/<Cxx>.py:
#   HEADER   : comment text at the top of the file
#   REQUIRES : list of Coq `From .. Require Import ..` lines
#   PINS     : list of (pinned_name, lemma_name, comment)
#   EXTRA    : optional Coq text appended (non-vacuity Examples)
# The statement of every lemma is obtained with `Check` and written out IN FULL in the props file, so the
# property theorems are pinned text: if a lemma in coq/proofs is later weakened, `exact` no longer type-checks.
import os, re, subprocess, sys, importlib.util

VERIF = os.path.dirname(os.path.dirname(os.path.abspath(__file__)))
COQ = os.path.join(VERIF, "coq")


def main():
    prop = sys.argv[1]
    spec = importlib.util.spec_from_file_location("pins", os.path.join(VERIF, "tools", "pins", prop + ".py"))
    m = importlib.util.module_from_spec(spec)
    spec.loader.exec_module(m)
    req = "\n".join(m.REQUIRES)
    tmp = "/tmp/pin_%s.v" % prop
    with open(tmp, "w") as f:
        f.write(req + "\nSet Printing Width 110.\n")
        for (_, lemma, _) in m.PINS:
            f.write('Check %s.\n' % lemma)
    p = subprocess.run("coqc -q -Q model Gdsl.Model -Q proofs Gdsl.Proofs -Q gen Gdsl.Gen %s" % tmp, shell=True, cwd=COQ,
                       stdout=subprocess.PIPE, stderr=subprocess.STDOUT, text=True)
    if p.returncode != 0:
        print(p.stdout)
        sys.exit(1)
    out = p.stdout
    # split on lines that start a new Check answer: "<name>\n     : ..."
    blocks = {}
    cur = None
    for line in out.splitlines():
        mm = re.match(r"^([\w']+)$", line)
        if mm and mm.group(1) in [l for (_, l, _) in m.PINS]:
            cur = mm.group(1)
            blocks[cur] = []
        elif cur is not None:
            blocks[cur].append(line)
    txt = ["(* %s *)" % m.HEADER.strip().replace("*)", "* )"), req, ""]
    for (name, lemma, comment) in m.PINS:
        body = "\n".join(blocks[lemma])
        body = re.sub(r"^\s*:\s*", "", body, count=1)
        txt.append("(* %s *)" % comment.strip().replace("*)", "* )"))
        txt.append("Theorem %s :\n  %s.\nProof. exact %s. Qed.\nPrint Assumptions %s.\n" % (name, body.strip(), lemma, name))
    txt.append(getattr(m, "EXTRA", ""))
    with open(os.path.join(COQ, "props", prop + ".v"), "w") as f:
        f.write("\n".join(txt))
    print("wrote props/%s.v with %d pinned theorems" % (prop, len(m.PINS)))


if __name__ == "__main__":
    main()
