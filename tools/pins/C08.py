HEADER = """C08 — transpose() searches the edge-reversed graph.
   Model: coq/model/Search.v. transpose() is the direction DIn (walk ins h u, a stored edge w->u is handed out as
   Edge(u, w, e)); no transpose is DOut. rev_heap swaps the two adjacency tables. The machines read the heap only
   through the node table and adj_of h d (HeapSim), so a transposed run on h IS the plain run on rev_heap h — same
   result, same recorded edges, same closure trace — for every kind {bfs, dfs, pfs-min, pfs-max}, every entry point
   {search, search_path, search_cycle, search_nodes, search_edges}, every target and every pure callback (CbAgree;
   mk_cb_agree: the harness's filters/recorders qualify). Without transpose() the result does not depend on `ins`."""
REQUIRES = ["From Gdsl.Model Require Import Spec Callback.", "From Gdsl.Proofs Require Import Transpose."]
PINS = [
 ("c08_simulation", "run_search_sim", "the machines depend on the heap only through nodes and the adjacency function of the chosen direction: same status, tree, visited set and callback state"),
 ("c08_transpose_is_reverse", "transpose_is_reverse", "DIn on h looks exactly like DOut on the reversed heap (and vice versa)"),
 ("c08_transposed_search_path", "transposed_search_path", "search_path / search_cycle with transpose() = the same call on the reversed graph"),
 ("c08_transposed_search", "transposed_search_find", "search with transpose() = search on the reversed graph"),
 ("c08_transposed_order_edges", "transposed_order_edges", "preorder/postorder search_edges with transpose()"),
 ("c08_transposed_order_nodes", "transposed_order_nodes", "preorder/postorder search_nodes with transpose()"),
 ("c08_untransposed_ignores_ins", "untransposed_search_path", "without transpose() no incoming edge is ever followed: the result is a function of nodes and outs alone"),
 ("c08_untransposed_search", "untransposed_search_find", "same for search()"),
 ("c08_order_sim", "order_sim", "orderings depend only on nodes and the chosen adjacency (covers the untransposed orderings)"),
 ("c08_recorder_filter_callbacks_agree", "mk_cb_agree", "the ForEach recorder and the pure Filter callbacks used by the correspondence satisfy the callback hypothesis"),
]
EXTRA = """
Example c08_nonvacuous :
  let ops : list (op nat nat nat) := [ONew 0 0; ONew 1 0; ONew 2 0; OConnect 0 1 10; OConnect 1 2 11; OConnect 2 2 12] in
  let h := fst (run_d Nat.eqb ops) in
  let cb := (fun (c : unit) (h' : heap nat nat nat) (_ : edge nat) => (c, h', true)) in
  snd (search_path Nat.eqb cb Nat.leb KDfs DIn 100 h tt 2 (Some 0) false) = RPath [(2, 1, 11); (1, 0, 10)] /\\
  snd (search_path Nat.eqb cb Nat.leb KDfs DOut 100 (rev_heap h) tt 2 (Some 0) false) = RPath [(2, 1, 11); (1, 0, 10)] /\\
  snd (search_path Nat.eqb cb Nat.leb KDfs DOut 100 h tt 2 (Some 0) false) = RNone nat.
Proof. vm_compute. auto. Qed.
"""
