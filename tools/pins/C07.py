HEADER = """C07 — Traversal callbacks see every reachable edge once; filters exclude.
   Model: coq/model/Search.v + coq/model/Callback.v. `mk_cb step false pred []` is Method::ForEach with a closure that
   records every edge it is handed (c_trace, newest first) and runs no operations. Filters: every soundness theorem
   of C04/C05/C09/C10 is stated for an arbitrary pure `accept` and concludes IsPath/good_edge, i.e. every returned
   edge satisfies accept, and reachability is Reach in the graph of accepted edges only; the *_exhaustive theorems
   say the visited set is exactly that reachable set."""
REQUIRES = ["From Gdsl.Model Require Import Spec Callback SearchFind.", "From Gdsl.Proofs Require Import Worklist Descend Order SearchGlue SearchFindProof."]
PINS = [
 ("c07_foreach_once_bfs_pfs", "wlq_foreach_once", "breadth-/priority-first without target: the closure is handed exactly the adjacency entries of the reachable nodes, each once (Permutation), oriented from the expanded node, with stored values"),
 ("c07_foreach_once_dfs", "dfs_foreach_once", "depth-first without target: same"),
 ("c07_foreach_once_orderings", "descend_foreach_once", "preorder and postorder: same"),
 ("c07_search_entry_point_same_closure_calls", "find_machine_agrees", "the search() entry points run separate loops in the code (model/SearchFind.v); for EVERY closure they end with the same callback state — hence hand the closure exactly the same edges in the same order — and the same visited set as search_path(), so the statements above and below hold for search() too"),
 ("c07_filter_bfs_pfs", "wlq_exhaustive", "with a pure filter: the recorded tree consists of accepted edges only and the visited nodes are exactly those reachable through accepted edges"),
 ("c07_filter_dfs", "dfs_exhaustive", "depth-first: same"),
 ("c07_filter_orderings", "order_edges_tree", "orderings: only accepted edges, exactly the nodes reachable through accepted edges"),
 ("c07_filter_path_bfs_pfs", "wlq_path_sound", "with a target: every edge of a returned breadth-/priority-first path is an accepted stored edge (IsPath = chain of good_edge)"),
 ("c07_filter_path_dfs", "dfs_path_sound", "depth-first path: same"),
 ("c07_filter_unreachable_bfs_pfs", "wlq_path_complete", "None only if the target is unreachable in the graph of ACCEPTED edges (reachability is decided there only)"),
 ("c07_filter_unreachable_dfs", "dfs_path_complete", "depth-first: same"),
 ("c07_filter_cycle_bfs_pfs", "wlq_cycle_sound", "every edge of a returned cycle is an accepted stored edge"),
 ("c07_filter_cycle_dfs", "dfs_cycle_sound", "depth-first cycle: same"),
]
