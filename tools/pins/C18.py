HEADER = """C18 — Graph containers behave as key-to-node maps with faithful views.
   Model: coq/model/Container.v: the container is an association list key -> allocation id (g_get is the lookup); its
   hash-map iteration order is an external input `order` (any permutation of the bound keys, OrderOK). Node identity is
   the allocation id, so "hands out the inserted nodes themselves" is: lookups return the id that was inserted. The same
   definitions serve the four flavours (directed := true/false only selects what `for edge in node` iterates)."""
REQUIRES = ["From Gdsl.Model Require Import Spec Container.", "From Gdsl.Proofs Require Import ContainerProof."]
PINS = [
 ("c18_lookup", "g_get_in", "get/index/contains are lookups in the binding list"),
 ("c18_contains", "g_contains_spec", "contains(k) iff k is bound"),
 ("c18_insert", "g_insert_spec", "insert: false and nothing changes when the key is present (the original stays); otherwise the node itself is bound to its key and every other binding is unchanged"),
 ("c18_remove", "g_remove_spec", "remove returns the bound node (or None), unbinds exactly that key, len decreases accordingly"),
 ("c18_len", "g_len_spec", "len = number of bindings; is_empty iff none"),
 ("c18_observed_order_is_tested", "order_okb_sound", "the hypothesis OrderOK of the view theorems below is not assumed of the implementation: every iteration order observed on the real container is tested with order_okb (duplicate-free, as long as the binding list, every key bound) before the model uses it, and the test is sound"),
 ("c18_iter_to_vec", "g_iter_perm", "to_vec/iter hand out exactly the bound nodes, each once, in the container's order"),
 ("c18_roots_leaves_orphans", "g_views_perm", "roots/leaves/orphans are exactly the members without incoming / without outgoing / without any edge"),
 ("c18_to_dot", "g_to_dot_perm", "to_dot: one node statement per member and one edge statement per edge obtained by iterating the members"),
 ("c18_to_dot_with_attr", "g_to_dot_attr_perm", "to_dot_with_attr: graph attributes, one node statement per member, one edge statement per iterated edge, with the attributes the callbacks supply"),
]
