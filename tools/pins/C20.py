HEADER = """C20 — Graphs may be mutated from inside edge loops and traversal callbacks.
   Model: coq/model/Search.v: `edge_loop` (a manual `for e in node.iter_*()` loop) and the traversal machines re-read the heap
   BY POSITION at every step (the code's iterators hold a node and a position, no borrow or lock across the body) and thread
   an ARBITRARY callback that may return a changed heap. All theorems below are for arbitrary callbacks (no purity
   assumption) unless stated. `logcb cb` (coq/model/Mutation.v) is cb instrumented to log (heap at the call, edge handed
   out); the *_log_erase theorems show the instrumentation does not change the run. `mk_cb step .. script` (Callback.v) is
   the closure the correspondence uses: it executes scripted node operations at given invocation indices; the driver wraps
   it (ocaml/driver.ml wrap_cb) to also run container operations, nested searches / loops / orderings, comparisons and sizeof
   from inside the closure — one more instance of "arbitrary callback". Handles stay valid
   by construction: allocation ids are never reused or removed from the heap. That the implementation's iterators really hold
   no borrow/lock across the body is what the correspondence checks (RefCell panics / lock probe / watchdog)."""
REQUIRES = ["From Gdsl.Model Require Import Spec Callback Mutation.", "From Gdsl.Proofs Require Import MutationProof MutationBudget ConcProof.", "From Gdsl.Model Require Import Conc."]
PINS = [
 ("c20_edge_loop_log_erase", "edge_loop_log_erase", "instrumenting the callback does not change an edge loop"),
 ("c20_traversal_log_erase", "run_search_log_erase", "... nor a search"),
 ("c20_order_log_erase", "order_log_erase", "... nor an ordering"),
 ("c20_edge_loop_yields_exist", "edge_loop_yields_exist", "every edge a plain edge loop yields is, at the moment it is yielded, an entry of the walked node's list in the current heap, with its stored value"),
 ("c20_traversal_yields_exist", "traversal_yields_exist", "every edge a search hands to the closure is, at that moment, an adjacency entry of its source in the current heap"),
 ("c20_order_yields_exist", "order_yields_exist", "same for orderings"),
 ("c20_search_never_panics", "search_never_panics", "whatever the closure does to the graph, backtracking never panics"),
 ("c20_no_guard_held_between_critical_sections", "one_guard_per_thread", "sync flavours, micro-step model (Conc.v): a thread holds at most one guard and only inside the critical section it is parked at — in particular none while a closure body or loop body runs between two `next()` calls, so an operation called from there never waits for a guard of its own thread (checked on the real code by the lock-point hook at every acquisition)"),
 ("c20_script_keeps_invariant_directed", "mk_cb_inv_d", "operations executed from inside a closure keep the mirror invariant and none of them panics (directed)"),
 ("c20_script_keeps_invariant_undirected", "mk_cb_inv_u", "same (undirected)"),
 ("c20_invariant_after_loop", "traversal_inv", "if the closure keeps the invariant, it holds after every search, ordering and edge loop"),
 ("c20_edge_loop_terminates", "edge_loop_terminates", "an edge loop ends (within len - pos steps) once the closure no longer lengthens the walked list"),
 ("c20_traversal_terminates", "traversal_terminates", "a search terminates (fuel_bound suffices) when the closure adds neither nodes nor edges — it may remove them"),
 ("c20_order_terminates", "order_terminates", "same for orderings"),
 ("c20_edge_loop_terminates_once_growth_stops", "edge_loop_terminates_budget", "\"terminates once the closure stops adding edges\", in full: the closure may lengthen the walked list as long as a budget on its own state lasts (at most g entries per unit spent); the loop then ends within len - pos + g * budget steps. Subsumes the previous statement (budget 0)"),
 ("c20_traversal_terminates_once_growth_stops", "traversal_terminates_budget", "the same for every search (all kinds, directions, target / cycle): the closure may add edges AND allocate nodes while its budget lasts; an explicit fuel computed from the initial heap, g, gn and the budget suffices"),
 ("c20_order_terminates_once_growth_stops", "order_terminates_budget", "the same for the orderings"),
 ("c20_growing_closure_meets_budget", "add_first_budget", "non-vacuity: the closure add_first (duplicates the edge it is handed on its first c invocations, then stops) meets the budget hypotheses with budget = its counter, g = 2"),
 ("c20_growing_closure_excluded_before", "add_first_grows", "... and it does lengthen a list, so the budget-free statements above did not cover it"),
 ("c20_growing_closure_run", "run_add_first_bfs", "... and an actual run with exactly the fuel of the theorem: the search ends (Exhausted), the closure used up its budget, the degrees grew from [(1,1);(1,1)] to [(3,1);(1,3)]"),
]
