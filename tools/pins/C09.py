HEADER = """C09 — search_cycle returns a genuine cycle through the root iff one exists.
   Model: coq/model/Search.v, entry point search_path with cycle = true (root not pre-visited, target := the
   root's key), kinds KBfs / KPfsMin / KPfsMax (worklist machine) and KDfs (recursive machine), any direction.
   Directed: IsPath root p root with p non-empty = a path of one or more accepted stored edges from the root back
   to it; NoDup of the targets = no intermediate node twice (hence no edge occurrence twice: the root is entered by
   the last edge only). Undirected (d = DAdj): the same statement reads "a closed walk of accepted half-edges"."""
REQUIRES = ["From Gdsl.Model Require Import Spec Callback.", "From Gdsl.Proofs Require Import Worklist Bfs Descend SearchGlue CycleUndirected."]
PINS = [
 ("c09_cycle_sound_bfs_pfs", "wlq_cycle_sound", "breadth-/priority-first: a returned cycle starts and ends at the root, consists of accepted stored edges joined end to start, and its targets are pairwise distinct"),
 ("c09_cycle_complete_bfs_pfs", "wlq_cycle_complete", "breadth-/priority-first: None only if no path of one or more accepted edges leads from the root back to it"),
 ("c09_cycle_sound_dfs", "dfs_cycle_sound", "depth-first: same soundness"),
 ("c09_cycle_complete_dfs", "dfs_cycle_complete", "depth-first: same completeness"),
 ("c09_bfs_cycle_shortest", "bfs_cycle_shortest", "the breadth-first cycle has the fewest possible edges"),
 ("c09_no_panic_bfs_pfs", "wlq_no_panic", "never the unwrap() panic of backtrack_edge_tree"),
 ("c09_terminates_bfs_pfs", "wlq_terminates", "fuel_bound suffices, also in cycle mode (cyc = true): the search terminates"),
 ("c09_terminates_dfs", "dfs_terminates", "depth-first: same"),
 ("c09_undirected_cycle_iff_incident", "undirected_cycle_iff_incident", "undirected, without a filter, on a graph whose half-edges are mirrored (C02): search_cycle of every kind returns a cycle exactly when the root has an incident edge"),
 ("c09_no_panic_dfs", "dfs_no_panic", "never the unwrap() panic of backtrack_edge_tree (depth-first)"),
]
EXTRA = """
(* non-vacuity, including the closing self-loop that used to be returned twice (D3) *)
Example c09_nonvacuous :
  let ops : list (op nat nat nat) :=
    [ONew 0 0; ONew 1 0; ONew 2 0; OConnect 0 1 10; OConnect 0 0 11; OConnect 1 2 12; OConnect 2 0 13] in
  let h := fst (run_d Nat.eqb ops) in
  let cb := (fun (c : unit) h' (_ : edge nat) => (c, h', true)) in
  snd (search_path Nat.eqb cb Nat.leb KBfs DOut 100 h tt 0 None true) = RPath [(0, 0, 11)] /\\
  snd (search_path Nat.eqb cb Nat.leb KDfs DOut 100 h tt 0 None true) = RPath [(0, 1, 10); (1, 2, 12); (2, 0, 13)] /\\
  snd (search_path Nat.eqb cb Nat.leb KBfs DOut 100 h tt 1 None true) = RPath [(1, 2, 12); (2, 0, 13); (0, 1, 10)].
Proof. vm_compute. auto. Qed.
"""
