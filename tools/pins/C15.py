HEADER = """C15 — Sync flavours are drop-in replacements in single-threaded code.
   The model has ONE set of definitions per flavour class (directed / undirected): nothing in coq/model distinguishes plain
   from sync. Every correspondence run compares digraph AND sync_digraph (resp. ungraph AND sync_ungraph) with that single
   model, observation by observation; c15_twins_agree is the (trivial) step from there to the property. The theorems of all
   other properties therefore hold for both twins alike. C15's own check runs the union of all case families on both twins,
   diffs the twins directly, and compiles one program text against each twin. The only model content specific to C15 is the
   comparison traits of Edge, where the twins used to differ (D12)."""
REQUIRES = ["From Gdsl.Model Require Import Spec EdgeCmp.", "From Gdsl.Proofs Require Import TwinProof."]
PINS = [
 ("c15_twins_agree", "twins_agree", "two implementations that both agree with the model on every case agree with each other"),
 ("c15_edge_eq_directed", "edge_eqb_d_spec", "directed Edge equality is equality of both endpoints by key; the value is not compared"),
 ("c15_edge_order", "edge_cmp_spec", "Edge ordering is the ordering of the edge values (all flavours)"),
 ("c15_edge_reverse", "edge_reverse_spec", "Edge::reverse swaps the endpoints, keeps the value, and is an involution"),
 ("c15_edge_eq_undirected", "edge_eqb_u_spec", "undirected Edge equality is equality of the edge values"),
]
