HEADER = """C05 — Depth-first search finds a valid simple path iff one exists.
   Model: coq/model/Search.v (`descend` with post = false, entry points search_path / search_find with kind KDfs,
   any direction d: DOut (plain), DIn (transpose()), DAdj (undirected)). `accept` is an arbitrary pure filter;
   PureCb covers Method::Empty, ForEach(recorder) and Filter(pure f). Statements copied from `Check` of the lemmas."""
REQUIRES = ["From Gdsl.Model Require Import Spec Callback SearchFind.", "From Gdsl.Proofs Require Import Descend SearchFindProof."]
PINS = [
 ("c05_path_sound", "dfs_path_sound", "a returned path starts at the root, ends at the node carrying the target key, consists of accepted stored edges joined end to start, and visits no node twice"),
 ("c05_path_complete", "dfs_path_complete", "None is returned only if no node with the target key is reachable through accepted edges"),
 ("c05_search_agrees", "search_find'_agrees_dfs", "search() — the SEPARATELY transcribed find loops of the code (model/SearchFind.v: loop_*_find / recurse_*_find; for pfs `search_path().map(last_node)`) — returns the target node exactly when search_path() returns a path, and that node is where the path ends"),
 ("c05_find_loops_simulate_path_loops", "find_machine_agrees", "for EVERY callback (no purity needed), heap, root, target and fuel: the find machine ends with the same verdict, the same heap, the same callback state (hence the same closure trace) and the same visited set as the path machine"),
 ("c05_terminates", "dfs_terminates", "with fuel >= fuel_bound the machines never run out of fuel: the out-of-fuel outcome excluded above cannot occur"),
 ("c05_no_panic", "dfs_no_panic", "backtracking never hits the unwrap() on an empty tree"),
]
EXTRA = """
(* non-vacuity: a concrete graph 0->1, 0->0, 0->2, 1->3, 2->3, 2->0 ; dfs path from 0 to key 3 *)
Example c05_nonvacuous :
  let ops : list (op nat nat nat) :=
    [ONew 0 0; ONew 1 0; ONew 2 0; ONew 3 0; OConnect 0 1 10; OConnect 0 0 11; OConnect 0 2 12; OConnect 1 3 13; OConnect 2 3 14; OConnect 2 0 15] in
  let h := fst (run_d Nat.eqb ops) in
  snd (search_path Nat.eqb (fun (c : unit) h' (_ : edge nat) => (c, h', true)) Nat.leb KDfs DOut 100 h tt 0 (Some 3) false)
  = RPath [(0, 1, 10); (1, 3, 13)].
Proof. vm_compute. reflexivity. Qed.
"""
