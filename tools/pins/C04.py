HEADER = """C04 — Breadth-first search finds a shortest path iff one exists.
   Model: coq/model/Search.v (`wl_scan`/`wl_loop` with the FIFO queue, `backtrack`; entry points search_path /
   search_find with kind KBfs; any direction d: DOut, DIn (= transpose()), DAdj (undirected)). `accept` is an
   arbitrary pure filter; PureCb covers Method::Empty, ForEach(recorder) and Filter(pure f).
   The generic theorems are stated for every worklist kind k <> KDfs (bfs and both pfs modes); the queue
   hypothesis of coq/proofs/Worklist.v is discharged by StdHeap.stdheap_qspec in SearchGlue.v."""
REQUIRES = ["From Gdsl.Model Require Import Spec Callback PathApi SearchFind.", "From Gdsl.Proofs Require Import Worklist Bfs SearchGlue PathApiProof SearchFindProof."]
PINS = [
 ("c04_path_sound", "wlq_path_sound", "a returned path starts at the root, ends at the node carrying the target key, is made of accepted stored edges (with their stored values) joined end to start"),
 ("c04_path_complete", "wlq_path_complete", "None only if no node with the target key is reachable through accepted edges"),
 ("c04_path_shortest", "bfs_path_shortest", "no accepted path to the target has fewer edges than the returned one"),
 ("c04_search_agrees", "search_find'_agrees_bfs_pfs", "search() — the SEPARATELY transcribed find loops of the code (model/SearchFind.v: loop_*_find / recurse_*_find; for pfs `search_path().map(last_node)`) — returns the target node exactly when search_path() returns a path, and that node is where the path ends"),
 ("c04_find_loops_simulate_path_loops", "find_machine_agrees", "for EVERY callback (no purity needed), heap, root, target and fuel: the find machine ends with the same verdict, the same heap, the same callback state (hence the same closure trace) and the same visited set as the path machine"),
 ("c04_terminates", "wlq_terminates", "fuel_bound suffices: the out-of-fuel outcome cannot occur"),
 ("c04_no_panic", "wlq_no_panic", "backtracking never hits the unwrap() on an empty tree"),
 ("c04_path_iter_nodes", "p_iter_nodes_spec", "Path::iter_nodes / to_vec_nodes (a position-walking iterator) yields the source of the first edge followed by every edge's target"),
 ("c04_path_len", "p_len_counts_nodes", "Path::len is the number of nodes of a non-empty path"),
 ("c04_path_last_node", "p_last_node_is_end", "Path::last_node is the target of the last edge (what pfs search() returns)"),
 ("c04_path_first_node", "p_first_node_is_start", "Path::first_node is the node the path starts at: the source of the first edge, the first element of iter_nodes (with c04_bfs_sound: the root)"),
]
EXTRA = """
Example c04_nonvacuous :
  let ops : list (op nat nat nat) :=
    [ONew 0 0; ONew 1 0; ONew 2 0; ONew 3 0; OConnect 0 1 10; OConnect 0 0 11; OConnect 0 2 12; OConnect 1 2 13; OConnect 2 3 14; OConnect 2 0 15] in
  let h := fst (run_d Nat.eqb ops) in
  let cb := (fun (c : unit) h' (_ : edge nat) => (c, h', true)) in
  snd (search_path Nat.eqb cb Nat.leb KBfs DOut 100 h tt 0 (Some 3) false) = RPath [(0, 2, 12); (2, 3, 14)] /\\
  snd (search_path Nat.eqb cb Nat.leb KBfs DIn 100 h tt 3 (Some 1) false) = RPath [(3, 2, 14); (2, 1, 13)] /\\
  snd (search_path Nat.eqb cb Nat.leb KBfs DOut 100 h tt 3 (Some 1) false) = RNone nat.
Proof. vm_compute. auto. Qed.
"""
