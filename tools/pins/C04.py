HEADER = """C04 — Breadth-first search finds a shortest path iff one exists.
   Model: coq/model/Search.v (`wl_scan`/`wl_loop` with the FIFO queue, `backtrack`; entry points search_path /
   search_find with kind KBfs; any direction d: DOut, DIn (= transpose()), DAdj (undirected)). `accept` is an
   arbitrary pure filter; PureCb covers Method::Empty, ForEach(recorder) and Filter(pure f).
   The generic theorems are stated for every worklist kind k <> KDfs (bfs and both pfs modes); the queue
   hypothesis of coq/proofs/Worklist.v is discharged by StdHeap.stdheap_qspec in SearchGlue.v."""
REQUIRES = ["From Gdsl.Model Require Import Spec Callback PathApi SearchFind.", "From Gdsl.Proofs Require Import NodeD Glue Worklist Bfs SearchGlue PathApiProof SearchFindProof."]
PINS = [
 ("c04_path_sound", "wlq_path_sound", "a returned path starts at the root, ends at the node carrying the target key, is made of accepted stored edges (with their stored values) joined end to start"),
 ("c04_path_complete", "wlq_path_complete", "None only if no node with the target key is reachable through accepted edges"),
 ("c04_path_shortest", "bfs_path_shortest", "no accepted path to the target has fewer edges than the returned one"),
 ("c04_search_agrees", "search_find'_agrees_bfs_pfs", "search() — the SEPARATELY transcribed find loops of the code (model/SearchFind.v: loop_*_find / recurse_*_find; for pfs `search_path().map(last_node)`) — returns the target node exactly when search_path() returns a path, and that node is where the path ends"),
 ("c04_find_loops_simulate_path_loops", "find_machine_agrees", "for EVERY callback (no purity needed), heap, root, target and fuel: the find machine ends with the same verdict, the same heap, the same callback state (hence the same closure trace) and the same visited set as the path machine"),
 ("c04_terminates", "wlq_terminates", "fuel_bound suffices: the out-of-fuel outcome cannot occur"),
 ("c04_no_panic", "wlq_no_panic", "backtracking never hits the unwrap() on an empty tree"),
 ("c04_path_iter_nodes", "p_iter_nodes_spec", "Path::iter_nodes / to_vec_nodes (a position-walking iterator) yields the source of the first edge followed by every edge's target"),
 ("c04_path_len", "p_len_counts_nodes", "Path::len is the number of nodes of a non-empty path"),
 ("c04_path_last_node", "p_last_node_is_end", "Path::last_node is the target of the last edge (what pfs search() returns)"),
 ("c04_path_first_node", "p_first_node_is_start", "Path::first_node is the node the path starts at: the source of the first edge, the first element of iter_nodes (with c04_bfs_sound: the root)"),
]
EXTRA = """
Example c04_nonvacuous :
  let ops : list (op nat nat nat) :=
    [ONew 0 0; ONew 1 0; ONew 2 0; ONew 3 0; OConnect 0 1 10; OConnect 0 0 11; OConnect 0 2 12; OConnect 1 2 13; OConnect 2 3 14; OConnect 2 0 15] in
  let h := fst (run_d Nat.eqb ops) in
  let cb := (fun (c : unit) h' (_ : edge nat) => (c, h', true)) in
  snd (search_path Nat.eqb cb Nat.leb KBfs DOut 100 h tt 0 (Some 3) false) = RPath [(0, 2, 12); (2, 3, 14)] /\\
  snd (search_path Nat.eqb cb Nat.leb KBfs DIn 100 h tt 3 (Some 1) false) = RPath [(3, 2, 14); (2, 1, 13)] /\\
  snd (search_path Nat.eqb cb Nat.leb KBfs DOut 100 h tt 3 (Some 1) false) = RNone nat.
Proof. vm_compute. auto. Qed.

(* the hypotheses shared by the theorems of C04-C10 (Wf, KeysInj, PureCb, root allocated, target not the root's key) are
   PROVED for a concrete history-built heap — Wf and KeysInj through the C01 history theorem, not by inspection — and
   c04_path_sound is APPLIED to the run (its conclusion is obtained from the theorem, not recomputed) *)
Definition ops4 : list (op nat nat nat) :=
    [ONew 0 0; ONew 1 0; ONew 2 0; ONew 3 0; OConnect 0 1 10; OConnect 0 0 11; OConnect 0 2 12; OConnect 1 2 13; OConnect 2 3 14; OConnect 2 0 15].
Lemma keqb_nat : KeqbSpec Nat.eqb. Proof. intros a b. apply Nat.eqb_eq. Qed.
Example c04_theorem_instantiated :
  let h := fst (run_d Nat.eqb ops4) in
  let cb := (fun (c : unit) (h' : heap nat nat nat) (_ : edge nat) => (c, h', true)) in
  (Wf h /\\ KeysInj h /\\ PureCb h cb (@accept_all nat) /\\ 0 < size h /\\ keyof h 0 <> Some 3) /\\
  exists v, keyof h v = Some 3 /\\ IsPath h DOut (@accept_all nat) 0 [(0, 2, 12); (2, 3, 14)] v.
Proof.
  cbv zeta.
  assert (Hfresh : KeysFresh ops4) by (unfold KeysFresh; cbn; repeat constructor; cbn; intuition congruence).
  destruct (run_d_inv keqb_nat Hfresh) as [[Hm [Hwf Hinj]] _].
  assert (Hpure : PureCb (fst (run_d Nat.eqb ops4)) (fun (c : unit) (h' : heap nat nat nat) (_ : edge nat) => (c, h', true)) (@accept_all nat))
    by (intros c e; split; reflexivity).
  assert (Hsz : 0 < size (fst (run_d Nat.eqb ops4))) by (vm_compute; repeat constructor).
  assert (Hk : keyof (fst (run_d Nat.eqb ops4)) 0 <> Some 3) by (vm_compute; congruence).
  split; [exact (conj Hwf (conj Hinj (conj Hpure (conj Hsz Hk))))|].
  destruct (search_path Nat.eqb (fun (c : unit) (h' : heap nat nat nat) (_ : edge nat) => (c, h', true)) Nat.leb KBfs DOut 100 (fst (run_d Nat.eqb ops4)) tt 0 (Some 3) false) as [st r] eqn:Hrun.
  assert (Hr : r = RPath [(0, 2, 12); (2, 3, 14)]).
  { change r with (snd (st, r)). rewrite <- Hrun. vm_compute. reflexivity. }
  subst r.
  destruct (@wlq_path_sound _ _ _ _ keqb_nat _ _ _ Nat.leb _ Hwf Hinj Hpure DOut 0 Hsz tt KBfs 100 3 st _ ltac:(discriminate) Hk Hrun) as [v [Hv [Hp _]]].
  exists v. split; assumption.
Qed.
Print Assumptions c04_theorem_instantiated.
"""
