HEADER = """C14 — Construction macros build exactly the graph they denote.
   Model: coq/model/Macro.v: all four signature forms of digraph!/ungraph!/sync_digraph!/sync_ungraph! transcribe to the same
   operation list — insert Node::new(key, value) per listed node, then for every listed edge panic naming the first of
   (source, target) not in the graph, else connect — i.e. macro_build = rebuild on the listed nodes and edges (missing node /
   edge values are `()`). Macro EXPANSION is rustc's; the correspondence compiles generated programs against the tree."""
REQUIRES = ["From Gdsl.Model Require Import Spec Serde Macro.", "From Gdsl.Proofs Require Import SerdeProof MacroProof."]
PINS = [
 ("c14_macro_denotes", "macro_denotes", "distinct listed keys, every edge key listed: the result has exactly the listed nodes with the listed values and each node's edges are exactly the listed ones in listed order; the mirror invariant holds"),
 ("c14_macro_panics_first_missing", "macro_panics_first_missing", "the macro panics exactly when an edge names an unlisted key, naming the first such key in listed order (source before target) — never a partial graph"),
]
EXTRA = """
Example c14_nonvacuous :
  let items : list (item nat nat nat) := [(1, 5, [(2, 7); (2, 8); (1, 9)]); (2, 6, [(1, 3)])] in
  match macro_build Nat.eqb items with
  | MOk h g => outs h 0 = [(1, 7); (1, 8); (0, 9)] /\\ outs h 1 = [(0, 3)] /\\ ins h 0 = [(0, 9); (1, 3)] /\\ g = [(1, 0); (2, 1)]
  | MPanic _ _ _ => False
  end /\\
  macro_build Nat.eqb [(1, 5, [(2, 7); (8, 1)]); (2, 0, [(7, 3)])] = MPanic nat nat 8.
Proof. vm_compute. auto. Qed.
"""
