HEADER = """C12 — Serialisation round-trips to an identical graph.
   Model: coq/model/Serde.v: `decompose h g order` is graph_serde_decompose (members in the container's observed order; per
   member the edges it lists first: outgoing (directed) / the half-edges it created (undirected, after the D13 repair));
   `rebuild` is the Deserialize visitor. The wire codecs (serde_json, serde_cbor) are outside the model: documents are the
   (nodes, edges) lists. Hypotheses: Inv h, GraphOK, any iteration order, and closure of the container under the edges it writes: directed —
   ClosedOut, every OUT-neighbour of a member is a member (incoming edges from non-members are not part of what the property
   compares and do not matter); undirected — Closed, both half-lists. Without closure the document names an undeclared key and
   rebuild returns an error (C13), or an incident edge has no second endpoint to return to: the known finding of C12."""
REQUIRES = ["From Gdsl.Model Require Import Spec Serde.", "From Gdsl.Proofs Require Import SerdeProof."]
PINS = [
 ("c12_roundtrip_directed", "roundtrip_directed", "directed: same keys, same node values, and for every node the same outgoing edges (target key, value) in the same order; the result satisfies the mirror invariant"),
 ("c12_roundtrip_undirected", "roundtrip_undirected", "undirected: same keys and values, and for every node the same multiset (Permutation) of incident half-edges with values"),
]
