HEADER = """C19 — Edges never own nodes: no leaks, no premature release.
   Model: coq/model/Own.v: the program's objects (node handles, Edge(Node,Node,E), Path, Vec<Node> results, Graph containers)
   each own a list of node ids STRONGLY; `strong os u` counts occurrences in live objects; adjacency entries are WeakNode and
   appear nowhere in the count (own_heap_irrelevant: operations that only change adjacency cannot change who is owned or
   released). A node value is released when its strong count reaches 0. Histories: OpPut (create an object / re-assign a
   slot: the new object exists before the old content is dropped) and OpDrop; `legal`: a strong reference can only be taken
   to a node that is not yet released (Weak::upgrade fails otherwise). Which fields are strong/weak is read off the source and
   VALIDATED by the correspondence with drop-logging payloads; 'exactly once' at the memory level is Rc/Arc's guarantee."""
REQUIRES = ["From Gdsl.Model Require Import Own.", "From Gdsl.Proofs Require Import OwnProof."]
PINS = [
 ("c19_released_once", "own_released_once", "no node value is released twice"),
 ("c19_no_early_release", "own_no_early_release", "a released node is held by no live object"),
 ("c19_held_not_released", "own_held_not_released", "a node held by any live handle, edge, path, result vector or container has not been released"),
 ("c19_all_released", "own_all_released", "once every object has been dropped, exactly the nodes the program ever held have been released — cyclic, self-looped or still-connected structures included, since adjacency does not count"),
 ("c19_release_exactly_at_zero", "own_release_exactly_at_zero", "a drop releases exactly the nodes whose strong count goes from positive to zero"),
 ("c19_reassign_release_exactly_at_zero", "own_put_release_exactly_at_zero", "same for the implicit drop of a re-assigned slot"),
 ("c19_adjacency_never_owns", "own_heap_irrelevant", "connect/disconnect/isolate (heap-only changes) change neither ownership nor the released set"),
 ("c19_object_keeps_its_nodes_alive", "own_object_keeps_alive", "whatever object sits in a slot (handle, edge, path, result vector, container — built only through the API layer aop_oop): none of the nodes it owns has been released"),
 ("c19_edge_owns_its_endpoints", "edge_owns_endpoints", "an Edge owns both nodes it mentions"),
 ("c19_path_owns_its_nodes", "path_owns_endpoints", "a Path / Vec<Edge> owns both endpoints of every edge it contains"),
 ("c19_container_owns_its_members", "graph_owns_members", "a container owns every node it binds"),
 ("c19_container_insert_releases_nothing", "own_container_insert_releases_nothing", "Graph::insert never releases a node value"),
 ("c19_container_remove_releases_nothing", "own_container_remove_releases_nothing", "Graph::remove hands the node out and releases nothing (neither the removed node nor any other member)"),
 ("c19_invariant_initial", "own_init_ok", "the invariant used above holds initially"),
 ("c19_invariant_step", "own_step_ok", "and is preserved by every legal step"),
]
