HEADER = """C17 — Concurrent operations on sync nodes terminate and serialise.  EXPLICITLY PARTIAL.
   Model: coq/model/Conc.v. Every call of src/sync_*/node/mod.rs is a program of atomic critical sections `Step u w k` (lock
   node u for reading/writing, run k on the current heap, unlock); threads interleave at these steps (cstep, run_sched); a
   panic inside a critical section holding a write guard poisons that node (Abort (Some v)). gstep is the same semantics with
   explicit guards (ACQUIRE may block; BODY+RELEASE). The tie to the code: the deterministic scheduler replays the model's
   schedules on real threads and compares the lock-point sequence, results, panics, poisoned locks and the final graph.
   PROVED for every heap, every number of threads and every program: lock discipline, deadlock freedom, panic freedom of
   programs without isolate, multiset mirror at quiescence for connect/try_connect/query programs, agreement of the two
   semantics. REFUTED (c17_refuted_*, concrete schedules by vm_compute, each reproduced on the implementation): the full
   property — no panic, serialisable outcome — which fails because every mutation is two or more separately locked critical
   sections (D11). These are the known findings of KNOWN_FINDINGS.txt. Serialisability is PROVED without bounds for one
   fragment (c17_forest_connects_serialisable: single-connect threads whose connects form a forest over the adjacency lists —
   exactly the complement, within that fragment, of the eighth known-finding class) and otherwise claimed only by the two BOUNDED
   theorems (a finite space swept inside Coq by vm_compute and lifted with forallb_forall, the bound stated in the theorem):
   outside the classes of ConcClass.known_class every schedule of every two-thread single-call scenario on two nodes is
   serialisable; no theorem claims it for unbounded scenarios, and c17_refuted_cycle shows why one must not."""
REQUIRES = ["From Coq Require Import Permutation.", "From Gdsl.Model Require Import Spec Conc.", "From Gdsl.Model Require Import ConcClass.", "From Gdsl.Proofs Require Import ConcProof ConcCycle ConcClassProof ConcForest ConcTwoCalls."]
PINS = [
 ("c17_one_guard_per_thread", "one_guard_per_thread", "in every reachable configuration a thread holds at most one guard, and only for the critical section it is parked at"),
 ("c17_no_deadlock", "no_deadlock", "no reachable configuration is deadlocked: while some thread is unfinished, some thread can move"),
 ("c17_no_isolate_no_panic", "no_isolate_no_panic", "programs without isolate never panic and never poison a lock, under any schedule"),
 ("c17_connect_quiescent_mirror", "connect_quiescent_mirror", "connect/query-only programs: once all threads are done, out- and in-lists mirror as multisets for every pair"),
 ("c17_connect_try_quiescent_mirror", "connect_try_quiescent_mirror", "the same with try_connect added"),
 ("c17_guards_refine_atomic", "gstep_refines_cstep", "every configuration reachable with explicit guards is reachable by atomic critical sections"),
 ("c17_atomic_refines_guards", "cstep_refines_gstep", "and conversely (with no guard held)"),
 ("c17_forest_connects_serialisable", "forest_connects_serialisable_strong", "UNBOUNDED (every heap, any number of threads, every schedule, both flavours): threads that each make one connect, whose connects form a FOREST when seen as edges between the two adjacency lists they append to (prune .. = []): once all threads are done, every adjacency list — order included — and every result equal those of SOME sequential order of the same calls"),
 ("c17_forest_hypothesis_needed", "forest_hypothesis_needed", "the forest hypothesis cannot be dropped: the four connects of c17_refuted_cycle are single connects, do not prune, and no sequential order reproduces the lists their schedule ends in"),
 ("c17_small_outside_classes_serialisable", "c17_small_outside_classes_serialisable", "BOUNDED (finite space, the bound is in the statement; not the unbounded property): every scenario of the space small_scenarios (2 nodes, every initial edge list of length <= 2, two threads with one call each out of all 28/24 calls) that is outside the known-finding classes: every maximal schedule ends with no panic, no poisoned lock, all threads done, and the outcome (results, final lists) of a serial schedule"),
 ("c17_len3_directed_outside_classes_good", "c17_len3_directed_outside_classes_good", "BOUNDED: the same decision for the directed flavour with initial edge lists of length <= 3 (66640 scenarios)"),
 ("c17_two_calls_outside_classes_serialisable", "c17_two_calls_outside_classes_serialisable", "BOUNDED, program order: thread 0 makes TWO calls, thread 1 one, all calls, 5 heaps (109760 directed / 69120 undirected scenarios; 31470 / 13600 outside the classes): every maximal schedule ends without panic, all done, with the outcome of a serial MAXIMAL schedule — one that runs each thread's calls in its own order"),
 ("c17_refuted_panic", "c17_refuted_panic", "REFUTATION: isolate || connect panics and poisons a lock"),
 ("c17_refuted_half_edge", "c17_refuted_half_edge", "REFUTATION: connect || disconnect leaves a half-edge at quiescence and disconnect reports EdgeNotFound"),
 ("c17_refuted_order", "c17_refuted_order", "REFUTATION: two connects of one pair: outgoing and incoming order differ"),
 ("c17_refuted_try", "c17_refuted_try", "REFUTATION: two try_connect of one pair both succeed"),
 ("c17_refuted_undirected_iter", "c17_refuted_undirected_iter", "REFUTATION: undirected iteration concurrent with a connect yields an entry twice"),
 ("c17_refuted_cycle", "c17_refuted_cycle", "REFUTATION: four threads, one connect each, over four pairwise shared adjacency lists: all succeed, nothing panics, and the final lists are those of NO sequential order of the four calls (all 24 permutations)"),
]
