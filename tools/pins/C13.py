HEADER = """C13 — Deserialising untrusted input never panics or builds a broken graph.
   Model: coq/model/Serde.v: `decode_doc` (what the visitor accepts: a sequence of at most two elements, tuples of fixed
   length, decoders for keys/values that may fail) ; `rebuild`; `deserialize = decode_doc ; rebuild`. The model has no panic
   outcome: deserialize is a total function into {error, graph}; panics or hangs INSIDE serde_json/serde_cbor on arbitrary
   bytes are outside the model and are only exercised by the correspondence (byte-level mutations)."""
REQUIRES = ["From Gdsl.Model Require Import Spec Serde.", "From Gdsl.Proofs Require Import SerdeProof."]
PINS = [
 ("c13_total_and_sane", "deserialize_total", "any document: an error, or a graph satisfying Inv (mirror/symmetry) with a well-formed container"),
 ("c13_ok_from_document", "rebuild_ok_inv", "on success the nodes are exactly the declared keys and every edge endpoint is declared"),
 ("c13_rebuild_all_from_document", "rebuild_all_from_document", "for rebuild itself: every node of an Ok result is a (key, value) pair of the document, every outgoing and every incoming adjacency entry is an edge triple of the document between the nodes bound to its two keys — nothing else exists in the result"),
 ("c13_deserialize_all_from_document", "deserialize_all_from_document", "the same for deserialize (the public entry point), through decode_doc"),
 ("c13_first_value_wins", "rebuild_nodes_first_wins", "a repeated key keeps the first declared value"),
 ("c13_edges_in_order", "rebuild_edges_spec", "on success every listed edge is connected, in listed order, nothing else; on failure the error names the first undeclared key"),
 ("c13_error_iff_undeclared", "rebuild_err_iff", "rebuild fails exactly when an edge names a key the document does not declare"),
]
