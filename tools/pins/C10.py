HEADER = """C10 — Preorder and postorder are depth-first discovery and finishing orders.
   Model: coq/model/Search.v (`descend`, entry points order_edges / order_nodes; post = false: preorder, edge
   recorded before the recursive call; post = true: postorder, recorded after it). "Some depth-first traversal"
   is the relation DfsKids of coq/model/Spec.v. Any direction (DOut, DIn = transpose(), DAdj = undirected)."""
REQUIRES = ["From Gdsl.Model Require Import Spec Callback.", "From Gdsl.Proofs Require Import Descend Order."]
PINS = [
 ("c10_order_is_dfs_run", "order_is_dfs_run", "the targets of the recorded tree are the discovery order (pre) resp. finishing order (post) of ONE depth-first traversal (DfsKids) from the root; that traversal visits exactly the nodes reachable through accepted edges, each once"),
 ("c10_search_nodes", "order_nodes_spec", "search_nodes = the root placed first (preorder) / last (postorder) around the targets of search_edges"),
 ("c10_search_edges", "order_edges_tree", "search_edges: accepted stored edges, exactly one entering each reachable non-root node, none entering the root, each leaving a reachable node"),
 ("c10_post_edge_order", "post_edge_order_whole", "for every accepted edge u->v among the traversed nodes, v precedes u in the finishing order unless u is reachable from v (or u = v)"),
 ("c10_terminates", "dfs_terminates", "fuel_bound suffices: the orderings are always produced"),
]
EXTRA = """
Example c10_nonvacuous :
  let ops : list (op nat nat nat) :=
    [ONew 0 0; ONew 1 0; ONew 2 0; ONew 3 0; OConnect 0 1 10; OConnect 0 2 11; OConnect 1 3 12; OConnect 3 0 13] in
  let h := fst (run_d Nat.eqb ops) in
  let cb := (fun (c : unit) h' (_ : edge nat) => (c, h', true)) in
  snd (order_nodes Nat.eqb cb DOut false 100 h tt 0) = Some [0; 1; 3; 2] /\\
  snd (order_nodes Nat.eqb cb DOut true 100 h tt 0) = Some [3; 1; 2; 0] /\\
  snd (order_nodes Nat.eqb cb DIn true 100 h tt 0) = Some [1; 3; 0].
Proof. vm_compute. auto. Qed.
"""
