HEADER = """C06 — Priority-first search expands nodes in priority order.
   Model: coq/model/Search.v: the worklist machine run with an exact functional transcription of Rust's
   std::collections::BinaryHeap (sift_up / sift_down_to_bottom, `<=` of Node resp. Reverse<Node>), kinds KPfsMin / KPfsMax.
   vleb is the node-value type's `<=` (a total preorder, as Rust's Ord guarantees). wl_loop_log is wl_loop instrumented
   to return, for every pop, (popped node, queue right after the pop, tree at that moment); wl_loop_log_erase shows it is
   the same machine. The heap property of the transcription (HeapOrd) is PROVED (coq/proofs/StdHeap.v), not monitored."""
REQUIRES = ["From Gdsl.Model Require Import Spec Callback SearchFind.", "From Gdsl.Proofs Require Import StdHeap Worklist Pfs SearchGlue SearchFindProof."]
PINS = [
 ("c06_instrumentation_is_erasable", "wl_loop_log_erase", "the instrumented loop returns exactly what wl_loop returns"),
 ("c06_run_is_logged_run", "pfs_run_log", "run_search for the pfs kinds is the (erased) instrumented run the next theorems speak about"),
 ("c06_pop_minimal", "pfs_pop_minimal_vals", "whenever a node u is popped for expansion, every node still in the frontier has a value >= u's (min) / <= u's (max)"),
 ("c06_frontier_is_discovered_unexpanded", "frontier_is_discovered_unexpanded", "the frontier (popped node + queue) is exactly the set of discovered (root or target of a recorded edge) and not yet expanded nodes, without duplicates"),
 ("c06_no_strictly_better_waiting", "pfs_no_strictly_better_waiting", "C06 read literally: no discovered, not yet expanded node has a strictly smaller (strictly larger for max) value than the node being expanded"),
 ("c06_heap_push_order", "stdheap_push_ord", "BinaryHeap::push keeps the heap order"),
 ("c06_heap_pop_order", "stdheap_pop_ord", "BinaryHeap::pop returns a greatest element and keeps the heap order"),
 ("c06_heap_is_a_queue", "stdheap_qspec", "push/pop neither lose nor invent elements (multiset specification), for every order test"),
 ("c06_path_sound", "pfs_path_sound", "with a target: a returned path is a chain of accepted stored edges from the root to the target"),
 ("c06_path_complete", "pfs_path_complete", "None only if the target is unreachable through accepted edges"),
 ("c06_search_agrees", "search_find'_agrees_pfs", "search() — the SEPARATELY transcribed find loops of the code (model/SearchFind.v: loop_*_find / recurse_*_find; for pfs `search_path().map(last_node)`) — returns the target node exactly when search_path() returns a path, and that node is where the path ends"),
 ("c06_find_loops_simulate_path_loops", "find_machine_agrees", "for EVERY callback (no purity needed), heap, root, target and fuel: the find machine ends with the same verdict, the same heap, the same callback state (hence the same closure trace) and the same visited set as the path machine"),
 ("c06_terminates", "pfs_terminates", "fuel_bound suffices"),
 ("c06_no_panic", "wlq_no_panic", "never the unwrap() panic of backtrack_edge_tree (any worklist kind, hence the pfs kinds)"),
 ("c06_node_cmp", "node_cmp_spec", "Ord / PartialOrd of nodes = comparison of their values"),
 ("c06_node_eq", "node_eqb_spec", "node equality = equality of keys"),
]
EXTRA = """
Example c06_nonvacuous :
  let ops : list (op nat nat nat) :=
    [ONew 0 5; ONew 1 9; ONew 2 1; ONew 3 1; ONew 4 7; OConnect 0 1 10; OConnect 0 2 11; OConnect 0 3 12; OConnect 2 4 13; OConnect 3 4 14; OConnect 1 4 15] in
  let h := fst (run_d Nat.eqb ops) in
  let cb := @mk_cb nat nat nat (step_d Nat.eqb) false (fun _ _ _ => true) [] in
  map (fun e => fst (fst e)) (rev (c_trace (s_cb (fst (search_path Nat.eqb cb Nat.leb KPfsMin DOut 100 h (cb0 nat) 0 None false)))))
    = [0; 0; 0; 2; 3; 1] /\\
  map (fun e => fst (fst e)) (rev (c_trace (s_cb (fst (search_path Nat.eqb cb Nat.leb KPfsMax DOut 100 h (cb0 nat) 0 None false)))))
    = [0; 0; 0; 1; 3; 2].
Proof. vm_compute. auto. Qed.
"""
