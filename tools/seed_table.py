#!/usr/bin/env python3
# prints the markdown table of seeded changes (DESIGN.md 10.7) from seeded/*/meta.json
import glob, json, os
V = os.path.dirname(os.path.dirname(os.path.abspath(__file__)))
rows = []
for p in sorted(glob.glob(os.path.join(V, "seeded", "*", "meta.json"))):
    m = json.load(open(p))
    name = os.path.basename(os.path.dirname(p))
    det = []
    for c, d in m.get("checks_run", {}).items():
        if d.get("exit"):
            r = d.get("replay") or {}
            kind = r.get("kind", "") if isinstance(r, dict) else ""
            nf = any("no-failing-input-found" in l for l in d.get("violation_lines", []))
            det.append("%s (%s)" % (c, "tie broken, no failing input" if nf else "failing input"))
        else:
            det.append("%s: not detected" % c)
    rows.append("| %s | %s | %s | %s | %s |" % (name, m.get("property", ""), (m.get("summary", "") or "").replace("|", "/")[:150],
                                         (m.get("needs", "") or "").replace("|", "/")[:150], "; ".join(det)))
print("| Seed | Property | Change | Needs, to manifest | Reported by |\n|---|---|---|---|---|")
print("\n".join(rows))
