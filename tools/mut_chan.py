# mut_chan.py — generators and oracle for the `script` channel (C20): operations injected into edge loops
# and traversal callbacks
import itertools, random, re
from vlib import Case
import search_chan as sc
import node_chan as nc


def loops_for(cls, n, algos_full):
    out = []
    for root in range(n):
        if cls == "D":
            out += ["loop out %d" % root, "loop in %d" % root, "loop ref %d" % root]
        else:
            out += ["loop adj %d" % root, "loop ref %d" % root]
        trs = (0, 1) if cls == "D" else (0,)
        for tr in trs:
            for algo in ("bfs", "dfs", "pmin", "pmax"):
                whats = ("path", "cycle", "find") if algos_full else ("path",)
                for what in whats:
                    for meth in (("each",) if not algos_full else ("each", "filt 1 3")):
                        out.append("srch %s %s %d %d - %s" % (algo, what, root, tr, meth))
            for algo in ("pre", "post"):
                for what in (("nodes", "edges") if algos_full else ("nodes",)):
                    out.append("srch %s %s %d %d - each" % (algo, what, root, tr))
    return out


def ops_for(keys, n):
    ops = []
    for u in range(n):
        for v in range(n):
            ops.append("con %d %d 77" % (u, v))
            ops.append("try %d %d 78" % (u, v))
        for k in keys:
            ops.append("dis %d %d" % (u, k))
        ops.append("iso %d" % u)
    ops.append("new 99 0")
    return ops


def gen_cases(cls, rng, tier):
    cases = []
    idx = 0
    if tier == "thorough":
        graphs = list(sc.all_graphs(cls, 2, 3)) + list(sc.all_graphs(cls, 3, 2))
        full = True
        ks = (0, 1, 2, 3)
    else:
        graphs = list(sc.all_graphs(cls, 2, 2)) + list(sc.all_graphs(cls, 3, 2))[::9]
        full = False
        ks = (0, 1, 2)
    for g in graphs:
        for lp in loops_for(cls, g.n, full):
            for op in ops_for(g.keys, g.n):
                for k in ks:
                    steps = g.steps() + ["scr %d %s" % (k, op), lp, "snap"]
                    cases.append(Case("m%s%d" % (cls, idx), cls, steps, dict(kind="single-injection", loop=lp.split()[1] if lp.startswith("srch") else "loop")))
                    idx += 1
    # a node CREATED by the closure is connected to the graph being walked (on-the-fly expansion): the loop / traversal then
    # meets a node that did not exist when it started.  Not for the priority-first kinds (their order test reads node values).
    for i in range(1200 if tier == "thorough" else 120):
        g = sc.random_graph(cls, rng, maxn=5, maxe=7)
        lps = [l for l in loops_for(cls, g.n, True) if " pmin " not in l and " pmax " not in l]
        lp = rng.choice(lps)
        k = rng.randint(0, 3)
        u = rng.randrange(g.n)
        steps = g.steps() + ["scr %d new 99 5" % k, "scr %d con %d %d 71" % (k, u, g.n)]
        if rng.random() < 0.6:
            steps.append("scr %d con %d %d 72" % (k, g.n, rng.randrange(g.n)))
        if rng.random() < 0.3:
            steps.append("scr %d con %d %d 73" % (k, g.n, g.n))
        steps += [lp, "snap"]
        cases.append(Case("mN%s%d" % (cls, i), cls, steps, dict(kind="node-created-and-wired-inside-the-closure")))
    # scripted traversals WITH a target: what runs after the walk found it (path building, node hand-out) then sees a graph the
    # closure has changed
    for i in range(3000 if tier == "thorough" else 300):
        g = sc.random_graph(cls, rng, maxn=5, maxe=8)
        root = rng.randrange(g.n)
        tr = 1 if (cls == "D" and rng.random() < 0.4) else 0
        algo = rng.choice(["bfs", "dfs", "pmin", "pmax"])
        what = rng.choice(["path", "path", "find"])
        tg = g.keys[rng.randrange(g.n)] if rng.random() < 0.9 else 777
        meth = rng.choice(["each", "each", "filt 1 3"])
        steps = g.steps()
        for j in range(rng.randint(1, 3)):
            steps.append("scr %d %s" % (rng.randint(0, 5), rng.choice(ops_for(g.keys, g.n)[:-1])))
        steps += ["srch %s %s %d %d %d %s" % (algo, what, root, tr, tg, meth), "snap"]
        cases.append(Case("mT%s%d" % (cls, i), cls, steps, dict(kind="scripted-traversal-with-target")))
    # ... and systematically on chains (with a side branch): every edge of the path that will be returned is removed (or
    # isolated away) at every invocation index, for every algorithm
    for length in (2, 3):
        keys = [5, 3, 9, 7, 11][:length + 2]
        base = ["new %d %d" % (k, i) for i, k in enumerate(keys)]
        chain = [(i, i + 1) for i in range(length)]
        base += ["con %d %d %d" % (u, v, 20 + u) for (u, v) in chain] + ["con 0 %d 30" % (length + 1), "con %d %d 31" % (length + 1, length)]
        for algo in ("bfs", "dfs", "pmin", "pmax"):
            for what in ("path", "find"):
                for k in range(0, length + 2):
                    for (u, v) in chain:
                        for op in ("dis %d %d" % (u, keys[v]), "iso %d" % v):
                            steps = base + ["scr %d %s" % (k, op), "srch %s %s 0 0 %d each" % (algo, what, keys[length]), "snap"]
                            cases.append(Case("mP%s%d" % (cls, idx), cls, steps, dict(kind="path-edge-removed-during-the-walk")))
                            idx += 1
    # random: several operations at several invocation indices, larger graphs
    for i in range(6000 if tier == "thorough" else 300):
        g = sc.random_graph(cls, rng, maxn=6, maxe=10)
        steps = g.steps()
        for rep in range(rng.randint(1, 3)):
            for j in range(rng.randint(1, 4)):
                op = rng.choice(ops_for(g.keys, g.n))
                steps.append("scr %d %s" % (rng.randint(0, 6), op))
            lp = rng.choice(loops_for(cls, g.n, True))
            steps += [lp, "snap"]
        cases.append(Case("mR%s%d" % (cls, i), cls, steps, dict(kind="random-scripts")))
    # container operations, nested searches / loops, comparisons and sizeof called from inside the closure
    for i in range(8000 if tier == "thorough" else 400):
        g = sc.random_graph(cls, rng, maxn=6, maxe=10)
        steps = g.steps() + ["gnew"] + ["gins 0 %d" % u for u in range(g.n) if rng.random() < 0.8]
        for rep in range(rng.randint(1, 2)):
            for j in range(rng.randint(0, 2)):
                steps.append("scr %d %s" % (rng.choice([0, 0, 1, 1, 2, 3, 4]), rng.choice(ops_for(g.keys, g.n))))
            for j in range(rng.randint(1, 4)):
                steps.append("scx %d %s" % (rng.choice([0, 0, 0, 1, 1, 2, 3, 4]), extra_step(cls, g.keys, g.n, rng)))
            lp = rng.choice(loops_for(cls, g.n, True))
            steps += [lp, "snap"]
        cases.append(Case("mX%s%d" % (cls, i), cls, steps, dict(kind="nested-and-container-calls")))
    return cases


def extra_step(cls, keys, n, rng):
    k = lambda: rng.choice(list(keys) + [98])
    u = lambda: rng.randrange(n)
    r = rng.random()
    if r < 0.35:
        return rng.choice(loops_for(cls, n, True))           # a nested loop / search / ordering
    return rng.choice([
        "gget 0 %d" % k(), "ghas 0 %d" % k(), "gidx 0 %d" % k(), "glen 0", "gins 0 %d" % u(), "grem 0 %d" % k(),
        "gcon 0 %d %d %d" % (k(), k(), rng.randint(60, 70)), "gcon 0 %d %d %d" % (k(), k(), rng.randint(60, 70)),
        "size %d" % u(), "qry %d %d" % (u(), k()), "cmp %d %d" % (u(), u()),
        "ecmp %d %d %d %d" % (u(), rng.randrange(3), u(), rng.randrange(3)),
    ])


class RefGraph:
    """reference multigraph following the contract of C03 (only used to decide 'the yielded edge exists now')"""
    def __init__(self, cls):
        self.cls = cls
        self.keys = []
        self.edges = []     # (u, v, e) in insertion order
        self.graphs = []    # containers: key -> node index

    def apply(self, t):
        op = t[0]
        if op == "new":
            self.keys.append(int(t[1]))
        elif op == "con":
            self.edges.append((int(t[1]), int(t[2]), int(t[3])))
        elif op == "try":
            u, v = int(t[1]), int(t[2])
            has = any((a == u and b == v) or (self.cls == "U" and a == v and b == u) for (a, b, _) in self.edges)
            if not has:
                self.edges.append((u, v, int(t[3])))
        elif op == "dis":
            u, k = int(t[1]), int(t[2])
            if k not in self.keys:
                return
            v = self.keys.index(k)
            cand = None
            if self.cls == "U":
                cand = next((i for i, (a, b, _) in enumerate(self.edges) if a == v and b == u), None)
            if cand is None:
                cand = next((i for i, (a, b, _) in enumerate(self.edges) if a == u and b == v), None)
            if cand is not None:
                self.edges.pop(cand)
        elif op == "iso":
            u = int(t[1])
            self.edges = [(a, b, e) for (a, b, e) in self.edges if a != u and b != u]
        elif op == "gnew":
            self.graphs.append({})
        elif op == "gins":
            g, u = self.graphs[int(t[1])], int(t[2])
            g.setdefault(self.keys[u], u)
        elif op == "grem":
            self.graphs[int(t[1])].pop(int(t[2]), None)
        elif op == "gcon":
            g = self.graphs[int(t[1])]
            if int(t[2]) in g and int(t[3]) in g:
                self.edges.append((g[int(t[2])], g[int(t[3])], int(t[4])))

    def x_may_panic(self, t):
        """extra steps whose panic is the documented behaviour (indexing a missing key) or the harness's own unwrap"""
        if t[0] == "gidx":
            return int(t[2]) not in self.graphs[int(t[1])]
        if t[0] == "gcon":
            g = self.graphs[int(t[1])]
            return int(t[2]) not in g or int(t[3]) not in g
        return False

    def has(self, s, t, e, reversed_=False):
        if s not in self.keys or t not in self.keys:
            return False
        si, ti = self.keys.index(s), self.keys.index(t)
        if reversed_:
            si, ti = ti, si
        if (si, ti, e) in self.edges:
            return True
        return self.cls == "U" and (ti, si, e) in self.edges


def oracle_mut(case, obs):
    if obs == "HANG":
        return "loop/traversal with a closure that adds at most a few edges never returns (hang/deadlock)"
    ever = set()
    keys = []
    for s in case.steps:
        t = s.split()
        if t[0] == "new":
            keys.append(int(t[1]))
        elif t[0] == "con":
            ever.add((int(t[1]), int(t[2]), int(t[3])))
        elif t[0] == "scr":
            if t[2] in ("con", "try"):
                ever.add((int(t[3]), int(t[4]), int(t[5])))
            elif t[2] == "new":
                keys.append(int(t[3]))
        elif t[0] == "gcon" or (t[0] == "scx" and t[2] == "gcon"):
            tt = t if t[0] == "gcon" else t[2:]
            if int(tt[2]) in keys and int(tt[3]) in keys:
                ever.add((keys.index(int(tt[2])), keys.index(int(tt[3])), int(tt[4])))
    everk = set()
    for (u, v, e) in ever:
        if u < len(keys) and v < len(keys):
            everk.add((keys[u], keys[v], e))
            everk.add((keys[v], keys[u], e))
    ref = RefGraph(case.cls)
    pending = []     # (invocation index, op tokens)
    xpending = []    # extra script
    for (si, text) in obs:
        st = case.steps[si]
        t = st.split()
        if text.startswith("panic"):
            return "step %d `%s` panicked" % (si, st)
        if t[0] in ("new", "con", "try", "dis", "iso", "gnew", "gins", "grem", "gcon"):
            ref.apply(t)
        elif t[0] == "scr":
            pending.append((int(t[1]), t[2:]))
        elif t[0] == "scx":
            xpending.append((int(t[1]), t[2:]))
        if st.startswith(("loop", "srch")):
            o = sc.parse_obs(text)
            if o["log"] and any(x.startswith("panic") for x in o["log"]):
                return "step %d `%s`: an operation called from inside the loop/closure panicked: %s" % (si, st, o["log"])
            for e in (o["trace"] or []):
                if e not in everk:
                    return "step %d `%s`: yielded %s which is not an edge that ever existed" % (si, st, e)
            # every yielded edge must exist at the moment it is yielded: replay the scripted operations on a reference graph
            rev = (t[0] == "srch" and case.cls == "D" and t[4] == "1")
            xl = list(o.get("xlog") or [])
            for j, (a, b, e) in enumerate(o["trace"] or []):
                if not ref.has(a, b, e, reversed_=rev):
                    return "step %d `%s`: invocation %d was handed %s, which does not exist at that moment (the closure's earlier operations removed or replaced it)" % (si, st, j, (a, b, e))
                for (k, op) in pending:
                    if k == j:
                        ref.apply(op)
                for (k, op) in xpending:
                    if k == j:
                        res = xl.pop(0) if xl else None
                        if res is None:
                            return "step %d `%s`: the closure's call `%s` at invocation %d left no result" % (si, st, " ".join(op), j)
                        if res.startswith("panic") and not ref.x_may_panic(op):
                            return "step %d `%s`: `%s` called from inside the loop/closure at invocation %d panicked" % (si, st, " ".join(op), j)
                        if res.startswith(("HANG", "fuel")):
                            return "step %d `%s`: `%s` called from inside the loop/closure did not return" % (si, st, " ".join(op))
                        ref.apply(op)
            n_inv = len(o["trace"] or [])
            for (k, op) in pending:
                if k >= n_inv:
                    pass   # never reached
            pending = []
            xpending = []
        if st == "snap":
            nodes = nc.parse_snap(text)
            if nodes is None:
                return "step %d: snapshot failed" % si
            m = nc.oracle_mirror_d(nodes) if case.cls == "D" else nc.oracle_sym_u(nodes)
            if m:
                return "step %d: after the loop the mirror/symmetry invariant is broken: %s" % (si, m)
    return None
