# conc_chan.py — C17: concurrent scenarios, schedule exploration by the model, replay on real threads
import itertools, os, random, re
import vlib
from vlib import Case, CACHE

KEYS = [5, 3, 9]
MUT = ("con", "try", "dis", "iso")


def calls_for(cls, n):
    cs = []
    for u in range(n):
        for v in range(n):
            cs.append("con %d %d 7" % (u, v))
            cs.append("try %d %d 8" % (u, v))
        for k in KEYS[:n]:
            cs.append("dis %d %d" % (u, k))
            cs.append("conn %d %d" % (u, k))
        cs += ["iso %d" % u, "deg %d" % u, "orph %d" % u, "iter %d" % u]
        if cls == "D":
            cs += ["ideg %d" % u, "iterin %d" % u]
    return cs


def call_nodes(call, n):
    t = call.split()
    if t[0] in ("con", "try"):
        return {int(t[1]), int(t[2])}
    if t[0] in ("dis", "conn"):
        s = {int(t[1])}
        k = int(t[2])
        if k in KEYS[:n]:
            s.add(KEYS.index(k))
        return s
    if t[0] == "iso":
        return set(range(n))      # isolate writes to every neighbour
    return {int(t[1])}


def known_class(cls, n, threads):
    """the documented interference classes (D11); returns a class name or None.
    A scenario is outside every class iff each mutation's nodes are touched by other threads only in the
    'safe' way: the mutation is a connect, the other thread touches those nodes in exactly ONE call, and that
    call is a query or a connect of a different ordered (source,target) pair."""
    for i, ti in enumerate(threads):
        for a in ti:
            ta = a.split()
            if ta[0] not in MUT:
                continue
            na = call_nodes(a, n)
            for j, tj in enumerate(threads):
                if i == j:
                    continue
                touching = [b for b in tj if call_nodes(b, n) & na]
                if not touching:
                    continue
                if ta[0] == "iso":
                    return "isolate-vs-concurrent-access"
                if ta[0] == "dis":
                    return "disconnect-vs-concurrent-access"
                if ta[0] == "try":
                    return "try_connect-check-then-act"
                # a is a connect
                if len(touching) > 1:
                    return "connect-observed-by-several-calls"
                b = touching[0].split()
                if b[0] == "con" and (b[1], b[2]) == (ta[1], ta[2]):
                    return "connect-connect-same-pair-order"
                if cls == "U" and ta[1] == ta[2] and b[0] in ("deg", "iter") and b[1] == ta[1]:
                    # a self-loop is two half-edges at the SAME node, written in two critical sections
                    return "undirected-self-loop-connect-half-visible"
                if cls == "U" and b[0] == "iter" and b[1] == ta[1]:
                    # undirected iteration walks outbound ++ inbound by position: an outbound append shifts the inbound part
                    return "undirected-iteration-shifted-by-connect"
                if b[0] in ("try", "dis", "iso"):
                    continue  # classified when that mutation is `a`
    if has_connect_cycle(threads):
        return "connect-cycle-of-list-orders"
    return None


def has_connect_cycle(threads):
    """connects as edges (out src -- in dst) of a bipartite multigraph over adjacency lists; a surviving cycle that
    involves at least two threads (mirrors ConcClass.has_connect_cycle)"""
    l = [(i, int(c.split()[1]), int(c.split()[2])) for i, t in enumerate(threads) for c in t if c.split()[0] == "con"]
    for _ in range(len(l)):
        l = [p for p in l if sum(1 for q in l if q[1] == p[1]) > 1 and sum(1 for q in l if q[2] == p[2]) > 1]
    return bool(l) and any(p[0] != l[0][0] for p in l[1:])


def scenario_case(name, cls, n, init_edges, threads):
    steps = ["new %d 0" % k for k in KEYS[:n]]
    steps += ["con %d %d %d" % (u, v, 10 + i) for i, (u, v) in enumerate(init_edges)]
    for t, calls in enumerate(threads):
        for c in calls:
            steps.append("thr %d %s" % (t, c))
    steps.append("explore")
    return Case(name, cls, steps, dict(kind="scenario", n=n, threads=threads, known=known_class(cls, n, threads)))


def gen_scenarios(cls, rng, tier):
    out = []
    idx = 0
    n = 2
    calls = calls_for(cls, n)
    inits = [[]] + [[p] for p in itertools.product(range(n), repeat=2)]
    if tier == "thorough":
        inits += [[p, q] for p in itertools.product(range(n), repeat=2) for q in itertools.product(range(n), repeat=2)]
        pairs = list(itertools.product(calls, repeat=2))
    else:
        pairs = rng.sample(list(itertools.product(calls, repeat=2)), 140)
    # 2 threads x 1 call, every initial edge set
    for (a, b) in pairs:
        for init in (inits if tier == "thorough" else rng.sample(inits, 2)):
            out.append(scenario_case("s%s%d" % (cls, idx), cls, n, init, [[a], [b]]))
            idx += 1
    # adjacency lists with two entries, and two concurrent calls of which at least one REMOVES from them (disconnect /
    # isolate vs any mutation): positions shift under the other thread's feet. All of these lie in known-finding classes,
    # so only the exact comparison with the model's outcome of the same schedule can tell a new defect there.
    if tier != "thorough":
        removers = [c for c in calls if c.split()[0] in ("dis", "iso")]
        mutators = [c for c in calls if c.split()[0] in ("dis", "iso", "con", "try")]
        two = [[p, q] for p in itertools.product(range(n), repeat=2) for q in itertools.product(range(n), repeat=2)]
        picks = [(a, b, init) for a in removers for b in mutators for init in two]
        for (a, b, init) in rng.sample(picks, 260):
            out.append(scenario_case("r%s%d" % (cls, idx), cls, n, init, [[a], [b]]))
            idx += 1
    # hubs: both nodes carry 65-70 edges in each direction before the threads start, so that anything a call does only for
    # long adjacency lists (a second lock, a different scan) happens under the scheduler too.  Calls with a bounded number
    # of critical sections only (no isolate / iteration: their schedules would explode with the list length).
    hub_calls = [c for c in calls if c.split()[0] in ("con", "try", "dis", "conn", "deg", "ideg", "orph")]
    hub_pairs = [("try 0 1 8", "try 1 0 8"), ("try 0 1 8", "con 1 0 7"), ("try 1 0 8", "dis 0 %d" % KEYS[1]), ("try 0 1 8", "try 0 1 8")]
    hub_pairs += [tuple(rng.sample(hub_calls, 2)) for _ in range(40 if tier == "thorough" else 6)]
    for (a, b) in hub_pairs:
        m = rng.randint(65, 70)
        init = [(0, 1)] * m + [(1, 0)] * m + ([(0, 0)] if rng.random() < 0.3 else [])
        out.append(scenario_case("H%s%d" % (cls, idx), cls, n, init, [[a], [b]]))
        idx += 1
    # 2 threads x 2 calls, 3 threads x 1 call, 3 nodes: sampled
    calls3 = calls_for(cls, 3)
    for i in range(4000 if tier == "thorough" else 120):
        nn = rng.choice([2, 3])
        cs = calls if nn == 2 else calls3
        shape = rng.choice([(2, 2), (1, 2), (1, 1, 1), (2, 1)])
        threads = [[rng.choice(cs) for _ in range(k)] for k in shape]
        init = [(rng.randrange(nn), rng.randrange(nn)) for _ in range(rng.randint(0, 2))]
        out.append(scenario_case("m%s%d" % (cls, idx), cls, nn, init, threads))
        idx += 1
    # connect/query-only programs (outside every known class by construction when they avoid the unsafe patterns)
    safe = [c for c in calls3 if c.split()[0] in ("con", "deg", "ideg", "orph", "conn", "iter", "iterin")]
    for i in range(3000 if tier == "thorough" else 150):
        shape = rng.choice([(1, 1), (2, 1), (1, 1, 1), (2, 2)])
        threads = [[rng.choice(safe) for _ in range(k)] for k in shape]
        init = [(rng.randrange(3), rng.randrange(3)) for _ in range(rng.randint(0, 2))]
        out.append(scenario_case("q%s%d" % (cls, idx), cls, 3, init, threads))
        idx += 1
    return out


def explore(cases, workdir, limit):
    """let the extracted model enumerate the maximal schedules of every scenario; returns expanded cases
    (one per schedule) and the number of schedules per scenario"""
    os.makedirs(workdir, exist_ok=True)
    expanded, counts, classes = [], {}, {}
    by_name = {c.name: c for c in cases}
    for cls in sorted(set(c.cls for c in cases)):
        src = os.path.join(workdir, "scen%s.cases" % cls)
        dst = os.path.join(workdir, "scen%s.expanded" % cls)
        vlib.write_cases([c for c in cases if c.cls == cls], src)
        rc, out = vlib.sh([vlib.MODEL_BIN, "explore", cls, src, dst, str(limit)], timeout=3600)
        if rc != 0:
            raise RuntimeError("model explorer failed: " + out[-1000:])
        cur = None
        for line in open(dst):
            line = line.rstrip("\n")
            if line.startswith("# "):
                m = re.match(r"# (\S+): (\d+) schedules class=(\S+)", line)
                if m:
                    counts[m.group(1)] = int(m.group(2))
                    classes[m.group(1)] = None if m.group(3) == "none" else m.group(3)
                continue
            t = line.split()
            if not t:
                continue
            if t[0] == "case":
                base = t[1].rsplit("_s", 1)[0]
                cur = Case(t[1], t[2][0], [], dict(by_name[base].tags, scenario=base, serial=t[1].endswith("S")))
                expanded.append(cur)
            elif cur is not None:
                cur.steps.append(line)
    # the class of a scenario is decided by the MODEL (ConcClass.known_class); the Python predicate is only cross-checked
    mism = []
    for c in expanded:
        mc = classes.get(c.tags["scenario"])
        if c.tags.get("kind") != "corpus" and c.tags.get("known") != mc:
            mism.append((c.tags["scenario"], c.tags.get("known"), mc))
        c.tags["known"] = mc
    return expanded, counts, mism


def parse_sched_obs(text):
    """-> dict(events, threads=[(status, results)], pois, snap, flags)"""
    parts = text.split(" | ")
    r = dict(events=parts[0].split()[1:], threads=[], pois=[], snap="", hang=False, deadlock=False, held=False)
    for p in parts[1:]:
        if p.startswith("HANG"):
            r["hang"] = True
        elif p.startswith("DEADLOCK"):
            r["deadlock"] = True
        elif re.match(r"t\d+ ", p):
            t = p.split()
            r["threads"].append((t[1], t[2:]))
        elif p.startswith("pois"):
            r["pois"] = p.split()[1:]
        elif p.startswith("snap"):
            r["snap"] = p[4:].strip()
    r["held"] = any(e.endswith("!held") for e in r["events"])
    return r


def outcome_of(o):
    return (tuple((s, tuple(res)) for (s, res) in o["threads"]), tuple(o["pois"]), o["snap"])
