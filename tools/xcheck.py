# xcheck.py — thorough-tier cross-check of EXTRACTION: the same histories evaluated by vm_compute inside Coq and by the
# extracted OCaml program must give the same outcomes and the same heap (integer encodings compared)
import os, re
import vlib
from vlib import Case, CACHE, COQ


def op_term(step):
    t = step.split()
    if t[0] == "new":
        return "ONew %s%%N (%s)%%Z" % (t[1], t[2])
    if t[0] == "con":
        return "OConnect %s %s %s%%N" % (t[1], t[2], t[3])
    if t[0] == "try":
        return "OTryConnect %s %s %s%%N" % (t[1], t[2], t[3])
    if t[0] == "dis":
        return "ODisconnect %s %s%%N" % (t[1], t[2])
    if t[0] == "iso":
        return "OIsolate %s" % t[1]
    return None


def run(cases, workdir):
    """cases: node-channel histories (other steps are ignored). returns (n_compared, mismatches)"""
    os.makedirs(workdir, exist_ok=True)
    hdr = ["From Gdsl.Model Require Import Base NodeOps.", "Open Scope N_scope.",
           "Definition enc_o (o : outcome N) : list N := match o with OkU => [0] | OkE e => [1; e] | ErrNotFound => [2] | ErrExists => [3] | Panic => [4] | Invalid => [5] end.",
           "Definition enc_l (l : list (nat * N)) : list N := N.of_nat (length l) :: flat_map (fun p => [N.of_nat (fst p); snd p]) l.",
           "Definition enc_h (h : heap N Z N) : list N := flat_map (fun u => 100 :: enc_l (outs h u) ++ enc_l (ins h u)) (iota 0 (size h)).",
           "Definition enc (directed : bool) (ops : list (op N Z N)) : list N :=",
           "  let r := if directed then run_d N.eqb ops else run_u N.eqb ops in flat_map enc_o (snd r) ++ [999] ++ enc_h (fst r)."]
    lines = list(hdr)
    xcases = []
    for c in cases:
        ops = [op_term(s) for s in c.steps]
        ops = [o for o in ops if o]
        lines.append("Eval vm_compute in enc %s [%s]." % ("true" if c.cls == "D" else "false", "; ".join(ops)))
        xcases.append(Case(c.name, c.cls, [s for s in c.steps if op_term(s)] + ["xenc"]))
    vf = os.path.join(workdir, "xcheck.v")
    open(vf, "w").write("\n".join(lines) + "\n")
    rc, out = vlib.sh("timeout 900 coqc -q -Q model Gdsl.Model -o %s %s" % (os.path.join(workdir, "xcheck.vo"), vf), cwd=COQ)
    if rc != 0:
        return 0, ["coqc failed: " + out[-500:]]
    blocks = re.split(r"\n\s*:\s*list N", out)
    coq_vals = []
    for b in blocks[:-1]:
        body = b.split("=", 1)[1] if "=" in b else b
        coq_vals.append([int(x) for x in re.findall(r"\d+", body)])
    mism = []
    for cls in ("D", "U"):
        cs = [c for c in xcases if c.cls == cls]
        if not cs:
            continue
        p = os.path.join(workdir, "xcheck%s.cases" % cls)
        vlib.write_cases(cs, p)
        res, order = vlib.run_model(cls, p, p + ".out")
        for c in cs:
            i = [x.name for x in xcases].index(c.name)
            obs = res.get(c.name, [])
            enc = []
            for (si, t) in obs[:-1]:
                enc += {"ok": [0], "err notfound": [2], "err exists": [3], "panic": [4], "invalid": [5]}.get(t, [1, int(t.split()[1])] if t.startswith("ok ") else [-1])
            enc += [999] + [int(x) for x in obs[-1][1].split()[1:]]
            if i >= len(coq_vals) or coq_vals[i] != enc:
                mism.append((c.name, coq_vals[i][:20] if i < len(coq_vals) else None, enc[:20]))
    return len(xcases), mism
