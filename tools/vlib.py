# vlib.py — shared machinery of ./check (see DESIGN.md §3.4)
import fcntl, hashlib, json, os, random, re, shutil, subprocess, sys, time

VERIF = os.path.dirname(os.path.dirname(os.path.abspath(__file__)))
REPO = os.environ.get("GDSL_REPO", "/repo")
CACHE = os.environ.get("VERIF_CACHE") or os.path.join(VERIF, ".cache")
COQ = os.environ.get("VERIF_COQ") or os.path.join(VERIF, "coq")
HARNESS_BIN = os.path.join(CACHE, "target", "release", "gdsl_verif_harness")
MODEL_BIN = os.path.join(CACHE, "ocaml", "model_driver")
RUSTFLAGS = "--cfg gdsl_verif --check-cfg cfg(gdsl_verif)" + ((" " + os.environ["VERIF_EXTRA_RUSTFLAGS"]) if os.environ.get("VERIF_EXTRA_RUSTFLAGS") else "")
FLAVOURS = {"D": ["digraph", "sync_digraph"], "U": ["ungraph", "sync_ungraph"]}
ALLOWED_AXIOMS = set()  # standard-library axioms that a theorem may depend on (none so far)

FORBIDDEN = re.compile(
    r"\b(Admitted|admit|Axiom|Axioms|Parameter|Parameters|Conjecture|Abort All|bypass_check|"
    r"Unset\s+Guard|Unset\s+Positivity|Unset\s+Universe|type-in-type|impredicative-set|Admit\s+Obligations)\b")


def log(*a):
    print(*a, file=sys.stderr, flush=True)


def sh(cmd, timeout=3600, cwd=None, env=None, check=False):
    e = dict(os.environ)
    if env:
        e.update(env)
    p = subprocess.run(cmd, shell=isinstance(cmd, str), cwd=cwd, env=e, timeout=timeout,
                       stdout=subprocess.PIPE, stderr=subprocess.STDOUT, text=True)
    if check and p.returncode != 0:
        raise RuntimeError("command failed (%d): %s\n%s" % (p.returncode, cmd, p.stdout[-4000:]))
    return p.returncode, p.stdout


class Lock:
    def __init__(self, name="lock"):
        os.makedirs(CACHE, exist_ok=True)
        self.path = os.path.join(CACHE, name)

    def __enter__(self):
        self.f = open(self.path, "w")
        fcntl.flock(self.f, fcntl.LOCK_EX)
        return self

    def __exit__(self, *a):
        fcntl.flock(self.f, fcntl.LOCK_UN)
        self.f.close()


# ----------------------------------------------------------------------------
# builds
# ----------------------------------------------------------------------------
def coq_files():
    out = []
    for d in ("model", "proofs", "props", "gen", "extract"):
        p = os.path.join(COQ, d)
        if os.path.isdir(p):
            for f in sorted(os.listdir(p)):
                if f.endswith(".v"):
                    out.append(os.path.join(d, f))
    return out


def lint_coq():
    """reject Admitted/Axiom/... anywhere in the development (comments stripped)"""
    bad = []
    for rel in coq_files():
        txt = open(os.path.join(COQ, rel)).read()
        txt = strip_coq_comments(txt)
        for m in FORBIDDEN.finditer(txt):
            bad.append("%s: %s" % (rel, m.group(0)))
        # Variable/Hypothesis outside a section
        depth = 0
        for line in txt.splitlines():
            s = line.strip()
            if re.match(r"^(Section|Module)\b", s) and not re.match(r"^Module\s+\w+\s*:=", s):
                depth += 1
            elif re.match(r"^End\b", s):
                depth -= 1
            elif re.match(r"^(Variable|Variables|Hypothesis|Hypotheses|Context)\b", s) and depth <= 0:
                bad.append("%s: %s outside a section" % (rel, s.split()[0]))
    return bad


def strip_coq_comments(txt):
    out, depth, i, n = [], 0, 0, len(txt)
    while i < n:
        if txt.startswith("(*", i):
            depth += 1
            i += 2
        elif txt.startswith("*)", i) and depth > 0:
            depth -= 1
            i += 2
        else:
            if depth == 0:
                out.append(txt[i])
            i += 1
    return "".join(out)


def write_coqproject():
    lines = ["-Q model Gdsl.Model", "-Q proofs Gdsl.Proofs", "-Q props Gdsl.Props", "-Q gen Gdsl.Gen", ""]
    for rel in coq_files():
        if rel.startswith("extract/"):
            continue
        lines.append(rel)
    txt = "\n".join(lines) + "\n"
    p = os.path.join(COQ, "_CoqProject")
    if not os.path.exists(p) or open(p).read() != txt:
        open(p, "w").write(txt)
        return True
    return False


def build_coq(targets=None, timeout=3000):
    """full .vo build through coq_makefile; targets: list of .vo paths relative to coq/ (None = all)"""
    os.makedirs(os.path.join(COQ, "gen"), exist_ok=True)
    # C16's declarations are ALWAYS regenerated from the current source (never committed, never reused across trees);
    # the file is only rewritten when its content changes, so unchanged sources cost no recompilation
    sh([sys.executable, os.path.join(VERIF, "tools", "rs2coq_types.py"), REPO, os.path.join(COQ, "gen", "TypesGen.v")])
    changed = write_coqproject()
    if changed or not os.path.exists(os.path.join(COQ, "Makefile")):
        sh("coq_makefile -f _CoqProject -o Makefile", cwd=COQ, check=True)
    tgt = " ".join(targets) if targets else ""
    # -k: one broken proof must not keep the model (and the other properties' proofs) from being built
    rc, out = sh("timeout %d make -k -j16 %s" % (timeout, tgt), cwd=COQ, timeout=timeout + 60)
    return rc, out


def build_model_driver():
    """extract the model and compile the OCaml driver when the model or driver changed"""
    od = os.path.join(CACHE, "ocaml")
    os.makedirs(od, exist_ok=True)
    srcs = [os.path.join(COQ, "model", f) for f in sorted(os.listdir(os.path.join(COQ, "model"))) if f.endswith(".v")]
    srcs += [os.path.join(COQ, "extract", "Extract.v"), os.path.join(VERIF, "ocaml", "driver.ml")]
    h = hashlib.sha256()
    for s in srcs:
        h.update(open(s, "rb").read())
    stamp = os.path.join(od, "stamp")
    if os.path.exists(MODEL_BIN) and os.path.exists(stamp) and open(stamp).read() == h.hexdigest():
        return 0, "cached"
    rc, out = sh("coqc -Q %s Gdsl.Model %s -o %s" % (os.path.join(COQ, "model"),
                 os.path.join(COQ, "extract", "Extract.v"), os.path.join(od, "Extract.vo")), cwd=od, timeout=600)
    if rc != 0:
        return rc, out
    shutil.copy(os.path.join(VERIF, "ocaml", "driver.ml"), os.path.join(od, "driver.ml"))
    rc, out2 = sh("ocamlfind ocamlopt -O2 -w -a model.mli model.ml driver.ml -o model_driver", cwd=od, timeout=600)
    if rc == 0:
        open(stamp, "w").write(h.hexdigest())
    return rc, out + out2


def build_harness():
    """the harness crate is copied into the cache with a manifest whose path dependency points at REPO (normally /repo;
    GDSL_REPO overrides it for evaluating seeded changes in a scratch worktree) and built there"""
    src = os.path.join(VERIF, "harness")
    hd = os.path.join(CACHE, "harness_crate")
    os.makedirs(os.path.join(hd, "src"), exist_ok=True)
    os.makedirs(os.path.join(hd, ".cargo"), exist_ok=True)
    for f in os.listdir(os.path.join(src, "src")):
        a, b = os.path.join(src, "src", f), os.path.join(hd, "src", f)
        if not os.path.exists(b) or open(a, "rb").read() != open(b, "rb").read():
            shutil.copy(a, b)
    man = open(os.path.join(src, "Cargo.toml")).read().replace('path = "/repo"', 'path = "%s"' % REPO)
    if not os.path.exists(os.path.join(hd, "Cargo.toml")) or open(os.path.join(hd, "Cargo.toml")).read() != man:
        open(os.path.join(hd, "Cargo.toml"), "w").write(man)
    open(os.path.join(hd, ".cargo", "config.toml"), "w").write("[net]\noffline = true\n")
    # the lock file of the repository pins every dependency version; ours is derived from it
    lock_src = os.path.join(REPO, "Cargo.lock")
    if not os.path.exists(os.path.join(hd, "Cargo.lock")) and os.path.exists(lock_src):
        shutil.copy(lock_src, os.path.join(hd, "Cargo.lock"))
    env = {"RUSTFLAGS": RUSTFLAGS, "CARGO_NET_OFFLINE": "true", "CARGO_TARGET_DIR": os.path.join(CACHE, "target")}
    rc, out = sh("cargo build --release --offline 2>&1", cwd=hd, env=env, timeout=1800)
    return rc, out


# ----------------------------------------------------------------------------
# running cases
# ----------------------------------------------------------------------------
def parse_out(path):
    """-> dict case_name -> list of (step, text); plus ordered list of names"""
    res, order, cur = {}, [], None
    if not os.path.exists(path):
        return res, order
    for line in open(path):
        line = line.rstrip("\n")
        if line.startswith("case "):
            cur = line[5:]
            res[cur] = []
            order.append(cur)
        elif line.startswith("end "):
            cur = None
        elif cur is not None:
            sp = line.split(" ", 1)
            res[cur].append((int(sp[0]), sp[1] if len(sp) > 1 else ""))
    return res, order


def run_impl(flavour, casefile, outfile, hang_secs=5, env=None):
    """runs the harness; on a hang, records it and resumes with the next case.
    returns (results dict, hangs list of case indices)"""
    hangs = []
    start = 0
    for p in (outfile, outfile + ".panics", outfile + ".hang"):
        if os.path.exists(p):
            os.remove(p)
    while True:
        rc, out = sh([HARNESS_BIN, "run", flavour, casefile, outfile, str(start), str(hang_secs)], timeout=7200, env=env)
        if rc == 0:
            break
        if rc == 3:
            # find last completed case index
            last = -1
            if os.path.exists(outfile):
                for line in open(outfile):
                    if line.startswith("end "):
                        last = int(line.split()[1])
            hung = next_applicable(casefile, flavour, max(last + 1, start))
            hangs.append(hung)
            # drop the partial output of the hung case
            truncate_after_end(outfile, last)
            start = hung + 1
            if len(hangs) >= 2:
                break   # do not spend the run waiting on a code base that hangs everywhere
            continue
        if rc < 0 or rc in (132, 134, 136, 139):
            # the harness process was killed by a signal (stack overflow of an unbounded recursion, abort): the case it was
            # running is treated like a call that never returns, and the run resumes with the next case
            last = -1
            if os.path.exists(outfile):
                for line in open(outfile):
                    if line.startswith("end "):
                        last = int(line.split()[1])
            hung = next_applicable(casefile, flavour, max(last + 1, start))
            hangs.append(hung)
            truncate_after_end(outfile, last)
            start = hung + 1
            if len(hangs) >= 2:
                break
            continue
        raise RuntimeError("harness failed rc=%d: %s" % (rc, out[-2000:]))
    res, order = parse_out(outfile)
    return res, order, hangs


def case_classes(casefile):
    cl = []
    for line in open(casefile):
        if line.startswith("case "):
            t = line.split()
            cl.append((t[1], t[2][0]))
    return cl


def next_applicable(casefile, flavour, idx):
    want = "D" if flavour in FLAVOURS["D"] else "U"
    cl = case_classes(casefile)
    i = idx
    while i < len(cl) and cl[i][1] != want:
        i += 1
    return i


def truncate_after_end(outfile, last):
    if not os.path.exists(outfile):
        return
    keep = []
    for line in open(outfile):
        keep.append(line)
    # cut everything after the line "end <last>"
    cut = 0
    for i, line in enumerate(keep):
        if line.startswith("end ") and int(line.split()[1]) == last:
            cut = i + 1
    if last < 0:
        cut = 0
    open(outfile, "w").writelines(keep[:cut])


def run_model(cls, casefile, outfile):
    rc, out = sh([MODEL_BIN, cls, casefile, outfile], timeout=7200)
    if rc != 0:
        raise RuntimeError("model driver failed rc=%d: %s" % (rc, out[-2000:]))
    return parse_out(outfile)


def split_cases(cases, nshards):
    shards = [[] for _ in range(nshards)]
    for i, c in enumerate(cases):
        shards[i % nshards].append(c)
    return [s for s in shards if s]


class Case:
    __slots__ = ("name", "cls", "steps", "tags")

    def __init__(self, name, cls, steps, tags=None):
        self.name, self.cls, self.steps, self.tags = name, cls, steps, tags or {}

    def text(self):
        return "case %s %s\n%s\n" % (self.name, self.cls, "\n".join(self.steps))


def write_cases(cases, path):
    with open(path, "w") as f:
        for c in cases:
            f.write(c.text())


def run_all(cases, workdir, tag, flavours=None, hang_secs=8, nshards=16, env=None, two_pass=False):
    """run cases on implementation flavours and the model in parallel shards.
    returns dict: flavour -> {case -> [(step,text)]}, 'model' -> {...} (or 'model:<flavour>' when two_pass),
    'hangs' -> {flavour: [case names]}.
    two_pass: steps whose implementation observation starts with `ord [k1 k2 ..]` (the container's actual
    iteration order) are re-issued to the model with ` @ k1 k2 ..` appended: the order is an INPUT of the model."""
    import concurrent.futures as cf
    os.makedirs(workdir, exist_ok=True)
    shards = split_cases(cases, nshards)
    results = {"model": {}, "hangs": {}}
    classes = sorted(set(c.cls for c in cases))
    fls = []
    for cl in classes:
        for fl in FLAVOURS[cl]:
            if flavours is None or fl in flavours:
                fls.append(fl)
                results[fl] = {}
                results["hangs"][fl] = []
                if two_pass:
                    results["model:" + fl] = {}

    def job_impl(fl, si, path):
        out = os.path.join(workdir, "%s.%d.%s.out" % (tag, si, fl))
        res, order, hangs = run_impl(fl, path, out, hang_secs, env=env)
        names = [c.name for c in shards[si]]
        mres = None
        if two_pass:
            cl = "D" if fl in FLAVOURS["D"] else "U"
            cs2 = []
            for c in shards[si]:
                if c.cls != cl:
                    continue
                obs = dict(res.get(c.name, []))
                steps = []
                for i, st in enumerate(c.steps):
                    t = obs.get(i, "")
                    if t.startswith("ord ["):
                        steps.append(st + " @ " + t[5:t.index("]")])
                    else:
                        steps.append(st)
                cs2.append(Case(c.name, c.cls, steps))
            p2 = os.path.join(workdir, "%s.%d.%s.mcases" % (tag, si, fl))
            write_cases(cs2, p2)
            mres, _ = run_model(cl, p2, p2 + ".out")
        return ("impl", fl, res, [names[h] for h in hangs if h < len(names)], mres)

    def job_model(cl, si, path):
        out = os.path.join(workdir, "%s.%d.model%s.out" % (tag, si, cl))
        res, order = run_model(cl, path, out)
        return ("model", cl, res, [], None)

    with cf.ThreadPoolExecutor(max_workers=16) as ex:
        futs = []
        for si, sh_cases in enumerate(shards):
            path = os.path.join(workdir, "%s.%d.cases" % (tag, si))
            write_cases(sh_cases, path)
            scl = set(c.cls for c in sh_cases)
            for cl in scl:
                if not two_pass:
                    futs.append(ex.submit(job_model, cl, si, path))
                for fl in FLAVOURS[cl]:
                    if fl in fls:
                        futs.append(ex.submit(job_impl, fl, si, path))
        for f in futs:
            kind, key, res, hangs, mres = f.result()
            if kind == "model":
                results["model"].update(res)
            else:
                results[key].update(res)
                results["hangs"][key].extend(hangs)
                if mres is not None:
                    results["model:" + key].update(mres)
    return results, fls


def compare(cases, results, fls):
    """-> list of disagreements: dict(case, flavour, step, impl, model, kind)"""
    dis = []
    for c in cases:
        for fl in fls:
            if fl not in FLAVOURS[c.cls]:
                continue
            m = results.get("model:" + fl, results["model"]).get(c.name)
            if c.name in results["hangs"][fl]:
                dis.append(dict(case=c.name, flavour=fl, step=-1, impl="HANG", model="", kind="hang"))
                continue
            r = results[fl].get(c.name)
            if r is None or m is None:
                dis.append(dict(case=c.name, flavour=fl, step=-1, impl=str(r)[:80], model=str(m)[:80], kind="missing"))
                continue
            for i in range(max(len(r), len(m))):
                a = r[i] if i < len(r) else None
                b = m[i] if i < len(m) else None
                if a is not None and a[1] == "skip":
                    continue   # step restricted to another flavour
                if b is not None and b[1] == "exercise-only" and a is not None:
                    continue   # implementation-only exercise (decided by the oracle: no panic, sane result)
                if a != b:
                    dis.append(dict(case=c.name, flavour=fl, step=(a or b)[0],
                                    impl=a[1] if a else None, model=b[1] if b else None, kind="diff"))
                    break
    return dis


# ----------------------------------------------------------------------------
# proof stage
# ----------------------------------------------------------------------------
def proof_stage(prop, timeout=1500, tier="quick"):
    """compile everything props/<prop>.v needs, then re-run coqc on the props file to capture
    Print Assumptions.  returns dict(obligations, discharged, theorems, ok, log)"""
    relv = "props/%s.v" % prop
    res = dict(obligations=0, discharged=0, theorems=[], ok=False, log="", checker_cmd="")
    bad = lint_coq()
    if bad:
        res["log"] = "forbidden constructs: " + "; ".join(bad)
        return res
    src = strip_coq_comments(open(os.path.join(COQ, relv)).read())
    names = re.findall(r"^\s*Theorem\s+(\w+)", src, flags=re.M)
    res["obligations"] = len(names)
    with Lock("coq.lock"):
        rc, out = build_coq([relv + "o"], timeout=timeout)
    if rc != 0:
        res["log"] = out[-6000:]
        # which theorems are affected is not known: none is discharged
        return res
    os.makedirs(os.path.join(CACHE, "props"), exist_ok=True)
    cmd = "coqc -q -Q model Gdsl.Model -Q proofs Gdsl.Proofs -Q props Gdsl.Props -Q gen Gdsl.Gen -o %s %s" % (
        os.path.join(CACHE, "props", "%s.vo" % prop), relv)
    res["checker_cmd"] = "make -C coq %so && (cd coq && %s)" % (relv, cmd)
    rc, out = sh("timeout %d %s" % (timeout, cmd), cwd=COQ, timeout=timeout + 30)
    if rc != 0:
        res["log"] = out[-6000:]
        return res
    # parse Print Assumptions blocks: they come in file order, one per "Print Assumptions name."
    printed = re.findall(r"Print\s+Assumptions\s+(\w+)\s*\.", src)
    blocks = split_assumption_blocks(out)
    thms = []
    for i, nm in enumerate(printed):
        blk = blocks[i] if i < len(blocks) else None
        thms.append(dict(name=nm, assumptions=blk))
    ok_names = set()
    for t in thms:
        if t["assumptions"] is None:
            continue
        if t["assumptions"] == "Closed under the global context":
            ok_names.add(t["name"])
        else:
            axs = set(re.findall(r"^(\S+)\s*:", t["assumptions"], flags=re.M))
            if axs and axs <= ALLOWED_AXIOMS:
                ok_names.add(t["name"])
    res["theorems"] = thms
    res["discharged"] = len([n for n in names if n in ok_names])
    missing = [n for n in names if n not in ok_names]
    res["ok"] = (not missing) and len(names) > 0
    if missing:
        res["log"] = "theorems without an allowed assumption set: %s\n%s" % (missing, out[-3000:])
    if res["ok"] and tier == "thorough":
        # independent re-check of the compiled property file and everything it depends on (coqchk re-type-checks the .vo
        # files with a separate checker and lists the axioms and any switched-off kernel check in the whole closure)
        ck = "coqchk -o -silent -Q model Gdsl.Model -Q proofs Gdsl.Proofs -Q props Gdsl.Props -Q gen Gdsl.Gen Gdsl.Props.%s" % prop
        rc, out = sh("timeout 1500 %s" % ck, cwd=COQ, timeout=1560)
        summary = out[out.find("CONTEXT SUMMARY"):] if "CONTEXT SUMMARY" in out else out[-2000:]
        want = ["* Axioms: <none>", "relying on type-in-type: <none>", "relying on unsafe (co)fixpoints: <none>", "positivity is assumed: <none>"]
        good = rc == 0 and all(w in summary for w in want)
        res["coqchk"] = dict(cmd=ck, ok=good, summary=" ".join(summary.split())[:600])
        res["checker_cmd"] += " && (cd coq && %s)" % ck
        if not good:
            res["ok"] = False
            res["discharged"] = 0
            res["log"] = "coqchk did not accept the closure of props/%s.vo with an empty axiom list:\n%s" % (prop, summary[-2500:])
    return res


def split_assumption_blocks(out):
    blocks, cur = [], None
    for line in out.splitlines():
        if line.startswith("Closed under the global context"):
            if cur is not None:
                blocks.append("\n".join(cur))
                cur = None
            blocks.append("Closed under the global context")
        elif line.startswith("Axioms:"):
            if cur is not None:
                blocks.append("\n".join(cur))
            cur = []
        elif cur is not None:
            if line.strip() == "" or line.startswith("Warning") or line.startswith("File "):
                blocks.append("\n".join(cur))
                cur = None
            else:
                cur.append(line)
    if cur is not None:
        blocks.append("\n".join(cur))
    return blocks


# ----------------------------------------------------------------------------
# known findings
# ----------------------------------------------------------------------------
def known_findings(prop):
    p = os.path.join(VERIF, "KNOWN_FINDINGS.txt")
    out = []
    if not os.path.exists(p):
        return out
    for line in open(p):
        line = line.strip()
        if not line.startswith("finding:"):
            continue
        kv = dict(re.findall(r"(\w+)=(\S+)", line))
        if kv.get("property") == prop:
            kv["text"] = line.split(" -- ", 1)[1] if " -- " in line else line
            out.append(kv)
    return out


# ----------------------------------------------------------------------------
# evidence
# ----------------------------------------------------------------------------
TRUSTED_BASE = [
    "Coq 8.16.1 kernel (coqc .vo build; vm_compute in Examples/refutations; no native_compute); thorough tier: coqchk -o -silent re-checks the property's .vo closure (empty axiom list, no switched-off check required)",
    "axioms: none declared by the development; every property theorem must print 'Closed under the global context'",
    "extraction: Coq.extraction.ExtrOcamlBasic only (bool, option, unit, list, prod, sumbool, sumor, andb, orb); no Extract Constant/Inductive of our own; OCaml 4.13.1",
    "hand-written OCaml driver (case parser incl. arbitrary-precision literals and u64/i64 range checks, printers, schedule enumerator over the model's cstep, wrap_cb closure running extra steps from inside callbacks) and Rust harness (case parser, printers, watchdog, cooperative scheduler, iterator-consumer variants)",
    "cases named deep* (thousands of nodes) are decided by the independent Python oracle only; the model skips them",
    "the model is hand-written from src/; its tie to /repo's working tree is this run's differential correspondence (bounded by the generators reported here)",
    "Rc/Arc/RefCell/RwLock, ahash, serde codecs, rustc are outside the model",
]


def write_evidence(prop, tier, seed, coverage, wall, violations, assumptions=None):
    # evidence of runs against another tree (seeded change, mutant, refactoring: GDSL_REPO override) goes to that run's cache,
    # never into /verif/evidence, which describes the tree in /repo only
    evdir = os.environ.get("VERIF_EVIDENCE") or (os.path.join(VERIF, "evidence") if os.path.abspath(REPO) == "/repo" else os.path.join(CACHE, "evidence"))
    os.makedirs(evdir, exist_ok=True)
    coverage = dict(coverage)
    if coverage.get("discharged", 1) == 0:
        # schema: a proof-level file with discharged=0 is not valid evidence; keep the count under another key
        coverage["discharged_count"] = coverage.pop("discharged")
        coverage.setdefault("evaluations", 1)
        coverage.setdefault("distinct_nontrivial", 2)
    ev = dict(property_id=prop, tier=tier, seed=seed, level="proof", coverage=coverage,
              assumptions=assumptions or [], wall_s=round(wall, 2), violations=violations)
    with open(os.path.join(evdir, "%s.json" % prop), "w") as f:
        json.dump(ev, f, indent=1)


def case_hash(c):
    return hashlib.sha1(("\n".join(c.steps) + c.cls).encode()).hexdigest()
