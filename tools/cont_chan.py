# cont_chan.py — generators and oracles for the container / scc / serde channels (C11, C12, C13, C18)
import itertools, json, random, re
from vlib import Case
import search_chan as sc
import node_chan as nc

EDGE = sc.EDGE


def parse_ord(text):
    m = re.match(r"ord \[([^\]]*)\] ?(.*)$", text)
    if not m:
        return None, text
    return [int(x) for x in m.group(1).split()], m.group(2)


def parse_gsnap(text, cls):
    """`[k v out(..) in(..)]...` or `[k v adj(..)]...` -> dict key -> node dict"""
    nodes = {}
    for m in re.finditer(r"\[(-?\d+) (-?\d+) ([^\]]*)\]", text):
        k, v, rest = int(m.group(1)), int(m.group(2)), m.group(3)
        nd = dict(key=k, val=v)
        if cls == "D":
            o, i = rest.split(" in", 1)
            nd["out"] = [(int(a), int(b), int(c)) for a, b, c in EDGE.findall(o)]
            nd["in"] = [(int(a), int(b), int(c)) for a, b, c in EDGE.findall(i)]
        else:
            nd["adj"] = [(int(a), int(b), int(c)) for a, b, c in EDGE.findall(rest)]
        if k in nodes:
            return None
        nodes[k] = nd
    return nodes


# ----------------------------------------------------------------------------
# C11: scc
# ----------------------------------------------------------------------------
def true_sccs(n, edges):
    reach = [[i == j for j in range(n)] for i in range(n)]
    for (u, v) in edges:
        reach[u][v] = True
    for k in range(n):
        for i in range(n):
            if reach[i][k]:
                for j in range(n):
                    if reach[k][j]:
                        reach[i][j] = True
    comps, seen = [], set()
    for i in range(n):
        if i in seen:
            continue
        c = [j for j in range(n) if reach[i][j] and reach[j][i]]
        seen.update(c)
        comps.append(frozenset(c))
    return set(comps)


GNEW = ["gnew", "gnew", "gnew cap 0", "gnew cap 1", "gnew cap 42", "gnew def"]   # Graph::new / with_capacity / Default


def scc_case(name, keys, edges, rng, ncontainers=3):
    n = len(keys)
    # node values differ (Node's Ord compares values) and edge values repeat: neither may influence the partition
    steps = ["new %d %d" % (k, rng.randint(-4, 4)) for k in keys]
    steps += ["con %d %d %d" % (u, v, (10 + i) if i % 3 else 10) for i, (u, v) in enumerate(edges)]
    for gi in range(ncontainers):
        steps.append(rng.choice(GNEW))
        order = list(range(n))
        if gi == 1:
            order.reverse()
        elif gi > 1:
            rng.shuffle(order)
        for u in order:
            steps.append("gins %d %d" % (gi, u))
        steps.append("gscc %d" % gi)
    # scc() again on the same containers after the EDGES changed (edge changes go through the nodes, not through the
    # container): the partition must be that of the current graph, and a repeated call without a change must repeat it
    if n >= 1:
        for j in range(rng.randint(1, 3)):
            u, v = rng.randrange(n), rng.randrange(n)
            r = rng.random()
            steps.append("con %d %d %d" % (u, v, 500 + j) if r < 0.55 else "dis %d %d" % (u, keys[v]) if r < 0.9 else "iso %d" % u)
        steps += ["gscc 0", "gscc 0", "gscc %d" % (ncontainers - 1)]
    return Case(name, "D", steps, dict(kind="scc", nodes=n, edges=len(edges)))


def gen_scc(rng, tier):
    cases = []
    idx = 0
    # the degenerate containers: never populated, one member, emptied again
    for v, newc in enumerate(GNEW[:3]):
        cases.append(Case("sccE%d" % v, "D", [newc, "gscc 0", "new 7 0", "gins 0 0", "gscc 0", "con 0 0 5", "gscc 0", "grem 0 7", "gscc 0", "gscc 0"],
                          dict(kind="scc-of-empty-and-singleton-containers")))
    nmax = 4 if tier == "thorough" else 3
    for n in range(1, nmax + 1):
        pairs = [(u, v) for u in range(n) for v in range(n)]
        space = range(1 << len(pairs))
        if n == 4 and tier != "thorough":
            continue
        for mask in space:
            edges = [p for i, p in enumerate(pairs) if mask >> i & 1]
            if n == 4 and len(edges) > 9 and rng.random() < 0.8:
                continue   # thorough: all graphs with <= 9 edges, a fifth of the denser ones
            cases.append(scc_case("scc%d" % idx, sc.KEYS4[:n], edges, rng, 2 if n == 4 else 3))
            idx += 1
    if tier != "thorough":
        # 4-node graphs: a seeded sample in the quick tier
        pairs = [(u, v) for u in range(4) for v in range(4)]
        for i in range(400):
            edges = [p for p in pairs if rng.random() < rng.choice([0.15, 0.3, 0.5])]
            cases.append(scc_case("sccq%d" % i, sc.KEYS4[:4], edges, rng, 2))
    # dense graphs on 5..9 nodes: high in-/out-degrees, parallel edges, many different component structures
    for i in range(6000 if tier == "thorough" else 1200):
        n = rng.randint(5, 9)
        keys = rng.sample(range(1, 500), n)
        p = rng.choice([0.15, 0.25, 0.4, 0.6])
        edges = [(u, v) for u in range(n) for v in range(n) if rng.random() < p]
        if rng.random() < 0.5:
            # layered: a DAG part feeding into cycles (edges from lower to higher index) plus a few back edges
            edges = [(u, v) for (u, v) in edges if u < v] + [(rng.randrange(n), rng.randrange(n)) for _ in range(rng.randint(0, 4))]
        rng.shuffle(edges)
        if rng.random() < 0.3:
            edges += [rng.choice(edges) for _ in range(rng.randint(1, 4))] if edges else []
        cases.append(scc_case("sccD%d" % i, keys, edges, rng, 2))
    for i in range(3000 if tier == "thorough" else 400):
        n = rng.randint(2, 30)
        keys = rng.sample(range(1, 500), n)
        m = rng.randint(0, 3 * n)
        edges = []
        for j in range(m):
            u = rng.randrange(n)
            v = rng.randrange(n) if rng.random() < 0.9 else u
            edges.append((u, v))
        # parallel edges allowed
        cases.append(scc_case("sccR%d" % i, keys, edges, rng, 3))
    # graphs with a history: parallel edges connected and disconnected again, isolates, refused try_connects, then scc
    for i in range(3000 if tier == "thorough" else 600):
        n = rng.randint(2, 7)
        keys = rng.sample(range(1, 500), n)
        steps = ["new %d %d" % (k, rng.randint(-4, 4)) for k in keys]
        for j in range(rng.randint(2, 3 * n)):
            u, v = rng.randrange(n), rng.randrange(n)
            steps.append("con %d %d %d" % (u, v, 10 + j))
            if rng.random() < 0.35:
                steps.append("con %d %d %d" % (u, v, 50 + j))     # a parallel edge
        for j in range(rng.randint(1, 8)):
            r = rng.random()
            u, v = rng.randrange(n), rng.randrange(n)
            if r < 0.6:
                steps.append("dis %d %d" % (u, keys[v]))
            elif r < 0.7:
                steps.append("iso %d" % u)
            elif r < 0.8:
                steps.append("try %d %d %d" % (u, v, 90 + j))
            else:
                steps.append("con %d %d %d" % (u, v, 70 + j))
        steps.append("snap")
        for gi in range(2):
            steps.append(rng.choice(GNEW))
            order = list(range(n))
            rng.shuffle(order)
            steps += ["gins %d %d" % (gi, u) for u in order]
        steps += ["gscc 0", "gscc 1"]
        cases.append(Case("sccM%d" % i, "D", steps, dict(kind="scc-after-removals", nodes=n)))
    # large graphs: long cycles, chains of components, sparse random graphs on 80-200 nodes
    for i in range(60 if tier == "thorough" else 6):
        n = rng.randint(80, 200)
        keys = rng.sample(range(1, 5000), n)
        shape = i % 3
        if shape == 0:
            edges = [(rng.randrange(n), rng.randrange(n)) for _ in range(rng.randint(n, 2 * n))]
        elif shape == 1:
            # rings of random length chained by forward edges
            edges, start = [], 0
            while start < n:
                ln = min(rng.randint(1, 25), n - start)
                edges += [(start + j, start + (j + 1) % ln) for j in range(ln)]
                if start:
                    edges.append((rng.randrange(start), start + rng.randrange(ln)))
                start += ln
        else:
            edges = [(u, u + 1) for u in range(n - 1)] + [(rng.randrange(n), rng.randrange(n)) for _ in range(8)]
        rng.shuffle(edges)
        cases.append(scc_case("sccL%d" % i, keys, edges, rng, 2))
    return cases


def oracle_scc(case, obs):
    if obs == "HANG":
        return "scc never returns"
    # the directed multigraph and the member sets AS OF EVERY STEP (edges change between two scc() calls on one container)
    keys, edges, members = [], [], {}
    edges_at, members_at = [], []
    for s in case.steps:
        t = s.split()
        if t[0] == "new":
            keys.append(int(t[1]))
        elif t[0] == "con":
            edges.append((int(t[1]), int(t[2])))
        elif t[0] == "try":
            if (int(t[1]), int(t[2])) not in edges:
                edges.append((int(t[1]), int(t[2])))
        elif t[0] == "dis":
            u, k = int(t[1]), int(t[2])
            for i, (a, b) in enumerate(edges):
                if a == u and keys[b] == k:
                    del edges[i]
                    break
        elif t[0] == "iso":
            u = int(t[1])
            edges[:] = [(a, b) for (a, b) in edges if a != u and b != u]
        elif t[0] == "gins":
            members.setdefault(int(t[1]), set()).add(int(t[2]))
        elif t[0] == "grem":
            g, k = int(t[1]), int(t[2])
            members[g] = set(u for u in members.get(g, set()) if keys[u] != k)
        edges_at.append(list(edges))
        members_at.append({g: set(m) for g, m in members.items()})
    for (si, text) in obs:
        st = case.steps[si]
        if text.startswith("panic"):
            return "step %d `%s` panicked" % (si, st)
        if st.startswith("gscc"):
            edges = edges_at[si]
            mem = members_at[si].get(int(st.split()[1]), set())
            if any((u in mem) != (v in mem) for (u, v) in edges) or any(u not in mem for (u, v) in edges if v in mem):
                continue   # a member has a neighbour outside the container: outside the property's hypothesis
            allsccs = true_sccs(len(keys), edges)
            want = set(frozenset(keys[i] for i in c) for c in allsccs if c <= mem)
            keys_m = [keys[i] for i in sorted(mem)]
            order, rest = parse_ord(text)
            if order is None or not rest.startswith("comps"):
                return "step %d: unexpected output %s" % (si, text[:80])
            comps = [[int(x) for x in c.split()] for c in re.findall(r"\[([^\]]*)\]", rest)]
            if any(len(c) == 0 for c in comps):
                return "step %d: scc() returned an EMPTY component: %s" % (si, comps)
            flat = [k for c in comps for k in c]
            if sorted(flat) != sorted(keys_m):
                return "step %d: components %s are not a partition of the members %s (container order %s)" % (si, comps, sorted(keys_m), order)
            got = set(frozenset(c) for c in comps)
            if got != want:
                return "step %d: scc() = %s but the strongly connected components are %s (container order %s)" % (
                    si, sorted(sorted(c) for c in got), sorted(sorted(c) for c in want), order)
    return None


# ----------------------------------------------------------------------------
# C18: containers
# ----------------------------------------------------------------------------
QUERIES_D = ["glen 0", "gvec 0", "giter 0", "groots 0", "gleaves 0", "gorph 0", "gdot 0"]
QUERIES_U = ["glen 0", "gvec 0", "giter 0", "gorph 0", "gdot 0"]


def battery(cls, keys):
    q = []
    for k in keys + [77]:
        q += ["gget 0 %d" % k, "ghas 0 %d" % k, "gidx 0 %d" % k]
    q += (QUERIES_D if cls == "D" else QUERIES_U)
    return q


def gen_container(cls, rng, tier):
    cases = []
    keys = [5, 3, 9]
    # node 3 carries key 5 again: insert must keep the original
    base = ["new 5 1", "new 3 2", "new 9 3", "new 5 4", "con 0 1 10", "con 1 2 11", "con 2 2 12", "con 0 1 13", "gnew"]
    muts = ["gins 0 %d" % u for u in range(4)] + ["grem 0 %d" % k for k in keys]
    depth = 4 if tier == "thorough" else 3
    idx = 0
    for m in range(depth + 1):
        for hist in itertools.product(muts, repeat=m):
            steps = list(base)
            for op in hist:
                steps.append(op)
                steps.append("glen 0")
            steps += battery(cls, keys)
            # changes made through handles handed out by the container are visible everywhere
            steps += ["gcon 0 5 3 50", "gcon 0 9 9 51", "snap"]
            steps += (QUERIES_D if cls == "D" else QUERIES_U)
            # ... and edge operations on members and non-members show up in the views
            steps += ["dis 1 9", "iso 0", "con 3 1 60", "snap"] + (QUERIES_D if cls == "D" else QUERIES_U)
            cases.append(Case("k%s%d" % (cls, idx), cls, steps, dict(kind="container-history", muts=m)))
            idx += 1
    # DOT exports with every attribute-callback combination on a fixed and on random graphs
    for gi in range(40 if tier == "thorough" else 8):
        g = sc.random_graph(cls, rng, maxn=8 if gi % 2 else 20, maxe=14 if gi % 2 else 45)
        # from the third graph on only a part of the nodes are members: edges cross the membership boundary both ways
        steps = g.steps() + ["gnew"] + ["gins 0 %d" % u for u in range(g.n) if gi < 2 or rng.random() < 0.7]
        for ga in (0, 1, 2):
            for na in (0, 1, 2, 3):
                for ea in (0, 1, 2, 3, 4, 5, 6):
                    if cls == "U":
                        steps.append("only:ungraph gdota 0 %d %d %d" % (ga, na, ea))
                    else:
                        steps.append("gdota 0 %d %d %d" % (ga, na, ea))
        steps.append("gdot 0")
        cases.append(Case("dot%s%d" % (cls, gi), cls, steps, dict(kind="dot", nodes=g.n)))
    # DOT exports of empty containers (never populated; emptied by remove) with every callback combination
    for variant in range(2):
        ks = [7, 8]
        steps = ["new 7 1", "new 8 2", "con 0 1 5", "gnew"]
        if variant:
            steps += ["gins 0 0", "gins 0 1", "grem 0 99", "grem 0 7", "grem 0 8"]
        for ga in (0, 1, 2):
            for na in (0, 1):
                for ea in (0, 1):
                    steps.append(("only:ungraph " if cls == "U" else "") + "gdota 0 %d %d %d" % (ga, na, ea))
        steps += ["gdot 0", "glen 0", "gvec 0", "gorph 0"]
        cases.append(Case("dotE%s%d" % (cls, variant), cls, steps, dict(kind="dot-empty-container")))
    # dense hubs: few nodes, many edges in both directions, then removals, then the views
    for ci in range(1500 if tier == "thorough" else 300):
        n = rng.randint(3, 6)
        ks = rng.sample(range(1, 60), n)
        steps = ["new %d %d" % (k, rng.randint(-3, 3)) for k in ks] + [rng.choice(GNEW)] + ["gins 0 %d" % u for u in range(n)]
        for j in range(rng.randint(12, 40)):
            steps.append("con %d %d %d" % (rng.randrange(n), rng.randrange(n), rng.randint(0, 40)))
        for j in range(rng.randint(1, 4)):
            r = rng.random()
            u = rng.randrange(n)
            steps.append("iso %d" % u if r < 0.6 else "dis %d %d" % (u, ks[rng.randrange(n)]))
            steps += ["snap"] + (QUERIES_D if cls == "D" else QUERIES_U)
        cases.append(Case("kh%s%d" % (cls, ci), cls, steps, dict(kind="dense-hub-history")))
    # random long histories
    for ci in range(2000 if tier == "thorough" else 400):
        n = rng.randint(2, 8) if ci % 3 else rng.randint(9, 28)
        ks = rng.sample(range(1, 60), n)
        steps = ["new %d %d" % (k, rng.randint(-3, 3)) for k in ks] + [rng.choice(GNEW), rng.choice(GNEW)]
        if n > 8:
            # large containers: most nodes are members of graph 0 from the start
            steps += ["gins 0 %d" % u for u in rng.sample(range(n), n - rng.randint(0, 3))]
        for j in range(rng.randint(20, 80)):
            r = rng.random()
            g = rng.randrange(2)
            u = rng.randrange(n)
            k = ks[rng.randrange(n)] if rng.random() < 0.9 else 0
            if r < 0.25:
                steps.append("gins %d %d" % (g, u))
            elif r < 0.35:
                steps.append("grem %d %d" % (g, k))
            elif r < 0.55:
                steps.append("con %d %d %d" % (u, rng.randrange(n), rng.randint(0, 40)))
            elif r < 0.62:
                steps.append("dis %d %d" % (u, k))
            elif r < 0.66:
                steps.append("iso %d" % u)
            elif r < 0.74:
                steps.append(rng.choice(["gget", "ghas"]) + " %d %d" % (g, k))
            elif r < 0.95:
                qs = ["glen", "gvec", "giter", "gorph", "gdot"] + (["groots", "gleaves"] if cls == "D" else [])
                steps.append("%s %d" % (rng.choice(qs), g))
            else:
                steps.append(("only:ungraph " if cls == "U" else "") + "gdota %d %d %d %d" % (g, rng.randrange(3), rng.randrange(4), rng.randrange(7)))
        steps.append("snap")
        cases.append(Case("kr%s%d" % (cls, ci), cls, steps, dict(kind="random-container-history")))
    # large containers (100-300 members): views and lookups after many inserts / removes
    for ci in range(30 if tier == "thorough" else 4):
        n = rng.randint(100, 300)
        ks = rng.sample(range(1, 100000), n)
        steps = ["new %d %d" % (k, rng.randint(-3, 3)) for k in ks] + [rng.choice(GNEW)]
        steps += ["gins 0 %d" % u for u in rng.sample(range(n), n - rng.randint(0, 20))]
        for j in range(rng.randint(n, 3 * n)):
            steps.append("con %d %d %d" % (rng.randrange(n), rng.randrange(n), rng.randint(0, 40)))
        for j in range(rng.randint(20, 60)):
            r = rng.random()
            u = rng.randrange(n)
            k = ks[rng.randrange(n)]
            if r < 0.3:
                steps.append("grem 0 %d" % k)
            elif r < 0.5:
                steps.append("gins 0 %d" % u)
            elif r < 0.6:
                steps.append("iso %d" % u)
            elif r < 0.7:
                steps.append("dis %d %d" % (u, k))
            elif r < 0.85:
                steps.append(rng.choice(["gget", "ghas", "gidx"]) + " 0 %d" % k)
            else:
                qs = ["glen", "gvec", "giter", "gorph", "gdot"] + (["groots", "gleaves"] if cls == "D" else [])
                steps.append("%s 0" % rng.choice(qs))
        steps += ["glen 0", "gorph 0", "gvec 0"]
        cases.append(Case("kL%s%d" % (cls, ci), cls, steps, dict(kind="large-container-history")))
    # members that only the container owns (created inside it, connected through handles fetched from it): remove must hand
    # back the member itself with its edges untouched, and leave the remaining members' views unchanged
    for ci in range(1500 if tier == "thorough" else 200):
        n = rng.randint(2, 6)
        ks = rng.sample(range(1, 60), n)
        steps = [rng.choice(GNEW)] + ["gnn 0 %d %d" % (k, rng.randint(-3, 3)) for k in ks]
        if rng.random() < 0.3:
            steps.append("gnn 0 %d 9" % rng.choice(ks))      # refused duplicate
        for j in range(rng.randint(1, 3 * n)):
            steps.append("gcon 0 %d %d %d" % (rng.choice(ks), rng.choice(ks), rng.randint(0, 40)))
        qs = ["glen", "gvec", "gorph", "gdot"] + (["groots", "gleaves"] if cls == "D" else [])
        steps += ["gsnap 0"] + ["%s 0" % q for q in qs]
        for j in range(rng.randint(1, 3)):
            steps.append("grem 0 %d" % (rng.choice(ks) if rng.random() < 0.9 else 77))
            steps += ["gsnap 0"] + ["%s 0" % q for q in rng.sample(qs, 3)]
        cases.append(Case("ko%s%d" % (cls, ci), cls, steps, dict(kind="container-owned-members")))
    # twins: several live node objects share a key (rejected duplicates, members replaced after remove while the old
    # object is still linked); connect / try_connect / disconnect / lookups between all of them, then the views
    for ci in range(1500 if tier == "thorough" else 300):
        n = rng.randint(3, 7)
        pool = rng.sample(range(1, 30), rng.randint(2, 3))
        ks = [rng.choice(pool) for _ in range(n)]
        steps = ["new %d %d" % (k, rng.randint(-3, 3)) for k in ks] + [rng.choice(GNEW)]
        steps += ["gins 0 %d" % u for u in range(n)]
        for j in range(rng.randint(10, 40)):
            r = rng.random()
            u, v = rng.randrange(n), rng.randrange(n)
            k = ks[rng.randrange(n)]
            if r < 0.25:
                steps.append("con %d %d %d" % (u, v, rng.randint(0, 40)))
            elif r < 0.50:
                steps.append("try %d %d %d" % (u, v, rng.randint(0, 40)))
            elif r < 0.70:
                # (no disconnect / isolate here: removing by key among same-key neighbours is outside C01-C03's proviso
                # of distinct keys and the model does not follow the implementation there)
                steps.append("qry %d %d" % (u, k))
            elif r < 0.78:
                steps += ["grem 0 %d" % k, "gins 0 %d" % rng.choice([i for i in range(n) if ks[i] == k])]
            elif r < 0.84:
                steps.append("gins 0 %d" % u)
            else:
                qs = ["glen", "gvec", "gorph", "gdot"] + (["groots", "gleaves"] if cls == "D" else [])
                steps.append("%s 0" % rng.choice(qs))
        steps.append("snap")
        cases.append(Case("kt%s%d" % (cls, ci), cls, steps, dict(kind="same-key-twins-history")))
    return cases


def oracle_container(case, obs):
    """map model: decide C18 on the implementation's observations"""
    if obs == "HANG":
        return "call never returns"
    cls = case.cls
    nkeys, nvals = [], []
    graphs = []                 # list of dict key -> node index
    out, inn = {}, {}           # per node index adjacency (by node index) — follows the contract of C03
    for (si, text) in obs:
        if si >= len(case.steps):
            break
        st = case.steps[si]
        t = st.split()
        if t[0].startswith("only:"):
            if text == "skip":
                continue
            t = t[1:]
        if text.startswith("panic") and t[0] not in ("gidx", "gcon"):
            return "step %d `%s` panicked" % (si, st)
        op = t[0]
        if op == "new":
            nkeys.append(int(t[1]))
            nvals.append(int(t[2]))
            out[len(nkeys) - 1] = []
            inn[len(nkeys) - 1] = []
        elif op == "gnew":
            graphs.append({})
        elif op == "gnn":
            # a member created inside the container (no outside handle)
            g = graphs[int(t[1])]
            k = int(t[2])
            nkeys.append(k)
            nvals.append(int(t[3]))
            out[len(nkeys) - 1] = []
            inn[len(nkeys) - 1] = []
            want = 0 if k in g else 1
            if text != "ok %d" % want:
                return "step %d `%s`: insert returned %s, key present before = %s" % (si, st, text, k in g)
            if want:
                g[k] = len(nkeys) - 1
        elif op == "con":
            u, v, e = int(t[1]), int(t[2]), int(t[3])
            out[u].append((v, e))
            inn[v].append((u, e))
        elif op == "gcon":
            g = graphs[int(t[1])]
            a, b = g.get(int(t[2])), g.get(int(t[3]))
            if a is None or b is None:
                if not text.startswith("panic"):
                    return "step %d `%s`: expected a panic (missing member)" % (si, st)
            else:
                if text != "ok":
                    return "step %d `%s` -> %s" % (si, st, text)
                out[a].append((b, int(t[4])))
                inn[b].append((a, int(t[4])))
        elif op in ("dis", "iso", "try"):
            if len(set(nkeys)) != len(nkeys):
                return None  # same-key twins: removal / lookup by key is outside the distinct-keys proviso; stop deciding views
            # follow the multigraph contract of C03 on the reference adjacency (multisets are all the views need)
            if text.startswith("panic"):
                return "step %d `%s` panicked" % (si, st)
            u = int(t[1])
            if op == "try":
                v, e = int(t[2]), int(t[3])
                has = any(w == v for (w, _) in out[u]) or (cls == "U" and any(w == v for (w, _) in inn[u]))
                if not has:
                    out[u].append((v, e))
                    inn[v].append((u, e))
            elif op == "iso":
                out[u], inn[u] = [], []
                for w in out:
                    out[w] = [(x, e) for (x, e) in out[w] if x != u]
                    inn[w] = [(x, e) for (x, e) in inn[w] if x != u]
            else:
                k = int(t[2])
                if k in nkeys:
                    v = nkeys.index(k)
                    def take(lst, w, val=None):
                        for i, (x, e) in enumerate(lst):
                            if x == w and (val is None or e == val):
                                return lst.pop(i)[1]
                        return None
                    if cls == "U":
                        e0 = take(inn[u], v)
                        if e0 is not None:
                            take(out[v], u, e0)
                        else:
                            e0 = take(out[u], v)
                            if e0 is not None:
                                take(inn[v], u, e0)
                    else:
                        e0 = take(out[u], v)
                        if e0 is not None:
                            take(inn[v], u, e0)
        elif op == "gins":
            g = graphs[int(t[1])]
            u = int(t[2])
            k = nkeys[u]
            want = 0 if k in g else 1
            if text != "ok %d" % want:
                return "step %d `%s`: insert returned %s, key present before = %s" % (si, st, text, k in g)
            if want:
                g[k] = u
        elif op == "grem":
            g = graphs[int(t[1])]
            k = int(t[2])
            want = "some %d" % k if k in g else "none"
            if (text.split(" deg ")[0] if text.startswith("some") else text) != want:
                return "step %d `%s` -> %s, expected %s" % (si, st, text, want)
            if k in g and " deg " in text and len(set(nkeys)) == len(nkeys):
                u = g[k]
                d = len(out[u]) + len(inn[u])
                if int(text.split(" deg ")[1]) != d:
                    return "step %d `%s`: the node handed back by remove has %s edge entries, the member had %d (remove must not touch edges)" % (si, st, text.split(" deg ")[1], d)
            g.pop(k, None)
        elif op == "gget":
            g = graphs[int(t[1])]
            k = int(t[2])
            if text != ("get %d" % k if k in g else "get -"):
                return "step %d `%s` -> %s" % (si, st, text)
        elif op == "ghas":
            g = graphs[int(t[1])]
            if text != "has %d" % int(int(t[2]) in g):
                return "step %d `%s` -> %s" % (si, st, text)
        elif op == "gidx":
            g = graphs[int(t[1])]
            k = int(t[2])
            if k in g and text != "idx %d" % k:
                return "step %d `%s` -> %s" % (si, st, text)
            if k not in g and not text.startswith("panic"):
                return "step %d `%s`: indexing an absent key did not panic" % (si, st)
        elif op == "glen":
            g = graphs[int(t[1])]
            if text != "len %d emp %d" % (len(g), int(len(g) == 0)):
                return "step %d `%s` -> %s, members %s" % (si, st, text, sorted(g))
        elif op in ("gvec", "giter", "groots", "gleaves", "gorph"):
            g = graphs[int(t[1])]
            order, rest = parse_ord(text)
            if order is None or not rest.startswith("res"):
                return "step %d `%s`: unexpected %s" % (si, st, text[:60])
            got = [int(x) for x in rest.split()[1:]]
            mem = sorted(g)
            if sorted(order) != mem:
                return "step %d `%s`: iteration yields %s, members are %s" % (si, st, sorted(order), mem)
            if op in ("gvec", "giter"):
                want = mem
            elif op == "groots":
                want = sorted(k for k in mem if not inn[g[k]])
            elif op == "gleaves":
                want = sorted(k for k in mem if not out[g[k]])
            else:
                want = sorted(k for k in mem if not inn[g[k]] and not out[g[k]])
            if sorted(got) != want:
                return "step %d `%s` -> %s, expected (as a set) %s" % (si, st, sorted(got), want)
        elif op in ("gdot", "gdota"):
            g = graphs[int(t[1])]
            order, rest = parse_ord(text)
            if order is None or not rest.startswith("dot"):
                return "step %d `%s`: unexpected %s" % (si, st, text[:60])
            toks = rest.split()[1:]
            if not toks or toks[0] != "OPEN" or toks[-1] != "CLOSE" or toks.count("OPEN") != 1 or toks.count("CLOSE") != 1:
                return "step %d `%s`: the export is not framed by one `digraph {` line and one closing brace: %s ... %s" % (si, st, toks[:2], toks[-2:])
            nodes_t = [x for x in toks if x.startswith("N:")]
            edges_t = [x for x in toks if x.startswith("E:")]
            # graph attributes: exactly those the graph callback supplies (variant 1: rankdir and label; 0 and 2: none)
            gattrs = sorted(x for x in toks if x.startswith("G:"))
            want_g = sorted(['G:rankdir="LR"', 'G:label="g"']) if (op == "gdota" and t[2] == "1") else []
            if gattrs != want_g:
                return "step %d `%s`: graph attribute statements %s, the callback supplies %s" % (si, st, gattrs, want_g)
            mem = sorted(g)
            if sorted(int(x.split(":")[1]) for x in nodes_t) != mem:
                return "step %d `%s`: node statements %s, members %s" % (si, st, nodes_t, mem)
            # node attributes: exactly what the node callback supplies, verbatim (variant 1: a label with a GraphViz escape;
            # variant 2: label and value for even keys only)
            na = t[3] if op == "gdota" else "0"
            want_n = []
            for k in mem:
                if na == "1" or (na == "2" and k % 2 == 0):
                    a = '[label="n%d\\l"]' % k
                    if na == "2":
                        a += '[v="%d"]' % nvals[g[k]]
                    want_n.append("N:%d:%s" % (k, a))
                else:
                    want_n.append("N:%d" % k)
            if sorted(nodes_t) != sorted(want_n):
                bad = sorted(set(nodes_t) ^ set(want_n))[:4]
                return "step %d `%s`: node statements differ from what the callback supplies, e.g. %s" % (si, st, bad)
            # edge statements with exactly the attributes the edge callback supplies for (source, target, value) IN THAT ORDER
            ea = t[4] if op == "gdota" else "0"
            want = []
            for k in mem:
                u = g[k]
                lst = out[u] if cls == "D" else out[u] + inn[u]
                for (v, e) in lst:
                    kv = nkeys[v]
                    if ea == "1" or (ea == "2" and e % 2 == 0) or (ea == "4" and k < kv):
                        want.append('E:%d>%d:[w="%d"]' % (k, kv, e))
                    elif ea == "3":
                        want.append('E:%d>%d:[p="%d>%d:%d"]' % (k, kv, k, kv, e))
                    elif ea == "6":
                        want.append('E:%d>%d:[w="%d"][c="x"]' % (k, kv, e))
                    else:
                        want.append("E:%d>%d" % (k, kv))
            if sorted(edges_t) != sorted(want):
                bad = sorted(set(edges_t) ^ set(want))[:4]
                return "step %d `%s`: edge statements differ from the member edges with the attributes the callback supplies, e.g. %s" % (si, st, bad)
    return None


# ----------------------------------------------------------------------------
# C12 / C13: serde
# ----------------------------------------------------------------------------
def gen_roundtrip(cls, rng, tier):
    cases = []
    idx = 0
    for g in sc.all_graphs(cls, 3, 3 if tier == "thorough" else 2):
        steps = g.steps() + ["snap"]
        for gi in range(2):
            steps.append("gnew")
            order = list(range(g.n))
            if gi:
                order.reverse()
            steps += ["gins %d %d" % (gi, u) for u in order]
            for fmt in ("json", "cbor"):
                steps += ["gser %d %s" % (gi, fmt), "grt %d %s" % (gi, fmt)]
        cases.append(Case("rt%s%d" % (cls, idx), cls, steps, dict(kind="small-graph-roundtrip", edges=len(g.edges))))
        idx += 1
    # a key type whose Display is not injective and whose Hash is coarse (self-checking probe in the harness)
    cases.append(Case("rtK%s" % cls, cls, ["klossy"], dict(kind="keys-with-non-injective-display")))
    # degenerate sizes: the empty graph, one node (orphan, self-loops, parallel self-loops), two nodes
    for n, m in ((0, 0), (1, 3), (2, 3)):
        for g in sc.all_graphs(cls, n, m):
            steps = g.steps() + ["snap", "gnew"] + ["gins 0 %d" % u for u in range(g.n)]
            for fmt in ("json", "cbor"):
                steps += ["gser 0 %s" % fmt, "grt 0 %s" % fmt]
            cases.append(Case("rt0%s%d" % (cls, idx), cls, steps, dict(kind="degenerate-graph-roundtrip", nodes=n, edges=len(g.edges))))
            idx += 1
    if tier == "thorough":
        for g in sc.all_graphs(cls, 2, 4):
            steps = g.steps() + ["snap", "gnew"] + ["gins 0 %d" % u for u in range(g.n)]
            for fmt in ("json", "cbor"):
                steps += ["gser 0 %s" % fmt, "grt 0 %s" % fmt]
            cases.append(Case("rt2%s%d" % (cls, idx), cls, steps, dict(kind="small-graph-roundtrip", edges=len(g.edges))))
            idx += 1
    for i in range(2000 if tier == "thorough" else 200):
        g = sc.random_graph(cls, rng, maxn=40, maxe=120)
        g.vals = [rng.randint(-10 ** 6, 10 ** 6) for _ in g.vals]
        steps = g.steps() + ["snap", "gnew"]
        order = list(range(g.n))
        rng.shuffle(order)
        steps += ["gins 0 %d" % u for u in order]
        for fmt in ("json", "cbor"):
            steps += ["gser 0 %s" % fmt, "grt 0 %s" % fmt]
        cases.append(Case("rtR%s%d" % (cls, i), cls, steps, dict(kind="random-graph-roundtrip", nodes=g.n, edges=len(g.edges))))
    # large graphs (hundreds of nodes, up to ~1500 edges)
    for i in range(40 if tier == "thorough" else 4):
        g = sc.random_graph(cls, rng, maxn=40, maxe=120)
        n = rng.randint(150, 400)
        keys = rng.sample(range(1, 100000), n)
        vals = [rng.randint(-10 ** 9, 10 ** 9) for _ in range(n)]
        edges = [(rng.randrange(n), rng.randrange(n), rng.randint(0, 10 ** 6)) for _ in range(rng.randint(n, 4 * n))]
        g = sc.G(cls, keys, vals, edges)
        steps = g.steps() + ["snap", "gnew"]
        order = list(range(n))
        rng.shuffle(order)
        steps += ["gins 0 %d" % u for u in order]
        for fmt in ("json", "cbor"):
            steps += ["gser 0 %s" % fmt, "grt 0 %s" % fmt]
        cases.append(Case("rtL%s%d" % (cls, i), cls, steps, dict(kind="large-graph-roundtrip", nodes=n, edges=len(edges))))
    # hubs: one node with an out-list (and another with an in-list) around multiples of 64 entries, parallel edges and
    # self-loops included
    for i in range(40 if tier == "thorough" else 8):
        n = rng.randint(3, 12)
        keys = rng.sample(range(1, 1000), n)
        vals = [rng.randint(-9, 9) for _ in range(n)]
        deg = rng.choice([63, 64, 65, 66, 127, 128, 129, 130, 200, 257])
        edges = [(0, rng.randrange(n), 1000 + j) for j in range(deg)]
        edges += [(rng.randrange(n), 1, 5000 + j) for j in range(rng.choice([64, 65, 129]))]
        edges += [(rng.randrange(n), rng.randrange(n), 9000 + j) for j in range(10)]
        rng.shuffle(edges)
        g = sc.G(cls, keys, vals, edges)
        steps = g.steps() + ["snap", "gnew"]
        order = list(range(n))
        rng.shuffle(order)
        steps += ["gins 0 %d" % u for u in order]
        for fmt in ("json", "cbor"):
            steps += ["gser 0 %s" % fmt, "grt 0 %s" % fmt]
        cases.append(Case("rtH%s%d" % (cls, i), cls, steps, dict(kind="hub-graph-roundtrip", nodes=n, edges=len(edges))))
    # containers that are NOT closed under adjacency: a member with an edge to / from a node that is not a member (never
    # inserted, or removed while still linked). Listed known finding of C12 (KNOWN_FINDINGS.txt): decided on every run.
    for i in range(60 if tier == "thorough" else 10):
        n = rng.randint(2, 5)
        keys = rng.sample(range(1, 60), n)
        vals = [rng.randint(-5, 5) for _ in range(n)]
        members = sorted(rng.sample(range(n), rng.randint(1, n - 1)))
        outside = [u for u in range(n) if u not in members]
        edges = [(rng.randrange(n), rng.randrange(n), 10 + j) for j in range(rng.randint(0, 4))]
        a, b = rng.choice(members), rng.choice(outside)
        edges.append((a, b, 70) if (i % 2 == 0) else (b, a, 71))       # the crossing edge, either orientation
        rng.shuffle(edges)
        g = sc.G(cls, keys, vals, edges)
        steps = g.steps() + ["snap", "gnew"] + ["gins 0 %d" % u for u in members]
        for fmt in ("json", "cbor"):
            steps += ["gser 0 %s" % fmt, "grt 0 %s" % fmt]
        cases.append(Case("rtB%s%d" % (cls, i), cls, steps, dict(kind="container-not-closed-under-adjacency", oracle_only=True, members=members)))
    # graphs with a history: parallel edges made from both ends, self-loops, then disconnect / isolate / refused try_connect /
    # reconnect, and only then the round trip (decided against the implementation's own snapshot taken just before)
    for i in range(2000 if tier == "thorough" else 400):
        n = rng.randint(2, 5)
        ks = rng.sample(range(1, 60), n)
        steps = ["new %d %d" % (k, rng.randint(-5, 5)) for k in ks]
        for j in range(rng.randint(3, 14)):
            u, v = rng.randrange(n), rng.randrange(n)
            steps.append("con %d %d %d" % (u, v, rng.randint(0, 9)))
            if rng.random() < 0.4:
                steps.append("con %d %d %d" % (v, u, rng.randint(0, 9)))
        for j in range(rng.randint(1, 6)):
            r = rng.random()
            u, v = rng.randrange(n), rng.randrange(n)
            if r < 0.55:
                steps.append("dis %d %d" % (u, ks[v]))
            elif r < 0.65:
                steps.append("iso %d" % u)
            elif r < 0.8:
                steps.append("try %d %d %d" % (u, v, rng.randint(0, 9)))
            else:
                steps.append("con %d %d %d" % (u, v, rng.randint(0, 9)))
        steps += ["snap", "gnew"]
        order = list(range(n))
        rng.shuffle(order)
        steps += ["gins 0 %d" % u for u in order]
        for fmt in ("json", "cbor"):
            steps += ["gser 0 %s" % fmt, "grt 0 %s" % fmt]
        cases.append(Case("rtM%s%d" % (cls, i), cls, steps, dict(kind="mutated-graph-roundtrip", nodes=n)))
    return cases


def oracle_roundtrip(case, obs):
    if obs == "HANG":
        return "call never returns"
    cls = case.cls
    g = sc.graph_of_case(case)
    members = {}
    for s in case.steps:
        t = s.split()
        if t[0] == "gins":
            members.setdefault(int(t[1]), set()).add(int(t[2]))
    mutated = any(s.split()[0] in ("dis", "iso", "try") for s in case.steps)
    before = None
    for (si, text) in obs:
        st = case.steps[si]
        if text.startswith("panic"):
            return "step %d `%s` panicked" % (si, st)
        if st == "klossy" and text != "ok":
            return "keys whose Display is not injective (Lk(ns, n) printed as #n; coarse Hash): %s" % text[:300]
        if st == "snap":
            before = nc.parse_snap(text)
        if st.startswith("grt") and mutated:
            # the graph has a history of removals: the reference is the implementation's own snapshot before serialising
            mem = members.get(int(st.split()[1]), set())
            if before is None or len(mem) != len(before):
                continue
            order, rest = parse_ord(text)
            if order is None or not rest.startswith("de ok"):
                return "step %d `%s`: round trip failed: %s" % (si, st, text[:80])
            back = parse_gsnap(rest[5:], cls)
            if back is None:
                return "step %d: a key occurs twice in the rebuilt graph" % si
            if sorted(back) != sorted(nd["key"] for nd in before):
                return "step %d `%s`: keys after the round trip %s, before %s" % (si, st, sorted(back), sorted(nd["key"] for nd in before))
            for nd in before:
                k = nd["key"]
                if back[k]["val"] != nd["val"]:
                    return "step %d: value of node %d changed" % (si, k)
                if cls == "D":
                    if back[k]["out"] != nd["out"]:
                        return "step %d `%s`: outgoing edges of %d after the round trip %s, before %s" % (si, st, k, back[k]["out"], nd["out"])
                elif sorted(back[k]["adj"]) != sorted(nd["adj"]):
                    return "step %d `%s`: incident edges of %d after the round trip %s, before %s" % (si, st, k, sorted(back[k]["adj"]), sorted(nd["adj"]))
            continue
        if st.startswith("grt"):
            mem = members.get(int(st.split()[1]), set())
            # directed: the outgoing edges of every member must come back; undirected: every incident edge of a member
            crossing = [(u, v, e) for (u, v, e) in g.edges if (u in mem) != (v in mem) and (cls == "U" or u in mem)]
            if crossing:
                # the property read literally: the round trip gives back the members with all their edges — impossible for an
                # edge whose other endpoint is not in the document (known finding `container-not-closed-under-adjacency`)
                order, rest = parse_ord(text)
                if order is None or not rest.startswith("de ok"):
                    return "step %d `%s`: a container whose member %d has an edge %s a non-member serialises to a document its own deserialiser rejects: %s" % (
                        si, st, g.keys[crossing[0][0] if crossing[0][0] in mem else crossing[0][1]], "to" if crossing[0][0] in mem else "from", text[:60])
                back = parse_gsnap(rest[5:], cls)
                lost = []
                for (u, v, e) in crossing:
                    k = g.keys[u] if u in mem else g.keys[v]
                    have = (back or {}).get(k, {})
                    lst = have.get("out", []) + have.get("in", []) + have.get("adj", [])
                    if not any(x[2] == e for x in lst):
                        lost.append((g.keys[u], g.keys[v], e))
                if lost:
                    return "step %d `%s`: the round trip of a container that is not closed under adjacency silently loses the edge(s) %s" % (si, st, lost[:3])
                continue
            if len(mem) != g.n:
                continue   # only whole-graph containers are decided here (members closed under adjacency)
            order, rest = parse_ord(text)
            if order is None or not rest.startswith("de ok"):
                return "step %d `%s`: round trip failed: %s" % (si, st, text[:80])
            back = parse_gsnap(rest[5:], cls)
            if back is None:
                return "step %d: a key occurs twice in the rebuilt graph" % si
            if sorted(back) != sorted(g.keys):
                return "step %d `%s`: keys after the round trip %s, before %s" % (si, st, sorted(back), sorted(g.keys))
            for u in range(g.n):
                k = g.keys[u]
                if back[k]["val"] != g.vals[u]:
                    return "step %d: value of node %d changed" % (si, k)
                if cls == "D":
                    want = [(k, g.keys[v], e) for (v, e) in g.out[u]]
                    if back[k]["out"] != want:
                        return "step %d `%s`: outgoing edges of %d after the round trip %s, before %s" % (si, st, k, back[k]["out"], want)
                else:
                    want = sorted((k, g.keys[v], e) for (v, e) in g.out[u] + g.inn[u])
                    if sorted(back[k]["adj"]) != want:
                        return "step %d `%s`: incident edges of %d after the round trip %s, before %s" % (si, st, k, sorted(back[k]["adj"]), want)
    return None


# --- documents as token trees -------------------------------------------------
def tok(v):
    """python value -> token list (ints, floats, str, None, bool, list, dict, ('raw', token))"""
    if isinstance(v, tuple) and v and v[0] == "raw":
        return [v[1]]
    if v is None:
        return ["n"]
    if v is True:
        return ["t"]
    if v is False:
        return ["f"]
    if isinstance(v, int):
        return ["i%d" % v]
    if isinstance(v, float):
        return ["d%r" % v]
    if isinstance(v, str):
        return ["s%s" % v]
    if isinstance(v, list):
        out = ["["]
        for x in v:
            out += tok(x)
        return out + ["]"]
    if isinstance(v, dict):
        out = ["{"]
        for k, x in v.items():
            out += tok(k) + tok(x)
        return out + ["}"]
    raise ValueError(v)


def valid_doc(g):
    nodes = [[k, v] for k, v in zip(g.keys, g.vals)]
    edges = [[g.keys[u], g.keys[v], e] for (u, v, e) in g.edges]
    return [nodes, edges]


def mutations(doc, rng, exhaustive):
    """structural mutations of a valid document: drop / duplicate / retarget / retype / reorder / truncate"""
    import copy
    out = []
    nodes, edges = doc

    def add(d, what):
        out.append((what, d))
    add(copy.deepcopy(doc), "valid")
    add([], "empty-top")
    add([copy.deepcopy(nodes)], "edges-missing")
    add([copy.deepcopy(nodes), copy.deepcopy(edges), []], "extra-top-element")
    add({"nodes": 1}, "top-is-map")
    # maps whose CONTENT is well typed: the format is a sequence, a map is an error whatever it holds
    add({"nodes": copy.deepcopy(nodes), "edges": copy.deepcopy(edges)}, "top-is-well-typed-map")
    add({"nodes": copy.deepcopy(nodes)}, "top-is-map-of-nodes")
    add({"nodes": copy.deepcopy(nodes), "edges": copy.deepcopy(edges) + [[999, 998, 1]]}, "top-is-map-with-undeclared-key")
    add(7, "top-is-int")
    add(None, "top-is-null")
    add([copy.deepcopy(edges), copy.deepcopy(nodes)], "lists-swapped")
    add([list(reversed(copy.deepcopy(nodes))), list(reversed(copy.deepcopy(edges)))], "reordered")
    for i in range(len(nodes)):
        d = copy.deepcopy(doc); del d[0][i]; add(d, "drop-node")
        d = copy.deepcopy(doc); d[0].insert(i, copy.deepcopy(d[0][i])); add(d, "duplicate-node")
        d = copy.deepcopy(doc); d[0].append([d[0][i][0], 999]); add(d, "repeat-key-other-value")
        for bad in (None, "x", 1.5, -1, [1], True, 2 ** 64, {"a": 1}):
            d = copy.deepcopy(doc); d[0][i][0] = bad; add(d, "retype-node-key")
        for bad in (None, "x", 1.5, [1], 2 ** 63, -2 ** 63 - 1):
            d = copy.deepcopy(doc); d[0][i][1] = bad; add(d, "retype-node-value")
        for good in (2 ** 63 - 1, -2 ** 63):
            d = copy.deepcopy(doc); d[0][i][1] = good; add(d, "extreme-node-value")
        d = copy.deepcopy(doc); d[0][i][0] = 2 ** 64 - 1; add(d, "extreme-node-key")
        d = copy.deepcopy(doc); d[0][i] = d[0][i][:1]; add(d, "truncate-node-tuple")
        d = copy.deepcopy(doc); d[0][i] = d[0][i] + [0]; add(d, "extend-node-tuple")
        d = copy.deepcopy(doc); d[0][i] = 5; add(d, "node-not-a-tuple")
    for i in range(len(edges)):
        d = copy.deepcopy(doc); del d[1][i]; add(d, "drop-edge")
        d = copy.deepcopy(doc); d[1].insert(i, copy.deepcopy(d[1][i])); add(d, "duplicate-edge")
        for pos in (0, 1):
            d = copy.deepcopy(doc); d[1][i][pos] = 4242; add(d, "retarget-edge-undeclared")
            if nodes:
                d = copy.deepcopy(doc); d[1][i][pos] = nodes[0][0]; add(d, "retarget-edge-declared")
            for bad in (None, "x", -3, 2.5):
                d = copy.deepcopy(doc); d[1][i][pos] = bad; add(d, "retype-edge-endpoint")
        for bad in (None, "x", -3, 2.5, 2 ** 64):
            d = copy.deepcopy(doc); d[1][i][2] = bad; add(d, "retype-edge-value")
        d = copy.deepcopy(doc); d[1][i][2] = 2 ** 64 - 1; add(d, "extreme-edge-value")
        d = copy.deepcopy(doc); d[1][i] = d[1][i][:2]; add(d, "truncate-edge-tuple")
        d = copy.deepcopy(doc); d[1][i] = d[1][i] + [1]; add(d, "extend-edge-tuple")
    for i in range(len(nodes) + 1):
        d = copy.deepcopy(doc); d[0] = d[0][:i]; add(d, "truncate-node-list")
    for i in range(len(edges) + 1):
        d = copy.deepcopy(doc); d[1] = d[1][:i]; add(d, "truncate-edge-list")
    d = copy.deepcopy(doc); d[0] = None; add(d, "node-list-null")
    d = copy.deepcopy(doc); d[1] = "e"; add(d, "edge-list-string")
    if not exhaustive and len(out) > 60:
        keep = out[:9] + rng.sample(out[9:], 51)
        return keep
    return out


def cbor_int(major, n):
    if n < 24:
        return bytes([major << 5 | n])
    if n < 256:
        return bytes([major << 5 | 24, n])
    if n < 65536:
        return bytes([major << 5 | 25]) + n.to_bytes(2, "big")
    if n < 2 ** 32:
        return bytes([major << 5 | 26]) + n.to_bytes(4, "big")
    return bytes([major << 5 | 27]) + n.to_bytes(8, "big")


def cbor(v):
    if isinstance(v, int):
        return cbor_int(0, v) if v >= 0 else cbor_int(1, -1 - v)
    if isinstance(v, list):
        return cbor_int(4, len(v)) + b"".join(cbor(x) for x in v)
    raise ValueError(v)


def byte_mutations(data, rng, count):
    out = []
    for _ in range(count):
        b = bytearray(data)
        r = rng.random()
        if r < 0.3 and b:
            b = b[:rng.randrange(len(b))]
        elif r < 0.6 and b:
            for _ in range(rng.randint(1, 3)):
                b[rng.randrange(len(b))] = rng.randrange(256)
        elif r < 0.8 and b:
            del b[rng.randrange(len(b))]
        else:
            b.insert(rng.randrange(len(b) + 1), rng.randrange(256))
        out.append(bytes(b))
    return out


def gen_untrusted(cls, rng, tier):
    cases = []
    seeds = []
    for g in sc.all_graphs(cls, 2, 2):
        seeds.append(g)
    for g in list(sc.all_graphs(cls, 3, 2))[::17]:
        seeds.append(g)
    for i in range(200 if tier == "thorough" else 40):
        seeds.append(sc.random_graph(cls, rng, maxn=6, maxe=10))
    for gi, g in enumerate(seeds):
        doc = valid_doc(g)
        steps = []
        tags = []
        for what, d in mutations(doc, rng, exhaustive=(gi < 30 or tier == "thorough")):
            toks = " ".join(tok(d))
            for fmt in ("json", "cbor"):
                steps.append("gde %s %s" % (fmt, toks))
                tags.append(what)
        # byte-level mutations and truncations: exercised on the implementation only
        nb = 200 if tier == "thorough" else 30
        jbytes = json.dumps(doc).encode()
        for b in byte_mutations(jbytes, rng, nb):
            steps.append("gdebytes json %s" % b.hex())
        try:
            cb = cbor(doc)
            for b in byte_mutations(cb, rng, nb):
                steps.append("gdebytes cbor %s" % b.hex())
        except ValueError:
            pass
        cases.append(Case("un%s%d" % (cls, gi), cls, steps, dict(kind="untrusted-documents", mutation_kinds=sorted(set(tags)))))
    return cases


def doc_from_tokens(tokens):
    pos = [0]

    def one():
        t = tokens[pos[0]]
        pos[0] += 1
        if t == "[":
            l = []
            while tokens[pos[0]] != "]":
                l.append(one())
            pos[0] += 1
            return l
        if t == "{":
            d = []
            while tokens[pos[0]] != "}":
                k = one()
                v = one()
                d.append((k, v))
            pos[0] += 1
            return ("map", d)
        if t == "n":
            return None
        if t == "t":
            return True
        if t == "f":
            return False
        if t[0] == "i":
            return int(t[1:])
        if t[0] == "d":
            return float(t[1:])
        return ("str", t[1:])
    return one()


def oracle_untrusted(case, obs):
    if obs == "HANG":
        return "deserialisation never returns"
    cls = case.cls
    for (si, text) in obs:
        st = case.steps[si]
        if text.startswith("panic"):
            return "step %d `%s` panicked" % (si, st[:100])
        if not text.startswith("de ok"):
            continue
        back = parse_gsnap(text[5:], cls)
        if back is None:
            return "step %d: rebuilt graph has a key twice" % si
        # invariants of the rebuilt graph
        pseudo = []
        for k in back:
            nd = dict(back[k])
            if cls == "D":
                nd.update(od=len(nd["out"]), id=len(nd["in"]), r=int(not nd["in"]), l=int(not nd["out"]), o=int(not nd["in"] and not nd["out"]))
            else:
                nd.update(dg=len(nd["adj"]), o=int(not nd["adj"]))
            pseudo.append(nd)
        m = nc.oracle_mirror_d(pseudo) if cls == "D" else nc.oracle_sym_u(pseudo)
        if m:
            return "step %d `%s`: rebuilt graph violates the mirror/symmetry invariant: %s" % (si, st[:80], m)
        if st.startswith("gde "):
            doc = doc_from_tokens(st.split()[2:])
            try:
                dn = doc[0] if isinstance(doc, list) and len(doc) > 0 else []
                de = doc[1] if isinstance(doc, list) and len(doc) > 1 else []
                declared = {}
                for x in dn:
                    declared.setdefault(x[0], x[1])
                if sorted(back) != sorted(declared):
                    return "step %d: nodes of the result %s are not the declared keys %s" % (si, sorted(back), sorted(declared))
                for k in back:
                    if back[k]["val"] != declared[k]:
                        return "step %d: node %s does not carry the first declared value" % (si, k)
                for x in de:
                    if x[0] not in declared or x[1] not in declared:
                        return "step %d `%s`: an edge names an undeclared key but deserialisation succeeded" % (si, st[:80])
                want = sorted((x[0], x[1], x[2]) for x in de)
                if cls == "D":
                    got = sorted(e for k in back for e in back[k]["out"])
                else:
                    got = sorted(e for k in back for e in back[k]["adj"])
                    want = sorted([(a, b, e) for (a, b, e) in want] + [(b, a, e) for (a, b, e) in want])
                if got != want:
                    return "step %d `%s`: edges of the result %s are not the document's edges %s" % (si, st[:60], got, want)
            except (TypeError, IndexError, KeyError):
                return "step %d `%s`: ill-typed document was accepted" % (si, st[:80])
    return None
