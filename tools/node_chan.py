# node_chan.py — generators and oracles for the `node`/`snap` channels (C01, C02, C03)
import itertools, random, re
from vlib import Case

KEYS3 = [5, 3, 9]          # keys differ from allocation ids on purpose
VALS3 = [4, -2, 0]
ABSENT = 7


def state_prefix(nkeys, connects):
    steps = ["new %d %d" % (KEYS3[i], VALS3[i]) for i in range(nkeys)]
    for i, (u, v) in enumerate(connects):
        steps.append("con %d %d %d" % (u, v, 10 + i))
    return steps


def probe_ops(n):
    """every operation with every operand on n nodes (keys KEYS3[:n]); each is a list of steps"""
    ops = []
    for u in range(n):
        for v in range(n):
            ops.append(["con %d %d 99" % (u, v)])
            ops.append(["try %d %d 99" % (u, v)])
        for k in KEYS3[:n] + [ABSENT]:
            ops.append(["dis %d %d" % (u, k)])
            ops.append(["dis %d %d" % (u, k), "snap", "dis %d %d" % (u, k)])
        ops.append(["iso %d" % u])
        ops.append(["iso %d" % u, "snap", "iso %d" % u])
    return ops


def queries(n):
    return ["qry %d %d" % (u, k) for u in range(n) for k in KEYS3[:n] + [ABSENT]]


def gen_exhaustive(cls, n, max_edges, prefix="x"):
    """all (state, op) pairs: states = every connect history of <= max_edges calls over n nodes"""
    cases = []
    pairs = [(u, v) for u in range(n) for v in range(n)]
    ops = probe_ops(n)
    q = queries(n)
    idx = 0
    for m in range(max_edges + 1):
        for hist in itertools.product(pairs, repeat=m):
            pre = state_prefix(n, hist) + ["snap"] + q
            for op in ops:
                cases.append(Case("%s%s%d" % (prefix, cls, idx), cls, pre + op + ["snap"] + q,
                                  dict(kind="state-op", edges=m)))
                idx += 1
    return cases


def gen_hub(cls, rng, count, prefix="h"):
    """few nodes, adjacency lists with hundreds of entries (parallel edges, self-loops), then removals"""
    cases = []
    for ci in range(count):
        n = rng.randint(2, 4)
        keys = rng.sample(range(1, 60), n)
        steps = ["new %d %d" % (k, rng.randint(-5, 5)) for k in keys]
        if ci % 4 == 3:
            # one sink (and one source) with several hundred entries; removals near the FRONT of the long lists
            n = 3
            keys = rng.sample(range(1, 60), n)
            steps = ["new %d %d" % (k, rng.randint(-5, 5)) for k in keys]
            for j in range(rng.randint(300, 700)):
                r = rng.random()
                u, v = (0, 2) if r < 0.45 else (1, 2) if r < 0.9 else (2, rng.randrange(3))
                steps.append("con %d %d %d" % (u, v, rng.randint(0, 50)))
        elif ci % 2:
            # adjacency lists whose length sits exactly on, just below or just above a power of two (capacity boundaries)
            for (u, v) in [(0, 1), (1, 0), (0, 0)][:rng.randint(1, 3)]:
                for j in range(rng.choice([7, 8, 9, 15, 16, 17, 31, 32, 33, 63, 64, 65, 127, 128, 129])):
                    steps.append("con %d %d %d" % (u, v, rng.randint(0, 50)))
        else:
            for j in range(rng.randint(150, 400)):
                u = rng.randrange(n)
                v = u if rng.random() < 0.1 else rng.randrange(n)
                steps.append("con %d %d %d" % (u, v, rng.randint(0, 50)))
        steps.append("snap")
        for j in range(rng.randint(20, 50)):
            r = rng.random()
            u, v = rng.randrange(n), rng.randrange(n)
            if r < 0.6:
                steps.append("dis %d %d" % (u, keys[v]))
            elif r < 0.7:
                steps.append("try %d %d %d" % (u, v, rng.randint(0, 50)))
            elif r < 0.85:
                steps.append("con %d %d %d" % (u, v, rng.randint(0, 50)))
            elif r < 0.92:
                steps.append("qry %d %d" % (u, keys[v]))
            else:
                steps.append("iso %d" % u)
            steps.append("snap")
        cases.append(Case("%s%s%d" % (prefix, cls, ci), cls, steps, dict(kind="hub-history")))
    return cases


def gen_thin(cls, rng, count, prefix="t"):
    """a hub that grows past a capacity boundary and is then thinned ONE EDGE AT A TIME back to a handful of entries, with
    parallel edges of distinct values sitting in the long list the whole time: whatever a removal does to a long or a
    sparsely filled list (compaction, swap-removal, re-allocation) must keep the order both endpoints report"""
    cases = []
    for ci in range(count):
        m = rng.choice([33, 40, 48, 65, 70, 90, 130])
        inbound = ci % 2 == 0           # the long list is the hub's inbound list (spokes connect TO it) / its outbound list
        keys = rng.sample(range(1, 400), m + 2)
        steps = ["new %d %d" % (k, rng.randint(-5, 5)) for k in keys]
        U, H = 0, 1                     # partner and hub; spokes are 2..m+1
        par = []                        # parallel edges between the partner and the hub, scattered through the growth
        def partner_edge(val):
            if inbound:
                steps.append("con %d %d %d" % (U, H, val))
            else:
                steps.append("con %d %d %d" % (H, U, val))
        partner_edge(1)
        partner_edge(2)
        spokes = list(range(2, m + 2))
        late = rng.randrange(m)
        for i, s in enumerate(spokes):
            if inbound:
                steps.append("con %d %d %d" % (s, H, 10 + i))
            else:
                steps.append("con %d %d %d" % (H, s, 10 + i))
            if i == late:
                partner_edge(3)         # a third parallel edge in the middle / at the end of the long list
        steps.append("snap")
        rng.shuffle(spokes)
        keep = rng.randint(0, 3)
        for j, s in enumerate(spokes[:len(spokes) - keep]):
            r = rng.random()
            if r < 0.5:
                steps.append("dis %d %d" % ((s, keys[H]) if inbound else (H, keys[s])))
            elif r < 0.8:
                steps.append("iso %d" % s)
            else:
                steps.append("dis %d %d" % ((H, keys[s]) if not inbound else (s, keys[H])))
            if j % 7 == 0 or j >= len(spokes) - keep - 20:
                steps.append("snap")
        steps.append("snap")
        # now the pair: remove the parallel edges one by one, from either end where that is allowed
        for _ in range(3):
            if cls == "U" and rng.random() < 0.5:
                steps.append("dis %d %d" % (H, keys[U]) if inbound else "dis %d %d" % (U, keys[H]))
            else:
                steps.append("dis %d %d" % (U, keys[H]) if inbound else "dis %d %d" % (H, keys[U]))
            steps.append("snap")
            steps.append("qry %d %d" % (U, keys[H]))
        cases.append(Case("%s%s%d" % (prefix, cls, ci), cls, steps, dict(kind="hub-thinned-one-edge-at-a-time", spokes=m)))
    return cases


def gen_random(cls, rng, count, maxnodes=8, minlen=100, maxlen=400, prefix="r"):
    cases = []
    for ci in range(count):
        n = 0
        keys = []
        steps = []
        live = []  # (u,v) currently believed connected (approximate; only steers the generator)
        length = rng.randint(minlen, maxlen)
        allkeys = rng.sample(range(1, 60), maxnodes)
        while len(steps) < length:
            r = rng.random()
            if n < 2 or (n < maxnodes and r < 0.04):
                keys.append(allkeys[n])
                steps.append("new %d %d" % (allkeys[n], rng.randint(-5, 5)))
                n += 1
                continue
            u = rng.randrange(n)
            if r < 0.40:
                v = u if rng.random() < 0.12 else rng.randrange(n)
                steps.append("con %d %d %d" % (u, v, rng.randint(0, 50)))
                live.append((u, v))
            elif r < 0.52:
                v = rng.randrange(n)
                steps.append("try %d %d %d" % (u, v, rng.randint(0, 50)))
                live.append((u, v))
            elif r < 0.80:
                if live and rng.random() < 0.8:
                    a, b = rng.choice(live)
                    if cls == "U" and rng.random() < 0.5:
                        a, b = b, a
                    steps.append("dis %d %d" % (a, keys[b]))
                    if (a, b) in live:
                        live.remove((a, b))
                    elif (b, a) in live:
                        live.remove((b, a))
                else:
                    k = keys[rng.randrange(n)] if rng.random() < 0.7 else 0
                    steps.append("dis %d %d" % (u, k))
            elif r < 0.88:
                steps.append("iso %d" % u)
                live = [(a, b) for (a, b) in live if a != u and b != u]
            else:
                steps.append("qry %d %d" % (u, keys[rng.randrange(n)]))
            # handle provenance (C03): the caller/callee handles are obtained as an iterator's edge endpoint (e), by upgrading
            # another node's adjacency entry (t), through a container lookup (g) or as a search result (s)
            if steps[-1].split()[0] in ("con", "try", "dis", "iso") and rng.random() < 0.3:
                steps[-1] += " via:" + rng.choice("etgs")
            steps.append("snap")
        cases.append(Case("%s%s%d" % (prefix, cls, ci), cls, steps, dict(kind="history", length=len(steps))))
    return cases


# ----------------------------------------------------------------------------
# parsing observations
# ----------------------------------------------------------------------------
EDGE = re.compile(r"\((-?\d+)>(-?\d+):(-?\d+)\)")


def parse_snap(text):
    """-> list of node dicts (in allocation order) or None if not a snapshot line"""
    if not text.startswith("snap"):
        return None
    nodes = []
    for m in re.finditer(r"\[(\S+) (\S+) ([^\]]*)\]", text):
        key, val, rest = int(m.group(1)), int(m.group(2)), m.group(3)
        nd = dict(key=key, val=val)
        if rest.startswith("out"):
            o, i = rest.split(" in", 1)
            nd["out"] = [(int(a), int(b), int(c)) for a, b, c in EDGE.findall(o)]
            tail = i.split(" od=")[0]
            nd["in"] = [(int(a), int(b), int(c)) for a, b, c in EDGE.findall(tail)]
            for f, v in re.findall(r"(od|id|r|l|o)=(\d+)", i):
                nd[f] = int(v)
        else:
            tail = rest.split(" dg=")[0]
            nd["adj"] = [(int(a), int(b), int(c)) for a, b, c in EDGE.findall(tail)]
            for f, v in re.findall(r"(dg|o)=(\d+)", rest):
                nd[f] = int(v)
        nodes.append(nd)
    return nodes


def oracle_mirror_d(nodes):
    """C01 on one snapshot of the implementation; returns None or a description"""
    keys = [n["key"] for n in nodes]
    if len(set(keys)) != len(keys):
        return None  # property speaks about distinct keys
    bykey = {n["key"]: n for n in nodes}
    for n in nodes:
        for (s, t, e) in n["out"]:
            if s != n["key"] or t not in bykey:
                return "out edge %s of node %d has wrong endpoints" % ((s, t, e), n["key"])
        for (s, t, e) in n["in"]:
            if t != n["key"] or s not in bykey:
                return "in edge %s of node %d has wrong endpoints" % ((s, t, e), n["key"])
        if n["od"] != len(n["out"]) or n["id"] != len(n["in"]):
            return "degree of %d disagrees with its edge lists" % n["key"]
        if n["r"] != int(len(n["in"]) == 0) or n["l"] != int(len(n["out"]) == 0) or n["o"] != int(not n["in"] and not n["out"]):
            return "root/leaf/orphan of %d disagree with its edge lists" % n["key"]
    for a in nodes:
        for b in nodes:
            o = [e for (s, t, e) in a["out"] if t == b["key"]]
            i = [e for (s, t, e) in b["in"] if s == a["key"]]
            if o != i:
                return "edges %d->%d: source lists %s, target lists %s" % (a["key"], b["key"], o, i)
    return None


def oracle_sym_u(nodes):
    """C02 on one snapshot"""
    keys = [n["key"] for n in nodes]
    if len(set(keys)) != len(keys):
        return None
    bykey = {n["key"]: n for n in nodes}
    for n in nodes:
        for (s, t, e) in n["adj"]:
            if s != n["key"] or t not in bykey:
                return "adjacent edge %s of node %d has wrong endpoints" % ((s, t, e), n["key"])
        if n["dg"] != len(n["adj"]) or n["o"] != int(len(n["adj"]) == 0):
            return "degree/orphan of %d disagree with its edge list" % n["key"]
    for a in nodes:
        for b in nodes:
            ab = sorted(e for (s, t, e) in a["adj"] if t == b["key"])
            ba = sorted(e for (s, t, e) in b["adj"] if t == a["key"])
            if ab != ba:
                return "edges %d--%d: %d lists %s, %d lists %s" % (a["key"], b["key"], a["key"], ab, b["key"], ba)
    return None


def is_subseq_minus_one(before, after):
    """after == before with exactly one element removed (order kept); returns removed element or None"""
    if len(after) != len(before) - 1:
        return None
    for i in range(len(before)):
        if before[:i] + before[i + 1:] == after:
            return before[i]
    return None


def oracle_contract(cls, steps, obs):
    """C03: walk a case's implementation observations; between two consecutive snapshots with one
    mutation in between, check the multigraph contract.  returns None or a description"""
    prev = None
    pending = None
    nkeys = []
    for st, (si, text) in zip(steps, obs):
        t = st.split()
        if text.startswith("panic"):
            return "step %d `%s` panicked" % (si, st)
        if t[0] == "new":
            nkeys.append(int(t[1]))
            continue
        if t[0] in ("con", "try", "dis", "iso"):
            pending = (t, text) if pending is None else "multi"
            continue
        if t[0] == "snap":
            cur = parse_snap(text)
            if cur is None:
                return "step %d: snapshot failed: %s" % (si, text)
            if len(set(nkeys)) == len(nkeys) and prev is not None and pending not in (None, "multi") and len(prev) == len(cur):
                msg = contract_one(cls, prev, pending[0], pending[1], cur, nkeys)
                if msg:
                    return "step %d `%s` -> `%s`: %s" % (si - 1, " ".join(pending[0]), pending[1], msg)
            prev = cur
            pending = None
    return None


def lists_of(cls, nd):
    return (nd["out"], nd["in"]) if cls == "D" else (nd["adj"],)


def contract_one(cls, before, t, ret, after, nkeys):
    op = t[0]
    B = {n["key"]: n for n in before}
    A = {n["key"]: n for n in after}
    ku = nkeys[int(t[1])]

    def unchanged(except_keys=()):
        for k in B:
            if k in except_keys:
                continue
            if lists_of(cls, B[k]) != lists_of(cls, A[k]):
                return "node %d changed although not involved" % k
        return None

    if op in ("con", "try"):
        kv = nkeys[int(t[2])]
        e = int(t[3])
        if op == "try":
            if cls == "D":
                had = any(tt == kv for (_, tt, _) in B[ku]["out"])
            else:
                had = any(tt == kv for (_, tt, _) in B[ku]["adj"])
            if had:
                if ret != "err exists":
                    return "edge exists but try_connect returned %s" % ret
                return unchanged()
        if ret != "ok":
            return "expected ok, got %s" % ret
        if cls == "D":
            if A[ku]["out"] != B[ku]["out"] + [(ku, kv, e)]:
                return "new edge is not appended last among the source's outgoing edges"
            if ku == kv:
                if A[kv]["in"] != B[kv]["in"] + [(ku, kv, e)]:
                    return "new edge is not appended last among the target's incoming edges"
            else:
                if A[kv]["in"] != B[kv]["in"] + [(ku, kv, e)]:
                    return "new edge is not appended last among the target's incoming edges"
                if A[ku]["in"] != B[ku]["in"] or A[kv]["out"] != B[kv]["out"]:
                    return "other list of an endpoint changed"
        else:
            # exactly one new (ku,kv,e) at ku and one (kv,ku,e) at kv, order of old entries kept
            if ku == kv:
                rest = list(A[ku]["adj"])
                for _ in range(2):
                    if (ku, ku, e) in rest:
                        # remove last occurrence
                        idx = len(rest) - 1 - rest[::-1].index((ku, ku, e))
                        rest.pop(idx)
                    else:
                        return "self-loop not listed twice"
                if sorted(rest) != sorted(B[ku]["adj"]):
                    return "existing entries changed"
            else:
                if is_subseq_minus_one(A[ku]["adj"], B[ku]["adj"]) != (ku, kv, e):
                    return "caller does not list exactly one new edge / order changed"
                if is_subseq_minus_one(A[kv]["adj"], B[kv]["adj"]) != (kv, ku, e):
                    return "callee does not list exactly one new edge / order changed"
        return unchanged((ku, kv))
    if op == "dis":
        kk = int(t[2])
        if cls == "D":
            has = any(tt == kk for (_, tt, _) in B[ku]["out"])
        else:
            has = any(tt == kk for (_, tt, _) in B[ku]["adj"])
        if not has:
            if ret != "err notfound":
                return "no such edge but disconnect returned %s" % ret
            return unchanged()
        if not ret.startswith("ok "):
            return "edge exists but disconnect returned %s" % ret
        e = int(ret.split()[1])
        if cls == "D":
            if is_subseq_minus_one(B[ku]["out"], A[ku]["out"]) != (ku, kk, e):
                return "source's outgoing list did not lose exactly one edge with the returned value"
            if is_subseq_minus_one(B[kk]["in"], A[kk]["in"]) != (ku, kk, e):
                return "target's incoming list did not lose exactly that edge"
            if ku != kk and (A[ku]["in"] != B[ku]["in"] or A[kk]["out"] != B[kk]["out"]):
                return "other list of an endpoint changed"
        else:
            if ku == kk:
                rest = list(B[ku]["adj"])
                for _ in range(2):
                    if (ku, ku, e) in rest:
                        rest.remove((ku, ku, e))
                    else:
                        return "self-loop value not present"
                if sorted(rest) != sorted(A[ku]["adj"]):
                    return "self-loop not removed exactly once (both entries)"
            else:
                if is_subseq_minus_one(B[ku]["adj"], A[ku]["adj"]) != (ku, kk, e):
                    return "caller did not lose exactly one edge with the returned value"
                if is_subseq_minus_one(B[kk]["adj"], A[kk]["adj"]) != (kk, ku, e):
                    return "other endpoint did not lose exactly that edge"
        return unchanged((ku, kk))
    if op == "iso":
        if ret != "ok":
            return "isolate returned %s" % ret
        for k in B:
            for name in (("out", "in") if cls == "D" else ("adj",)):
                want = [x for x in B[k][name] if x[0] != ku and x[1] != ku]
                if A[k][name] != want:
                    return "node %d list %s is not the old list minus the edges incident to %d" % (k, name, ku)
        return None
    return None
