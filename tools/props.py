# props.py — per-property check specifications and the generic check driver
import glob, json, os, random, re, time
import vlib
from vlib import Case, log, VERIF, CACHE, FLAVOURS
import node_chan as nc
import search_chan as sc
import cont_chan as cc
import types_chan as tc
import macro_chan as mc
import own_chan as oc
import mut_chan as mu
import conc_chan as cn


# ----------------------------------------------------------------------------
# generic driver
# ----------------------------------------------------------------------------
def load_corpus(prop):
    cases = []
    for p in sorted(glob.glob(os.path.join(VERIF, "corpus", prop, "*.cases"))):
        cases += parse_case_file(p, prefix=os.path.basename(p)[:-6] + ":")
    return cases


def parse_case_file(path, prefix=""):
    cases, cur = [], None
    for line in open(path):
        line = line.strip()
        if not line or line.startswith("#"):
            continue
        t = line.split()
        if t[0] == "case":
            cur = Case(prefix + t[1], t[2][0], [], dict(kind="corpus"))
            cases.append(cur)
        elif cur is not None:
            cur.steps.append(line)
    return cases


_REPLAY_SEQ = 0


def write_replay(prop, obj):
    d = os.path.join(VERIF, "replays")
    os.makedirs(d, exist_ok=True)
    global _REPLAY_SEQ
    _REPLAY_SEQ += 1
    p = os.path.join(d, "%s_%d_%d.json" % (prop, int(time.time() * 1000) % 10 ** 10, _REPLAY_SEQ))
    obj = dict(obj)
    obj["property"] = prop
    with open(p, "w") as f:
        json.dump(obj, f, indent=1)
    return p


def run_single(case, flavour, workdir, env=None):
    """run one case on one implementation flavour; returns obs list or 'HANG'"""
    os.makedirs(workdir, exist_ok=True)
    path = os.path.join(workdir, "single_%d.cases" % os.getpid())
    vlib.write_cases([case], path)
    res, order, hangs = vlib.run_impl(flavour, path, path + ".out", hang_secs=4, env=env)
    if hangs:
        return "HANG"
    return res.get(case.name, [])


def shrink(spec, case, flavour, workdir, budget=150):
    """delta-debug the step list while the oracle still rejects the implementation's behaviour"""
    def bad(steps):
        c = Case(case.name, case.cls, steps)
        obs = run_single(c, flavour, workdir, env=spec.env())
        return spec.oracle(c, flavour, obs) is not None

    steps = list(case.steps)
    n = 2
    tries = 0
    while len(steps) >= 2 and tries < budget:
        chunk = max(1, len(steps) // n)
        reduced = False
        i = 0
        while i < len(steps) and tries < budget:
            cand = steps[:i] + steps[i + chunk:]
            # never remove allocations: node indices would shift
            removed = steps[i:i + chunk]
            if any(s.startswith("new ") or s.startswith("gnew") for s in removed):
                i += chunk
                continue
            tries += 1
            if cand and bad(cand):
                steps = cand
                reduced = True
            else:
                i += chunk
        if not reduced:
            if chunk == 1:
                break
            n = min(len(steps), n * 2)
    return Case(case.name, case.cls, steps)


def profile_scan():
    hits = []
    for dirpath, _, files in os.walk(os.path.join(vlib.REPO, "src")):
        for f in sorted(files):
            if not f.endswith(".rs"):
                continue
            for i, line in enumerate(open(os.path.join(dirpath, f)).read().split("\n")):
                code = line.split("//")[0]
                if re.search(r"\bdebug_assert(_eq|_ne)?!|debug_assertions|cfg!?\s*\(\s*(not\s*\(\s*)?(feature|overflow_checks)\b", code):
                    hits.append("%s:%d: %s" % (os.path.relpath(os.path.join(dirpath, f), vlib.REPO), i + 1, code.strip()[:120]))
    return hits


def run_check(spec, prop, tier, seed, t0):
    rng = random.Random(seed * 7919 + 17)
    workdir = os.path.join(CACHE, "runs", prop)
    os.makedirs(workdir, exist_ok=True)
    for f in glob.glob(os.path.join(workdir, "*")):
        try:
            os.remove(f)
        except OSError:
            pass
    violations = []   # (replay_path, suffix)
    pre_err = spec.pre(prop)
    if pre_err:
        rp = write_replay(prop, dict(kind="translator-error", error=pre_err,
                                     broken="the translator could not regenerate the model from /repo's source"))
        violations.append((rp, "no-failing-input-found"))
    # ---- build-profile scan: the harness and the probes observe the library under ONE build configuration (release
    # optimisation with debug assertions and overflow checks on, no cargo features): code that is compiled differently in
    # another configuration is outside the tie, so its presence is reported rather than ignored
    hits = profile_scan()
    if hits:
        rp = write_replay(prop, dict(kind="profile-dependent-code", sites=hits[:10],
                                     broken="the library contains code whose behaviour depends on the build profile or on cargo features "
                                            "(debug_assert!, cfg(debug_assertions), cfg(feature ..)): the correspondence runs one configuration only"))
        violations.append((rp, "no-failing-input-found"))
    # ---- proof stage
    pr = vlib.proof_stage(prop, tier=tier)
    log("[%s] proof stage: %d/%d discharged %s" % (prop, pr["discharged"], pr["obligations"], "" if pr["ok"] else pr["log"][-1500:]))
    # ---- build stage
    with vlib.Lock("build.lock"):
        rc, out = vlib.build_model_driver()
        if rc != 0:
            raise RuntimeError("model extraction/driver build failed:\n" + out[-3000:])
        rc, out = vlib.build_harness()
    harness_ok = (rc == 0)
    if not harness_ok:
        before = len(violations)
        spec.harness_broken(prop, violations)     # a property-specific search for a failing input
        if len(violations) == before:
            rp = write_replay(prop, dict(kind="harness-does-not-compile", log=out[-4000:],
                                         broken="correspondence harness does not compile against /repo's working tree"))
            violations.append((rp, "no-failing-input-found"))
    cov = dict(obligations=pr["obligations"], discharged=pr["discharged"], checker_cmd=pr["checker_cmd"] or "make -C coq",
               trusted_base=vlib.TRUSTED_BASE, theorems=pr["theorems"])
    if pr.get("coqchk"):
        cov["coqchk"] = pr["coqchk"]
    extra = {}
    if harness_ok:
        extra = spec.correspondence(prop, tier, rng, workdir, pr, violations)
    cov.update(extra)
    if not pr["ok"] and not any(v for v in violations if "no-failing-input-found" not in v[1]):
        # the theorem no longer checks and no failing input was exhibited
        if not violations:
            rp = write_replay(prop, dict(kind="proof-broken", log=pr["log"][-4000:],
                                         broken="theorems of coq/props/%s.v no longer check" % prop))
            violations.append((rp, "no-failing-input-found"))
    # ---- known findings
    for kf in spec.known_lines:
        print("KNOWN-FINDING: property=%s %s" % (prop, kf))
    # replays that carry a failing input first
    violations.sort(key=lambda v: 1 if "no-failing-input-found" in v[1] else 0)
    nviol = len(violations)
    vlib.write_evidence(prop, tier, seed, cov, time.time() - t0, nviol, assumptions=spec.assumptions())
    for rp, suffix in violations[:5]:
        print(("VIOLATION property=%s replay=%s %s" % (prop, rp, suffix)).rstrip())
    return 1 if nviol else 0


def replay(spec, prop, path):
    obj = json.load(open(path))
    if "case" not in obj:
        print("replay names a broken proof/correspondence, no input to run: %s" % obj.get("broken"))
        return 1
    with vlib.Lock("build.lock"):
        vlib.build_model_driver()
        rc, out = vlib.build_harness()
    c = Case("replay", obj["class"], obj["case"])
    bad = 0
    for fl in obj.get("flavours", FLAVOURS[obj["class"]]):
        obs = run_single(c, fl, os.path.join(CACHE, "runs", "replay"), env=spec.env())
        msg = spec.oracle(c, fl, obs)
        print("%s: %s" % (fl, msg or "property holds on this input"))
        if msg:
            bad = 1
    if bad:
        print("VIOLATION property=%s replay=%s" % (prop, path))
    return bad


# ----------------------------------------------------------------------------
# spec base: differential correspondence over case files
# ----------------------------------------------------------------------------
class CaseSpec:
    flavours = None      # restrict implementation flavours (None = those of the case classes)
    two_pass = False     # container iteration order observed on the implementation is fed to the model
    hang_secs = 5

    def __init__(self):
        self.known_lines = []

    def env(self):
        return None

    def pre(self, prop):
        """runs before the proof stage (translators); returns an error string or None"""
        return None

    def harness_broken(self, prop, violations):
        """called when the harness does not compile against the working tree"""
        return None

    def assumptions(self):
        return ["distinct keys on live nodes (the property's proviso)",
                "the Rust harness and OCaml driver print observations faithfully",
                "generators: see coverage.rule; anything outside them is covered only by the theorems about the model"]

    def cases(self, tier, rng):
        raise NotImplementedError

    def oracle(self, case, flavour, obs):
        """decide the PROPERTY on the implementation's own observations of one case"""
        raise NotImplementedError

    def nontrivial(self, case):
        return True

    def rule(self):
        return ""

    def sample(self, case):
        return dict(name=case.name, cls=case.cls, steps=case.steps[:40])

    def known(self, case, flavour, msg):
        """return a description if this failing input belongs to a listed known finding"""
        return None

    def correspondence(self, prop, tier, rng, workdir, pr, violations):
        corpus = load_corpus(prop)
        gen = self.cases(tier, rng)
        cases = corpus + gen
        t1 = time.time()
        results, fls = vlib.run_all(cases, workdir, "c", flavours=self.flavours, hang_secs=self.hang_secs, env=self.env(),
                                    two_pass=self.two_pass)
        dis = vlib.compare(cases, results, fls)
        log("[%s] correspondence: %d cases x %s, %d disagreements, %.1fs" % (prop, len(cases), fls, len(dis), time.time() - t1))
        seen = set()
        nontriv = 0
        dist = {}
        for c in cases:
            h = vlib.case_hash(c)
            k = c.tags.get("kind", "?")
            dist[k] = dist.get(k, 0) + 1
            if h in seen:
                continue
            seen.add(h)
            if self.nontrivial(c):
                nontriv += 1
        opdist = {}
        for c in cases[:: max(1, len(cases) // 2000)]:
            for s in c.steps:
                w = s.split()[0]
                opdist[w] = opdist.get(w, 0) + 1
        obsdist = {}
        for fl in fls:
            for nm, obs in list(results[fl].items())[:: max(1, len(results[fl]) // 2000)]:
                for (_, t) in obs:
                    w = " ".join(t.split()[:2]) if t.startswith("err") else t.split()[0] if t else ""
                    obsdist[w] = obsdist.get(w, 0) + 1
        by_name = {c.name: c for c in cases}
        cov = dict(evaluations=len(cases) * len(fls), distinct_nontrivial=nontriv, rule=self.rule(),
                   samples=[self.sample(c) for c in (gen[:1] + gen[len(gen) // 2: len(gen) // 2 + 1] + gen[-1:])],
                   traces_validated_against_impl=len(cases) * len(fls) - len(dis),
                   disagreements=len(dis), flavours=fls, case_kinds=dist, step_distribution_sampled=opdist,
                   observation_distribution_sampled=obsdist, exhaustive=bool(self.exhaustive(tier)),
                   exhaustive_space=self.exhaustive(tier) or "")
        if not dis and pr["ok"] and (tier == "thorough" or os.environ.get("VERIF_ORACLE_SELFTEST")):
            # self-test of the failing-input oracles (diagnostic, never a verdict): on a tree where every theorem checks and the
            # implementation agrees with the model, an independent oracle that rejects an observation is an oracle defect
            t2 = time.time()
            complaints = []
            sample = [(c, fl) for c in cases for fl in fls if fl in FLAVOURS[c.cls]]
            if len(sample) > 60000:
                sample = sample[::len(sample) // 60000 + 1]
            for c, fl in sample:
                obs = "HANG" if c.name in results["hangs"][fl] else results[fl].get(c.name, [])
                try:
                    msg = self.oracle(c, fl, obs)
                except Exception as e:   # an oracle that crashes is an oracle defect too
                    msg = "oracle raised %r" % (e,)
                if msg and not self.known(c, fl, msg):
                    complaints.append((c.name, fl, msg))
            cov["oracle_selftest"] = dict(observations=len(sample), complaints=len(complaints), first=[list(x) for x in complaints[:3]], wall_s=round(time.time() - t2, 1))
            log("[%s] oracle self-test: %d observations, %d complaints%s" % (prop, len(sample), len(complaints), (" e.g. %s" % (complaints[0],)) if complaints else ""))
        # cases the model does not run (tag oracle_only): the independent oracle decides them on every run
        forced = []
        for c in cases:
            if c.tags.get("oracle_only"):
                for fl in fls:
                    if fl in FLAVOURS[c.cls]:
                        obs = "HANG" if c.name in results["hangs"][fl] else results[fl].get(c.name, [])
                        msg = self.oracle(c, fl, obs)
                        if msg:
                            forced.append((c, fl, msg))
        cov["oracle_only_cases"] = len([c for c in cases if c.tags.get("oracle_only")])
        if dis or not pr["ok"] or forced:
            # failing-input search: the disagreeing cases first, then everything generated in this run
            found = list(forced)
            order = [(by_name[d["case"]], d["flavour"]) for d in dis]
            if len(order) < 4000:
                order += [(c, fl) for c in cases for fl in fls if fl in FLAVOURS[c.cls]][:200000]
            tried = set()
            for c, fl in order:
                if (c.name, fl) in tried:
                    continue
                tried.add((c.name, fl))
                obs = "HANG" if c.name in results["hangs"][fl] else results[fl].get(c.name, [])
                msg = self.oracle(c, fl, obs)
                if msg:
                    found.append((c, fl, msg))
                    if len(found) >= 40:
                        break
            found.sort(key=lambda x: len(x[0].steps))     # the smallest failing cases make the best replays
            reported = set()
            new_found = []
            for c, fl, msg in found:
                kf = self.known(c, fl, msg)
                if kf:
                    if kf not in self.known_lines:
                        self.known_lines.append(kf)
                    continue
                new_found.append((c, fl, msg))
            shown = set()
            for c, fl, msg in new_found[:12]:
                if len(shown) >= 3:
                    break
                sc = shrink(self, c, fl, workdir)
                sig = (fl, tuple(sc.steps))
                if sig in shown:
                    continue
                shown.add(sig)
                obs = run_single(sc, fl, workdir, env=self.env())
                msg2 = self.oracle(sc, fl, obs) or msg
                mres = vlib.run_model(sc.cls, os.path.join(workdir, "single_%d.cases" % os.getpid()),
                                      os.path.join(workdir, "single_model.out"))[0].get(sc.name)
                rp = write_replay(prop, {"kind": "failing-input", "class": sc.cls, "flavours": [fl], "case": sc.steps,
                                         "implementation": obs, "model": mres, "oracle": msg2, "original_case": c.name})
                violations.append((rp, ""))
            if not new_found:
                unexplained = [d for d in dis if not self.known_dis(by_name[d["case"]], d)]
                if unexplained:
                    d = unexplained[0]
                    c = by_name[d["case"]]
                    rp = write_replay(prop, {"kind": "correspondence-broken", "class": c.cls, "flavours": [d["flavour"]], "case": c.steps,
                                             "first_disagreement": d, "disagreements": len(dis),
                                             "broken": "correspondence channel of %s: model and implementation differ" % prop})
                    violations.append((rp, "no-failing-input-found"))
                elif not pr["ok"] and not found:
                    pass  # handled by caller (proof broken, no input)
        return cov

    def known_dis(self, case, d):
        return False

    def exhaustive(self, tier):
        return ""


# ----------------------------------------------------------------------------
# C01 / C02 / C03
# ----------------------------------------------------------------------------
class NodeSpec(CaseSpec):
    cls = "D"

    def correspondence(self, prop, tier, rng, workdir, pr, violations):
        cov = CaseSpec.correspondence(self, prop, tier, rng, workdir, pr, violations)
        if tier == "thorough":
            import xcheck
            sample = [c for c in self.cases("quick", random.Random(7)) if c.tags.get("kind") == "history"][:60]
            sample += [c for c in self.cases("quick", random.Random(7)) if c.tags.get("kind") == "state-op"][::97]
            n, mism = xcheck.run(sample, os.path.join(workdir, "xcheck"))
            cov["extraction_crosscheck"] = dict(histories_evaluated_by_vm_compute_and_by_extracted_code=n, mismatches=len(mism))
            if mism:
                rp = write_replay(prop, dict(kind="extraction-mismatch", first=str(mism[0]), broken="extracted OCaml model and vm_compute inside Coq differ"))
                violations.append((rp, "no-failing-input-found"))
        return cov

    def cases(self, tier, rng):
        if tier == "thorough":
            ex = nc.gen_exhaustive(self.cls, 3, 4) + nc.gen_exhaustive(self.cls, 2, 6, prefix="y")
            rnd = nc.gen_random(self.cls, rng, 12000) + nc.gen_hub(self.cls, rng, 60) + nc.gen_thin(self.cls, rng, 80)
        else:
            ex = nc.gen_exhaustive(self.cls, 3, 3)[::2] + nc.gen_exhaustive(self.cls, 3, 2) + nc.gen_exhaustive(self.cls, 2, 3, prefix="y")
            rnd = nc.gen_random(self.cls, rng, 200, minlen=60, maxlen=250) + nc.gen_hub(self.cls, rng, 4) + nc.gen_thin(self.cls, rng, 6)
        return ex + rnd

    def exhaustive(self, tier):
        if tier == "thorough":
            return "every connect history of <=4 calls over 3 nodes (7381 states) and <=5 calls over 2 nodes, x every operation with every operand (incl. absent key, repeated disconnect/isolate)"
        return "every connect history of <=2 calls over 3 nodes and <=3 calls over 2 nodes, x every operation with every operand"

    def rule(self):
        return ("cases = (abstract state, operation) pairs enumerated exhaustively + seeded random histories with a snapshot after "
                "every call; compared line by line (return values, full iterator sequences, degrees, predicates, lookups) between the "
                "extracted Coq model and each implementation flavour. distinct = distinct step list; non-trivial = contains at least one "
                "mutation that succeeds on an existing edge set (not only failing calls on an empty graph)")

    def nontrivial(self, case):
        return any(s.startswith(("con", "try")) for s in case.steps) and any(s.startswith(("dis", "iso", "try", "con")) for s in case.steps)


class C01(NodeSpec):
    cls = "D"

    def oracle(self, case, flavour, obs):
        if obs == "HANG":
            return "call never returns (hang/deadlock)"
        for (si, text) in obs:
            if text.startswith("panic"):
                return "step %d `%s` panicked" % (si, case.steps[si] if si < len(case.steps) else "?")
            nodes = nc.parse_snap(text)
            if nodes is not None:
                m = nc.oracle_mirror_d(nodes)
                if m:
                    return "after step %d: %s" % (si, m)
        return None


class C02(NodeSpec):
    cls = "U"

    def oracle(self, case, flavour, obs):
        if obs == "HANG":
            return "call never returns (hang/deadlock)"
        for (si, text) in obs:
            if text.startswith("panic"):
                return "step %d `%s` panicked" % (si, case.steps[si] if si < len(case.steps) else "?")
            nodes = nc.parse_snap(text)
            if nodes is not None:
                m = nc.oracle_sym_u(nodes)
                if m:
                    return "after step %d: %s" % (si, m)
        return None


class C03(NodeSpec):
    def cases(self, tier, rng):
        out = []
        for cls in ("D", "U"):
            self.cls = cls
            out += NodeSpec.cases(self, tier, rng)
        return out

    def oracle(self, case, flavour, obs):
        if obs == "HANG":
            return "call never returns (hang/deadlock)"
        return nc.oracle_contract(case.cls, case.steps, obs)



# ----------------------------------------------------------------------------
# C04 - C10: the search channel
# ----------------------------------------------------------------------------
class SearchSpec(CaseSpec):
    algos = ("bfs",)
    whats = ("find", "path")
    classes = ("D", "U")
    level_q, level_t = 2, 2
    vals_variants = False

    def cases(self, tier, rng):
        out = []
        for cls in self.classes:
            if tier == "thorough":
                out += sc.gen_cases(cls, rng, tier, self.algos, self.whats, level=self.level_t, n_small=3, m_small=3,
                                    nrandom=2500, vals_variants=self.vals_variants)
                out += sc.gen_cases(cls, rng, tier, self.algos, self.whats, level=1, n_small=4, m_small=3, nrandom=0,
                                    prefix="t", vals_variants=False)
                out += sc.gen_cases(cls, rng, tier, self.algos, self.whats, level=0, n_small=3, m_small=4, nrandom=0,
                                    prefix="v", vals_variants=False)
            else:
                out += sc.gen_cases(cls, rng, tier, self.algos, self.whats, level=self.level_q, n_small=3, m_small=2,
                                    nrandom=200, vals_variants=self.vals_variants)
                out += sc.gen_cases(cls, rng, tier, self.algos, self.whats, level=0, n_small=3, m_small=3, nrandom=0, prefix="m")
        return out

    def exhaustive(self, tier):
        if tier == "thorough":
            return ("all multigraphs (every insertion order) on 3 nodes with <=3 edges x every root/target/option x {no method, for_each, 2 salted "
                    "filters, every subset of rejected oriented edges}; all on 4 nodes with <=3 edges x every root/target x {none, each, 2 filters}")
        return ("all multigraphs (every insertion order) on 3 nodes with <=2 edges x every root/target/option x {no method, for_each, 2 salted filters, "
                "every subset of rejected oriented edges}; all on 3 nodes with 3 edges x {none, each}")

    def rule(self):
        return ("one case = one graph (built by connect calls) followed by searches %s x %s with every root, every target key (plus an absent "
                "key and no target), transpose on/off (directed) and the methods listed under exhaustive_space; plus seeded random graphs up to 40 nodes / "
                "120 edges with 40 random searches each. compared: returned node/path/ordering (edges with endpoints and values, to_vec_nodes, len) and the "
                "exact sequence of edges handed to the closure. distinct = distinct step list; non-trivial = graph has at least one edge" % (self.algos, self.whats))

    def nontrivial(self, case):
        return any(s.startswith("con ") for s in case.steps)

    def sample(self, case):
        return dict(name=case.name, cls=case.cls, steps=case.steps[:12] + (["... %d more" % (len(case.steps) - 12)] if len(case.steps) > 12 else []))

    def oracle(self, case, flavour, obs):
        return sc.oracle_case(case, obs)


class C04(SearchSpec):
    algos, whats = ("bfs",), ("find", "path")


class C05(SearchSpec):
    algos, whats = ("dfs",), ("find", "path")


class C06(SearchSpec):
    algos, whats = ("pmin", "pmax"), ("find", "path")
    vals_variants = True
    level_q, level_t = 1, 2

    def cases(self, tier, rng):
        out = SearchSpec.cases(self, tier, rng)
        # node comparison operators on all pairs of (key, value) combinations from {1,2,3} x {0,1,2}
        for cls in self.classes:
            steps, n = [], 0
            for k in (1, 2, 3):
                for v in (0, 1, 2):
                    steps.append("new %d %d" % (k, v))
                    n += 1
            for a in range(n):
                for b in range(n):
                    steps.append("cmp %d %d" % (a, b))
            out.append(Case("cmp" + cls, cls, steps, dict(kind="node-comparison")))
            # a node value type whose PartialOrd disagrees with its Ord: the library must go through Ord only
            out.append(Case("nvord" + cls, cls, ["nvord"], dict(kind="value-type-with-PartialOrd-unlike-Ord")))
        return out

    def nontrivial(self, case):
        return True


class C07(SearchSpec):
    algos, whats = ("bfs", "dfs", "pmin", "pmax", "pre", "post"), ("find", "path", "nodes", "edges", "cycle")
    level_q, level_t = 2, 2

    def cases(self, tier, rng):
        out = []
        for cls in self.classes:
            if tier == "thorough":
                out += sc.gen_cases(cls, rng, tier, self.algos, self.whats, level=2, n_small=3, m_small=3, nrandom=300)
            else:
                out += sc.gen_cases(cls, rng, tier, self.algos, self.whats, level=2, n_small=3, m_small=2, nrandom=30)
        return out


class C08(SearchSpec):
    algos, whats = ("bfs", "dfs", "pmin", "pmax", "pre", "post"), ("find", "path", "cycle", "nodes", "edges")
    classes = ("D",)
    level_q, level_t = 1, 1

    def cases(self, tier, rng):
        # every graph together with its explicit reversal (nodes n..2n-1, keys + 100, edges inserted in the same global order):
        # a transposed search on G must print what the plain search prints on reverse(G), modulo the key offset
        out = []
        graphs = list(sc.all_graphs("D", 3, 3 if tier == "thorough" else 2))
        for i in range(300 if tier == "thorough" else 40):
            graphs.append(sc.random_graph("D", rng, maxn=20, maxe=50))
        for gi, g in enumerate(graphs):
            n = g.n
            steps = g.steps()
            steps += ["new %d %d" % (k + 1000, v) for k, v in zip(g.keys, g.vals)]
            steps += ["con %d %d %d" % (v + n, u + n, e) for (u, v, e) in g.edges]
            roots = range(n) if n <= 3 else [rng.randrange(n) for _ in range(3)]
            for algo in self.algos:
                order = algo in ("pre", "post")
                for what in self.whats:
                    if order != (what in ("nodes", "edges")):
                        continue
                    for root in roots:
                        tgs = [None] if what not in ("find", "path") else ([g.keys[x] for x in range(n)] if n <= 3 else [g.keys[rng.randrange(n)]])
                        for tg in tgs:
                            for m in (None, ("each",), ("filt", 1, 3)):
                                steps.append(sc.srch(algo, what, root, True, tg, m))
                                m2 = m
                                steps.append(sc.srch(algo, what, root + n, False, None if tg is None else tg + 1000, m2) + " #rev")
                                steps.append(sc.srch(algo, what, root, False, tg, m))
            out.append(Case("tr%d" % gi, "D", steps, dict(kind="graph+reversal", nodes=n, edges=len(g.edges))))
        return out

    def oracle(self, case, flavour, obs):
        msg = None
        if obs == "HANG":
            return "call never returns"
        # metamorphic: transposed search on G == plain search on reverse(G) (keys + 1000); filters use keys, so only
        # `none`/`each` runs are compared literally
        import re
        def norm(t):
            return re.sub(r"\b1(\d\d\d)\b", lambda mm: str(int(mm.group(1))), t)
        for i, (si, text) in enumerate(obs):
            st = case.steps[si] if si < len(case.steps) else ""
            if text.startswith("panic"):
                return "step %d `%s` panicked" % (si, st)
            if st.endswith("#rev") and " filt " not in st and i > 0:
                prev = obs[i - 1][1]
                if norm(text) != prev:
                    return "step %d: transposed search `%s` printed `%s` but the same search on the reversed graph printed `%s`" % (
                        si - 1, case.steps[si - 1], prev[:100], norm(text)[:100])
        # plus the direct property oracle on the G part
        g = sc.graph_of_case(case)
        n = len(g.keys) // 2
        g2 = sc.G("D", g.keys, g.vals, g.edges)
        for (si, text) in obs:
            st = case.steps[si]
            if st.startswith("srch") and not st.endswith("#rev"):
                m = sc.check_srch(g2, st, text)
                if m:
                    return "step %d `%s` -> `%s`: %s" % (si, st, text[:100], m)
        return None


class C09(SearchSpec):
    algos, whats = ("bfs", "dfs", "pmin", "pmax"), ("cycle",)


class C10(SearchSpec):
    algos, whats = ("pre", "post"), ("nodes", "edges")


# ----------------------------------------------------------------------------
# C11, C12, C13, C18: containers, scc, serde
# ----------------------------------------------------------------------------
class ContSpec(CaseSpec):
    two_pass = True

    def sample(self, case):
        return dict(name=case.name, cls=case.cls, steps=case.steps[:25] + (["... %d more" % (len(case.steps) - 25)] if len(case.steps) > 25 else []))


class C11(ContSpec):
    def cases(self, tier, rng):
        return cc.gen_scc(rng, tier)

    def exhaustive(self, tier):
        return ("every digraph (self-loops included, no parallel edges) on 1..%d nodes, each in 2-3 fresh containers with different insertion orders"
                % (4 if tier == "thorough" else 3)) + ("" if tier == "thorough" else "; 4-node graphs sampled")

    def rule(self):
        return ("one case = one directed graph + 2-3 fresh Graph containers (own hash seed each; forward, reverse and shuffled insertion order) + scc() on each; "
                "the container's observed iteration order is passed to the model, the component lists must then be identical (same components, same order, same "
                "order inside each). plus seeded random multigraphs up to 30 nodes. distinct = distinct step list; non-trivial = at least one edge")

    def nontrivial(self, case):
        return any(s.startswith("con ") for s in case.steps)

    def oracle(self, case, flavour, obs):
        return cc.oracle_scc(case, obs)


class C18(ContSpec):
    def cases(self, tier, rng):
        return cc.gen_container("D", rng, tier) + cc.gen_container("U", rng, tier)

    def exhaustive(self, tier):
        return ("every history of <=%d insert/remove calls over 4 nodes (two sharing a key) and 3 keys, each followed by the full query battery, mutations through "
                "handed-out handles and edge operations; every combination of the three DOT attribute callbacks (3x3x3)" % (4 if tier == "thorough" else 3))

    def rule(self):
        return ("container histories (insert/remove/get/index/contains/len/is_empty/to_vec/iter/roots/leaves/orphans/to_dot/to_dot_with_attr) interleaved with edge "
                "operations on members and non-members; order-dependent outputs are compared given the observed iteration order. distinct = distinct step list; "
                "non-trivial = at least one successful insert")

    def nontrivial(self, case):
        return any(s.startswith("gins") for s in case.steps)

    def oracle(self, case, flavour, obs):
        return cc.oracle_container(case, obs)


class C12(ContSpec):
    def cases(self, tier, rng):
        return cc.gen_roundtrip("D", rng, tier) + cc.gen_roundtrip("U", rng, tier)

    def exhaustive(self, tier):
        return "all multigraphs (every insertion order) on 3 nodes with <=%d edges, 2 containers each, JSON and CBOR" % (3 if tier == "thorough" else 2)

    def rule(self):
        return ("one case = graph + containers + for JSON and CBOR: the emitted document (as a value tree; compared with the model's decompose given the observed "
                "order) and the snapshot of the graph obtained by serialise->deserialise (compared with decompose;rebuild). seeded random graphs up to 40 nodes/120 edges. "
                "non-trivial = at least one edge")

    def nontrivial(self, case):
        return any(s.startswith("con ") for s in case.steps)

    def oracle(self, case, flavour, obs):
        return cc.oracle_roundtrip(case, obs)

    def known(self, case, flavour, msg):
        if (case.tags.get("kind") == "container-not-closed-under-adjacency" or case.name.startswith("known_container-not-closed-under-adjacency")) \
                and ("not closed under adjacency" in msg or "a non-member serialises" in msg):
            for kf in vlib.known_findings("C12"):
                if kf.get("class") == "container-not-closed-under-adjacency":
                    if not getattr(self, "_kf_line", None):    # one line per listed finding, with the first example met
                        self._kf_line = "class=%s %s -- still fails, e.g. %s on %s: %s" % (kf["class"], kf["text"][:200], [s for s in case.steps if s.startswith(("con", "gins"))][:6], flavour, msg[:200])
                    return self._kf_line
        return None


class C13(ContSpec):
    def cases(self, tier, rng):
        return cc.gen_untrusted("D", rng, tier) + cc.gen_untrusted("U", rng, tier)

    def exhaustive(self, tier):
        return "every structural mutation (see mutation_kinds) of the documents of all graphs on 2 nodes with <=2 edges; sampled on further seeds"

    def rule(self):
        return ("documents are value trees derived from valid documents by drop/duplicate/retarget/retype/reorder/truncate/extend mutations, fed as JSON and as CBOR; "
                "outcome (error, or the rebuilt graph's full snapshot) compared with the model's decode_doc;rebuild. byte-level mutations/truncations of JSON and CBOR "
                "encodings are exercised on the implementation only (no panic, sane result). non-trivial = document with at least one node")

    def nontrivial(self, case):
        return True

    def oracle(self, case, flavour, obs):
        return cc.oracle_untrusted(case, obs)


# ----------------------------------------------------------------------------
# C16: auto traits — translator + theorem over regenerated declarations + rustc's own truth table
# ----------------------------------------------------------------------------
class C16(CaseSpec):
    def pre(self, prop):
        try:
            txt, self.summary = tc.rs2coq_types.translate(vlib.REPO)
        except Exception as e:   # ParseError and anything else: the tie is broken
            self.summary = None
            return "rs2coq_types: %r" % (e,)
        dest = os.path.join(vlib.COQ, "gen", "TypesGen.v")
        os.makedirs(os.path.dirname(dest), exist_ok=True)
        if not os.path.exists(dest) or open(dest).read() != txt:
            open(dest, "w").write(txt)
        return None

    def assumptions(self):
        return ["rustc's Send/Sync contract: a type that is not Send/Sync cannot be moved to / shared with another thread by safe code (the step from the "
                "trait bits to 'no unsynchronised access' is Rust's guarantee, not proved here)",
                "trait selection for these types depends on K, N, E only through their Send/Sync bits (4 marker payloads per parameter)",
                "the translator tools/rs2coq_types.py and the rule table of model/AutoTraits.v are validated against rustc on 768 rows every run, not proved"]

    def correspondence(self, prop, tier, rng, workdir, pr, violations):
        t1 = time.time()
        rows, out = tc.run_probe()
        if rows is None:
            rp = write_replay(prop, dict(kind="probe-does-not-compile", log=out[-4000:],
                                         broken="the trait-table probe (incl. the generic positive obligations: sync Node/Edge/Graph<K,N,E> must be Send+Sync "
                                                "for all K,N,E: Send+Sync) does not compile against /repo's working tree"))
            violations.append((rp, "no-failing-input-found"))
            return dict(evaluations=1, distinct_nontrivial=2, rule="probe failed to compile", samples=[out[-300:]])
        for (fl, t, err) in tc.run_positive():
            rp = write_replay(prop, {"kind": "failing-input", "obligation": "gdsl::%s::%s<K, N, E>: Send + Sync for all K, N, E that are Send + Sync (borrowed payloads included)" % (fl, t),
                                     "rustc": err, "oracle": "the type cannot be sent to / shared with another thread although its payload types are Send + Sync",
                                     "program": "fn f<K: Clone + Hash + Display + Eq + Send + Sync, N: Clone + Send + Sync, E: Clone + Send + Sync>() { fn ok<T: Send + Sync>() {} ok::<gdsl::%s::%s<K, N, E>>(); }" % (fl, t)})
            violations.append((rp, ""))
        vbad = tc.value_row_failures()
        for (k, got, want) in vbad[:3]:
            rp = write_replay(prop, {"kind": "failing-input", "object": "%s handed out by gdsl::%s with node values of marker type %s" % (k[1], k[0], k[2]),
                                     "rustc": list(got), "required": list(want),
                                     "oracle": "an object that holds node handles is Send / Sync although the payload is not both (or is not although it is): (Send, Sync) = %s, required %s" % (got, want)})
            violations.append((rp, ""))
        mrows, mout = tc.model_table()
        dis = []
        if mrows is None:
            dis = [("model table could not be evaluated", mout[-500:])]
        else:
            for k in rows:
                if mrows.get(k) != rows[k]:
                    dis.append((k, rows[k], mrows.get(k)))
        bad = [(k, tc.property_row(k, v)) for k, v in sorted(rows.items()) if tc.property_row(k, v)]
        log("[%s] trait table: %d rows from rustc, %d disagree with the model, %d violate the property, %.1fs" % (prop, len(rows), len(dis), len(bad), time.time() - t1))
        cov = dict(evaluations=len(rows), distinct_nontrivial=len([k for k in rows if k[0].startswith("sync_")]),
                   rule="rows = {4 flavours} x {Node, Edge, Graph} x {4 marker payload types}^3 (Send+Sync, Send-only via Cell, Sync-only via MutexGuard, neither via Rc), "
                        "decided by rustc's trait solver in a generated probe crate compiled against /repo's working tree (plus generic positive obligations that must "
                        "type-check) and compared with `solve` on the declarations regenerated from the source; non-trivial = rows of the sync flavours",
                   samples=[dict(row=list(k), rustc=list(rows[k]), model=list(mrows[k]) if mrows else None) for k in sorted(rows)[200:203]],
                   traces_validated_against_impl=len(rows) - len(dis), disagreements=len(dis), exhaustive=True,
                   exhaustive_space="all 768 rows; the theorems quantify over all 64 (Send,Sync)-classes of (K,N,E) per flavour",
                   translated_declarations=self.summary, value_level_rows=len(tc.VALUE_ROWS), value_level_failures=len(vbad))
        shown = 0
        for k, msg in bad:
            if shown >= 3:
                break
            rp = write_replay(prop, {"kind": "failing-input", "row": list(k), "rustc": list(rows[k]), "model": list(mrows[k]) if mrows else None,
                                     "oracle": msg, "program": tc.replay_program(k)})
            violations.append((rp, ""))
            shown += 1
        if dis and not bad:
            rp = write_replay(prop, {"kind": "correspondence-broken", "first_disagreement": [str(x) for x in dis[0]], "disagreements": len(dis),
                                     "broken": "rustc's trait table and the model's `solve` on the regenerated declarations differ"})
            violations.append((rp, "no-failing-input-found"))
        return cov


# ----------------------------------------------------------------------------
# C14: construction macros — generated programs compiled against the working tree
# ----------------------------------------------------------------------------
class C14(CaseSpec):
    def assumptions(self):
        return ["macro EXPANSION is rustc's; the model is of the transcriber (the operation list an invocation expands to)",
                "node values, edge targets and edge values are pure integer expressions evaluated by the generator; key expressions are pure or yield the listed key at their FIRST evaluation only (`once`), and one block uses by-value String variables as keys"]

    def correspondence(self, prop, tier, rng, workdir, pr, violations):
        t1 = time.time()
        invs = mc.gen_invocations(rng, 600 if tier == "thorough" else 90)
        flavours = list(mc.MACROS)
        d = os.path.join(CACHE, "probes", "c14")
        mc.gen_probe(d, invs, random.Random(rng.random()), flavours)
        out, blog = mc.build_and_run(d)
        per_flavour_err = {}
        if out is None:
            # find the macro family that does not compile / crashes: build each flavour alone
            outs = []
            for fl in flavours:
                dd = os.path.join(CACHE, "probes", "c14_" + fl)
                mc.gen_probe(dd, invs, random.Random(1), [fl])
                o, bl = mc.build_and_run(dd)
                if o is None:
                    per_flavour_err[fl] = bl
                else:
                    outs.append(o)
            out = "\n".join(outs)
        # model
        cases = []
        for fl in flavours:
            cases.append(Case("mac_" + fl, mc.MACROS[fl], [i.step() for i in invs] + mc.helper_steps()))
        results = {"model": {}, "hangs": {}}
        impl = {}
        cur = None
        for line in out.splitlines():
            if line.startswith("case "):
                cur = line[5:]
                impl[cur] = []
            elif line.startswith("end "):
                cur = None
            elif cur is not None:
                sp = line.split(" ", 1)
                if sp[0].isdigit():
                    impl[cur].append((int(sp[0]), sp[1] if len(sp) > 1 else ""))
        dis, bad = [], []
        for c in cases:
            fl = c.name[4:]
            path = os.path.join(workdir, c.name + ".cases")
            vlib.write_cases([c], path)
            m = vlib.run_model(c.cls, path, path + ".mout")[0].get(c.name, [])
            r = impl.get(c.name)
            if r is None:
                continue
            for i in range(max(len(r), len(m))):
                a = r[i] if i < len(r) else None
                b = m[i] if i < len(m) else None
                if a != b:
                    dis.append((fl, i, a, b))
            # property oracle on the implementation's own output
            for (i, text) in r:
                if i < len(invs):
                    msg = self.decide(invs[i], c.cls, text)
                    if msg:
                        bad.append((fl, i, text, msg))
        log("[%s] macros: %d invocations x %d flavours, %d disagreements, %d property failures, build errors %s, %.1fs" % (
            prop, len(invs), len(flavours), len(dis), len(bad), sorted(per_flavour_err), time.time() - t1))
        forms = {}
        for i in invs:
            forms[i.form] = forms.get(i.form, 0) + 1
        cov = dict(evaluations=len(invs) * len(flavours), distinct_nontrivial=len(set(i.step() for i in invs if i.items)),
                   rule="generated program: %d invocations (fixed corner cases per form: empty, no edge list, empty list, self-loop, repeated edges, forward/backward "
                        "references, unlisted keys, a key listed twice; plus seeded random ones with non-literal value expressions) of each of the 4 macros, each ascribed "
                        "its flavour's Graph<K,N,E>; helper macros *_node!/*_connect!; compiled against /repo's working tree; every dump (or the key named by the panic) "
                        "compared with macro_build of the model. distinct = distinct invocation; non-trivial = at least one node" % len(invs),
                   samples=[invs[4].rust(random.Random(0), "digraph"), invs[-1].step()], invocations_per_form=forms,
                   traces_validated_against_impl=len(invs) * len(flavours) - len(dis), disagreements=len(dis))
        for fl, bl in per_flavour_err.items():
            errs = [l for l in bl.splitlines() if l.startswith("error")]
            rp = write_replay(prop, {"kind": "failing-input", "flavour": fl, "oracle": "a well-formed %s! invocation ascribed gdsl::%s::Graph does not compile / run: %s" % (fl, fl, errs[:2]),
                                     "program": os.path.join(CACHE, "probes", "c14_" + fl, "src", "main.rs"), "rustc": bl[-3000:]})
            violations.append((rp, ""))
        for (fl, i, text, msg) in bad[:3]:
            rp = write_replay(prop, {"kind": "failing-input", "flavour": fl, "invocation": invs[i].rust(random.Random(0), fl), "implementation": text, "oracle": msg})
            violations.append((rp, ""))
        if dis and not bad and not per_flavour_err:
            fl, i, a, b = dis[0]
            rp = write_replay(prop, {"kind": "correspondence-broken", "flavour": fl, "invocation": invs[i].rust(random.Random(0), fl) if i < len(invs) else "helper macros",
                                     "implementation": a, "model": b, "broken": "macro probe and macro_build differ"})
            violations.append((rp, "no-failing-input-found"))
        return cov

    def decide(self, inv, cls, text):
        """the denotation of an invocation, decided directly"""
        keys = []
        vals = {}
        for (k, v, edges) in inv.items:
            if k not in vals:
                vals[k] = v if inv.form in (2, 4) else 0
                keys.append(k)
        edges = [(k, t, (e if inv.form in (3, 4) else 0)) for (k, v, es) in inv.items for (t, e) in (es or [])]
        missing = None
        for (s, t, e) in edges:
            if s not in vals:
                missing = s
                break
            if t not in vals:
                missing = t
                break
        if missing is not None:
            return None if text == "panic %d" % missing else "expected a panic naming %d, got `%s`" % (missing, text[:80])
        if not text.startswith("ok"):
            return "well-formed invocation did not build a graph: %s" % text[:80]
        back = cc.parse_gsnap(text[3:], cls)
        if back is None or sorted(back) != sorted(keys):
            return "nodes of the result are not the listed nodes"
        for k in keys:
            if back[k]["val"] != vals[k]:
                return "node %d has value %d, listed %d" % (k, back[k]["val"], vals[k])
            if cls == "D":
                want = [(s, t, e) for (s, t, e) in edges if s == k]
                if back[k]["out"] != want:
                    return "edges of node %d are %s, listed %s" % (k, back[k]["out"], want)
            else:
                want = sorted([(s, t, e) for (s, t, e) in edges if s == k] + [(t, s, e) for (s, t, e) in edges if t == k])
                if sorted(back[k]["adj"]) != want:
                    return "edges of node %d are %s, listed %s" % (k, sorted(back[k]["adj"]), want)
        return None


# ----------------------------------------------------------------------------
# C19: ownership
# ----------------------------------------------------------------------------
class C19(CaseSpec):
    def cases(self, tier, rng):
        out = []
        for cls in ("D", "U"):
            out += oc.gen_enumerated(cls, rng, tier)
            out += oc.gen_random(cls, rng, 3000 if tier == "thorough" else 400)
            out += oc.gen_lookup(cls, rng, 2000 if tier == "thorough" else 400)
            out += oc.gen_twins(cls, rng, 1500 if tier == "thorough" else 300)
        return out

    def exhaustive(self, tier):
        return ("8 graph shapes on <=3 nodes (self-loops, cycles, parallel edges, still connected) x every subset of {clone, edge, path, result vector, container} "
                "holding them x every drop order when <=4 objects are alive (sampled orders beyond)")

    def rule(self):
        return ("ownership histories with drop-logging node values on all four flavours: after every step the set of node values released during that step must equal "
                "the model's (Own.v: strong = occurrences in live handles/edges/paths/result vectors/containers; adjacency entries are weak); objects still held are "
                "used after other handles are gone; searches/iteration over dangling adjacency entries must panic exactly where the model predicts. "
                "non-trivial = at least one connect and one drop that releases nothing or several nodes")

    def nontrivial(self, case):
        return any(s.startswith("ocon") for s in case.steps)

    def assumptions(self):
        return ["'released exactly once' at the memory level is Rc/Arc's guarantee; the model carries the ownership STRUCTURE (who is strong, who is weak)",
                "the drop-logging payload (harness) observes releases faithfully"]

    def oracle(self, case, flavour, obs):
        return oc.oracle_own(case, obs)


# ----------------------------------------------------------------------------
# C20: mutation from inside loops and callbacks
# ----------------------------------------------------------------------------
class C20(CaseSpec):
    def cases(self, tier, rng):
        return mu.gen_cases("D", rng, tier) + mu.gen_cases("U", rng, tier)

    def exhaustive(self, tier):
        if tier == "thorough":
            return ("all multigraphs on 2 nodes <=3 edges and 3 nodes <=2 edges x every loop kind (edge iterators; bfs/dfs/pfs-min/pfs-max x path/cycle/find; pre/post x "
                    "nodes/edges; transpose on/off; for_each and filter) x every single operation (connect, try_connect, disconnect, isolate with every operand; a new node) "
                    "injected at invocation 0..3")
        return ("all multigraphs on 2 nodes <=2 edges (and every 9th on 3 nodes) x every loop kind (edge iterators, bfs/dfs/pfs path searches, orderings, transpose on/off) x "
                "every single operation with every operand injected at invocation 0..2")

    def rule(self):
        return ("one case = graph, one or more `scr k op` (operation executed from inside the loop body / for_each / filter closure at its k-th invocation), the loop or "
                "traversal, a snapshot. compared: every edge yielded in order, the results of the injected operations, the traversal result and the final snapshot, on all "
                "four flavours (a self-deadlock of the sync flavours shows as a hang caught by the watchdog). seeded random multi-operation scripts on graphs up to 6 nodes. "
                "nested searches from inside closures are not generated. non-trivial = the loop runs on a node with at least one edge")

    def nontrivial(self, case):
        return any(s.startswith("con ") for s in case.steps)

    def sample(self, case):
        return dict(name=case.name, cls=case.cls, steps=case.steps)

    def oracle(self, case, flavour, obs):
        return mu.oracle_mut(case, obs)


# ----------------------------------------------------------------------------
# C17: concurrent operations on sync nodes
# ----------------------------------------------------------------------------
class C17(CaseSpec):
    flavours = ["sync_digraph", "sync_ungraph"]
    hang_secs = 12

    def assumptions(self):
        return ["threads are real OS threads run one at a time by a cooperative scheduler that switches only at lock points (hook, cfg gdsl_verif): this explores "
                "every interleaving of the critical sections but not OS-level fairness, the futex RwLock's writer preference beyond the guard-held probe, or memory-model effects",
                "concurrent traversals are represented by edge-iteration loops (their shared-state accesses are the same next() critical sections)",
                "known findings (KNOWN_FINDINGS.txt): the interference classes of D11 — two-phase mutations are not atomic"]

    def stress(self, violations, prop):
        """free-running smoke test: a stall is a deadlock (never a known finding)"""
        res = {}
        for fl in self.flavours:
            for scen in ("queries", "disconnect", "traversals", "isolate", "crossing"):
                try:
                    rc, out = vlib.sh([vlib.HARNESS_BIN, "stress", fl, scen, "1500"], timeout=30)
                except Exception as e:       # the stress binary itself hung
                    rc, out = 9, "stall: stress run did not return (%s)" % type(e).__name__
                res["%s/%s" % (fl, scen)] = out.strip().splitlines()[-1] if out.strip() else "rc=%d" % rc
                if rc != 0:
                    rp = write_replay(prop, {"kind": "failing-input", "flavour": fl, "oracle": "free-running threads stall, panic or leave a poisoned lock: " + res["%s/%s" % (fl, scen)],
                                             "command": "%s stress %s %s" % (vlib.HARNESS_BIN, fl, scen)})
                    violations.append((rp, ""))
        return res

    def decide(self, case, obs_text, serial_outcomes):
        """C17 on one schedule of the implementation; returns (message or None, hard)
        hard = never excusable by a known class (deadlock / hang / guard held across a lock point)"""
        o = cn.parse_sched_obs(obs_text)
        if o["hang"]:
            return "a call never returns (thread blocked inside the library)", True
        if o["deadlock"]:
            return "deadlock: every unfinished thread is blocked on a lock", True
        if o["held"]:
            return "a lock is requested while a guard is still alive (lock discipline): %s" % [e for e in o["events"] if e.endswith("!held")][:2], True
        if any(st == "panic" for (st, _) in o["threads"]) or o["pois"]:
            return "a call panicked%s" % (" and poisoned the lock of node(s) %s" % o["pois"] if o["pois"] else ""), False
        if cn.outcome_of(o) not in serial_outcomes:
            return "results and final graph are not those of any sequential order of the calls", False
        return None, False

    def lock_scan(self, prop, violations):
        """the cooperative scheduler only ever lets a thread through when its lock is FREE, so code that behaves differently
        under contention (try_read / try_write / try_lock, WouldBlock arms) is dead in every replay: such a call in a sync
        flavour is outside the micro-step model (every acquisition blocks until granted) — a broken tie, reported"""
        hits = []
        for fl in self.flavours:
            for dirpath, _, files in os.walk(os.path.join(vlib.REPO, "src", fl)):
                for f in sorted(files):
                    if f.endswith(".rs"):
                        for i, line in enumerate(open(os.path.join(dirpath, f)).read().split("\n")):
                            code = line.split("//")[0]
                            if re.search(r"\.\s*try_(read|write|lock)\s*\(", code) or "WouldBlock" in code:
                                hits.append("%s:%d: %s" % (os.path.relpath(os.path.join(dirpath, f), vlib.REPO), i + 1, code.strip()[:120]))
        if hits:
            rp = write_replay(prop, dict(kind="non-blocking-lock-acquisition", sites=hits[:10],
                                         broken="a sync flavour acquires a lock without blocking (try_read / try_write): its behaviour under contention is outside "
                                                "the micro-step model, whose acquisitions block until granted, and unreachable for the scheduler"))
            violations.append((rp, "no-failing-input-found"))
        return hits

    def correspondence(self, prop, tier, rng, workdir, pr, violations):
        t1 = time.time()
        self.lock_scan(prop, violations)
        stress = self.stress(violations, prop)
        corpus = [c for c in load_corpus(prop)]
        scen = []
        for cls in ("D", "U"):
            scen += cn.gen_scenarios(cls, rng, tier)
        for c in corpus:
            c.tags = dict(kind="corpus", known=c.name.split(":")[0].replace("known_", "") if c.name.startswith("known_") else None, threads=[], n=0)
            if not any(s == "explore" for s in c.steps):
                c.steps.append("explore")
        allsc = corpus + scen
        limit = 0 if tier == "thorough" else 60
        # the listed known findings' own scenarios: every schedule, in both tiers
        cases, counts, class_mismatch = cn.explore(corpus, os.path.join(workdir, "corpus"), 0)
        cases2, counts2, mm2 = cn.explore(scen, workdir, limit)
        cases += cases2
        counts.update(counts2)
        class_mismatch += mm2
        if class_mismatch:
            log("[%s] class predicate: python and Coq disagree on %d scenarios, e.g. %s" % (prop, len(class_mismatch), class_mismatch[0]))
        results, fls = vlib.run_all(cases, workdir, "c", flavours=self.flavours, hang_secs=self.hang_secs, nshards=32)
        dis = vlib.compare(cases, results, fls)
        log("[%s] %d scenarios, %d schedules replayed on %s, %d disagreements, %.1fs" % (prop, len(allsc), len(cases), fls, len(dis), time.time() - t1))
        # group by scenario
        by_scen = {}
        for c in cases:
            by_scen.setdefault(c.tags["scenario"], []).append(c)
        known_hit, new_bad = {}, []
        listed = {kf.get("class"): kf for kf in vlib.known_findings(prop)}
        for fl in fls:
            cl = "D" if fl == "sync_digraph" else "U"
            for sname, cs in by_scen.items():
                if cs[0].cls != cl:
                    continue
                obs = {}
                for c in cs:
                    r = results[fl].get(c.name)
                    if c.name in results["hangs"][fl] or not r:
                        obs[c.name] = "ev | HANG"
                    else:
                        obs[c.name] = r[-1][1]
                serial = set()
                for c in cs:
                    if c.tags["serial"]:
                        serial.add(cn.outcome_of(cn.parse_sched_obs(obs[c.name])))
                # the model's own verdict on the same schedules: a known finding explains a failing schedule only if the
                # MODEL (which has the finding) fails on that schedule too
                mobs = {}
                for c in cs:
                    r = results.get("model", {}).get(c.name)
                    mobs[c.name] = r[-1][1] if r else None
                mserial = set(cn.outcome_of(cn.parse_sched_obs(mobs[c.name])) for c in cs if c.tags["serial"] and mobs[c.name])
                for c in cs:
                    msg, hard = self.decide(c, obs[c.name], serial)
                    if not msg:
                        continue
                    k = c.tags.get("known")
                    model_fails = True
                    if mobs[c.name]:
                        mmsg, _ = self.decide(c, mobs[c.name], mserial)
                        model_fails = bool(mmsg)
                    if k and not hard and k in listed and model_fails:
                        known_hit.setdefault(k, (fl, c, msg))
                    else:
                        if k and not model_fails:
                            msg += " (the scenario lies in the known-finding class `%s`, but the model, which has that finding, is fine on this very schedule)" % k
                        new_bad.append((fl, c, msg, obs[c.name]))
        for k in sorted(known_hit):
            fl, c, msg = known_hit[k]
            self.known_lines.append("class=%s %s -- still fails, e.g. %s on %s: %s" % (
                k, listed[k]["text"][:160], [s for s in c.steps if s.startswith(("con", "thr", "sched"))], fl, msg))
        shown = set()
        for (fl, c, msg, text) in new_bad:
            sig = (fl, msg[:40])
            if sig in shown or len(shown) >= 3:
                continue
            shown.add(sig)
            rp = write_replay(prop, {"kind": "failing-input", "class": c.cls, "flavours": [fl], "case": c.steps, "implementation": text,
                                     "model": (results.get("model", {}).get(c.name) or [[0, ""]])[-1][1], "oracle": msg})
            violations.append((rp, ""))
        if dis and not new_bad:
            d = dis[0]
            c = {x.name: x for x in cases}[d["case"]]
            rp = write_replay(prop, {"kind": "correspondence-broken", "class": c.cls, "flavours": [d["flavour"]], "case": c.steps, "first_disagreement": d,
                                     "broken": "conc channel: real threads under the scheduler and Conc.v differ (lock-point sequence, results or final graph)"})
            violations.append((rp, "no-failing-input-found"))
        nk = len([c for c in allsc if c.tags.get("known")])
        cov = dict(evaluations=len(cases) * len(fls), distinct_nontrivial=len(set(vlib.case_hash(c) for c in cases if len(c.steps[-1].split()) > 3)),
                   rule="scenario = initial graph + 2-3 thread programs (connect, try_connect, disconnect, isolate, degree/is_orphan/is_connected queries, edge iteration); the "
                        "extracted model (Conc.v) enumerates the maximal schedules (interleavings of critical sections)%s; each is replayed on real threads of sync_digraph / "
                        "sync_ungraph under the cooperative scheduler; compared: lock-point sequence (thread, node, read/write), per-thread results, panics, poisoned locks, final "
                        "graph. decided per schedule: no hang/deadlock/guard held at a lock point; no panic; outcome equals that of a serial schedule. non-trivial = schedule "
                        "with more than 3 steps" % ("" if limit == 0 else " (first %d per scenario in the quick tier)" % limit),
                   samples=[dict(name=c.name, steps=c.steps) for c in cases[:1] + cases[len(cases) // 2: len(cases) // 2 + 1]],
                   scenarios=len(allsc), scenarios_in_known_classes=nk, scenarios_outside_known_classes=len(allsc) - nk,
                   schedules_total=sum(counts.values()), schedules_replayed=len(cases), traces_validated_against_impl=len(cases) * len(fls) - len(dis),
                   disagreements=len(dis), known_classes_reproduced=sorted(known_hit), free_running_stress=stress,
                   class_predicate="ConcClass.known_class (Coq, through the extracted model); python cross-check mismatches: %d" % len(class_mismatch),
                   exhaustive=(tier == "thorough"), exhaustive_space="2 threads x 1 call over 2 nodes: every pair of calls x every initial edge set with <=2 edges, all schedules" if tier == "thorough" else "")
        return cov


# ----------------------------------------------------------------------------
# C15: sync flavours are drop-in replacements
# ----------------------------------------------------------------------------
TWIN_BODY = r"""
use gdsl::FLAVOUR::*;
fn main() {
    let a: Node<u64, i64, u64> = Node::new(1, 0);
    let b: Node<u64, i64, u64> = Node::new(2, 0);
    a.connect(&b, 5);
    a.connect(&b, 6);
    b.connect(&a, 5);
    let es: Vec<Edge<u64, i64, u64>> = a.ITER.collect();
    let fs: Vec<Edge<u64, i64, u64>> = b.ITER.collect();
    println!("parallel eq={} cmp={:?} pcmp={:?} lt={}", es[0] == es[1], es[0].cmp(&es[1]), es[0].partial_cmp(&es[1]), es[0] < es[1]);
    println!("same-value-other-endpoints eq={} cmp={:?}", es[0] == fs[0], es[0].cmp(&fs[0]));
    println!("reverse {:?}", { let r = es[0].reverse(); (*r.source().key(), *r.target().key(), *r.value()) });
    let mut g: Graph<u64, i64, u64> = Graph::new();
    g.insert(a.clone());
    g.insert(b.clone());
    println!("index {} {}", g[1].key(), g[2].key());
    println!("default {}", Graph::<u64, i64, u64>::default().len());
    // payloads without Display (unit values): the container methods must not ask for more than the twin does
    let mut h: Graph<u64, (), ()> = Graph::new();
    h.insert(Node::new(7, ()));
    println!("unitdot {}", h.to_dot().split_whitespace().collect::<Vec<_>>().join(" "));
    println!("unitlen {} {}", h.len(), h.contains(&7));
    // payload types with the minimal bounds only (Clone; a borrowed key): neither twin may ask for more than the other
    #[derive(Clone)]
    struct W(u8);
    let mut m: Graph<&'static str, W, W> = Graph::default();
    let x = Node::new("x", W(1));
    let y = Node::new("y", W(2));
    x.connect(&y, W(3));
    let refused = x.try_connect(&y, W(4)).is_err();
    m.insert(x.clone());
    m.insert(y.clone());
    let n = x.ITER.count();
    let found = x.bfs().target(&"y").search().map(|n| n.value().0).unwrap_or(0);
    let path = x.dfs().target(&"y").search_path().map(|p| p.len()).unwrap_or(0);
    let d = x.disconnect(&"y").map(|w| w.0).unwrap_or(0);
    y.isolate();
    let got = m.get(&"x").map(|n| n.value().0).unwrap_or(0);
    let removed = m.remove(&"y").is_some();
    println!("minimal {} {} {} {} {} {} {} {} {}", m.len(), n, refused, found, path, d, got, removed, m.to_vec().len());
    // a search configured step by step, the target key computed in an inner scope that ends before the search runs:
    // target() must not tie the key's borrow to the builder in one twin only
    let scoped = {
        let mut s1 = a.SCOPED1();
        let mut s2 = a.dfs();
        let mut s3 = a.SCOPED3();
        if g.len() > 1 {
            let key: u64 = g.len() as u64;
            s1 = s1.target(&key);
            s2 = s2.target(&key);
            s3 = s3.target(&key);
        }
        (s1.search_path().map(|p| p.len()), s2.search_path().map(|p| p.len()), s3.search_path().map(|p| p.len()))
    };
    println!("scoped {:?}", scoped);
}
"""


class C15(CaseSpec):
    two_pass = False

    def assumptions(self):
        return ["'common API' = every call the harness makes identically on both twins; APIs present in only one twin (with_capacity, Index<&K> of digraph; to_dot_with_attr, "
                "missing in sync_ungraph) are outside the property",
                "the Coq side of C15 is the single model both twins are compared with (all theorems of the other properties hold for it); the property itself is decided by the correspondence"]

    def twin_probe(self, prop, violations):
        """the same program text compiled against each twin: must compile for both or neither and print the same"""
        outs = {}
        for fl, it in (("digraph", "iter_out()"), ("sync_digraph", "iter_out()"), ("ungraph", "iter()"), ("sync_ungraph", "iter()")):
            d = os.path.join(CACHE, "probes", "c15_" + fl)
            os.makedirs(os.path.join(d, "src"), exist_ok=True)
            open(os.path.join(d, "Cargo.toml"), "w").write('[package]\nname = "gdsl_c15_%s"\nversion = "0.1.0"\nedition = "2021"\n\n[dependencies]\ngdsl = { path = "%s" }\n\n[workspace]\n' % (fl, vlib.REPO))
            import shutil
            shutil.copy(os.path.join(vlib.REPO, "Cargo.lock"), os.path.join(d, "Cargo.lock"))
            open(os.path.join(d, "src", "main.rs"), "w").write(TWIN_BODY.replace("FLAVOUR", fl).replace("ITER", it).replace("SCOPED1", "bfs" if fl.endswith("digraph") else "dfs").replace("SCOPED3", "pfs" if fl.endswith("digraph") else "dfs"))
            env = {"RUSTFLAGS": vlib.RUSTFLAGS, "CARGO_NET_OFFLINE": "true", "CARGO_TARGET_DIR": os.path.join(CACHE, "target")}
            rc, out = vlib.sh("cargo run --release --offline 2>&1", cwd=d, env=env, timeout=900)
            if rc != 0:
                outs[fl] = ("compile-error", [l for l in out.splitlines() if l.startswith("error")][:4])
            else:
                outs[fl] = ("ok", [l for l in out.splitlines() if l.split(" ")[0] in ("parallel", "same-value-other-endpoints", "reverse", "index", "default", "unitdot", "unitlen", "minimal", "scoped")])
        for a, b in (("digraph", "sync_digraph"), ("ungraph", "sync_ungraph")):
            if outs[a] != outs[b]:
                rp = write_replay(prop, {"kind": "failing-input", "oracle": "the same program behaves differently on %s and %s: %s vs %s" % (a, b, outs[a], outs[b]),
                                         "program": TWIN_BODY, "twins": [a, b], "outputs": {a: outs[a], b: outs[b]}})
                violations.append((rp, ""))
        return outs

    def harness_broken(self, prop, violations):
        self.twin_probe(prop, violations)

    def cases(self, tier, rng):
        thorough = tier == "thorough"
        out = []
        r2 = random.Random(rng.random())
        for cls in ("D", "U"):
            out += nc.gen_exhaustive(cls, 3, 2 if not thorough else 3, prefix="e")[::(3 if not thorough else 1)]
            out += nc.gen_random(cls, r2, 40 if not thorough else 400, minlen=40, maxlen=150)
            out += sc.gen_cases(cls, r2, tier, ("bfs", "dfs", "pmin", "pmax", "pre", "post"), ("find", "path", "cycle", "nodes", "edges"),
                                level=1, n_small=3, m_small=2, nrandom=30 if not thorough else 300)[::(2 if not thorough else 1)]
            out += cc.gen_container(cls, r2, tier)[::(4 if not thorough else 1)]
            out += cc.gen_roundtrip(cls, r2, tier)[::(3 if not thorough else 1)]
            out += cc.gen_untrusted(cls, r2, tier)[::(3 if not thorough else 1)]
            out += oc.gen_random(cls, r2, 60 if not thorough else 600)
            out += oc.gen_lookup(cls, r2, 40 if not thorough else 400)
            out += oc.gen_twins(cls, r2, 30 if not thorough else 300)
            out += mu.gen_cases(cls, r2, tier)[::(40 if not thorough else 5)]
            # edge comparison traits
            steps = ["new 5 0", "new 3 1", "con 0 1 7", "con 0 1 8", "con 1 0 7", "con 0 0 7"]
            for (u, i, v, j) in [(0, 0, 0, 1), (0, 0, 1, 0), (0, 0, 0, 0), (0, 2, 0, 0), (1, 0, 0, 2), (0, 1, 0, 0)]:
                steps.append("ecmp %d %d %d %d" % (u, i, v, j))
            out.append(Case("ecmp" + cls, cls, steps, dict(kind="edge-comparison")))
            # node value type whose PartialOrd is unlike its Ord (self-checking; the twins must both print ok)
            out.append(Case("nvord" + cls, cls, ["nvord"], dict(kind="value-type-with-PartialOrd-unlike-Ord")))
        if True:
            out += cc.gen_scc(r2, tier)[::(6 if not thorough else 1)]
        return out

    two_pass = True

    def rule(self):
        return ("the union of the case families of all other properties (node histories, searches and orderings with all options, containers, scc, serde, ownership, scripted "
                "closures, edge/node comparison) is run on each plain flavour and its sync twin: both must print exactly what the model prints (container iteration order is "
                "an input), hence the same as each other; additionally the twins' outputs are diffed directly on all lines that do not depend on hash order, and one program "
                "text is compiled against each twin (must compile for both and print the same). non-trivial = case with at least one mutation")

    def nontrivial(self, case):
        return any(s.split()[0] in ("con", "ocon", "gcon", "gins") for s in case.steps)

    def sample(self, case):
        return dict(name=case.name, cls=case.cls, steps=case.steps[:15])

    def oracle(self, case, flavour, obs):
        # decided against the twin: filled in by correspondence (self.twin_obs)
        twin = {"digraph": "sync_digraph", "sync_digraph": "digraph", "ungraph": "sync_ungraph", "sync_ungraph": "ungraph"}[flavour]
        other = self.twin_obs.get((twin, case.name))
        if obs == "HANG" or other == "HANG":
            return None if obs == other else "one twin hangs, the other does not"
        if other is None:
            return None
        for (a, b) in zip(obs, other):
            if a[1].startswith("ord [") or b[1].startswith("ord ["):
                # hash order differs between the twins; the serde data-model shape (" dm ..", harness/src/shape.rs)
                # depends only on the numbers of nodes and edges, so it must be the same
                da, db = a[1].partition(" dm ")[2], b[1].partition(" dm ")[2]
                if da != db:
                    return "step %d `%s`: Serialize makes different serde data-model calls: %s `%s`, %s `%s`" % (
                        a[0], case.steps[a[0]] if a[0] < len(case.steps) else "?", flavour, da[:100], twin, db[:100])
                continue
            if a[1] == "skip" or b[1] == "skip":
                continue
            if a != b:
                return "step %d `%s`: %s prints `%s`, %s prints `%s`" % (a[0], case.steps[a[0]] if a[0] < len(case.steps) else "?", flavour, a[1][:100], twin, b[1][:100])
        if len(obs) != len(other):
            return "the twins executed a different number of steps"
        return None

    def correspondence(self, prop, tier, rng, workdir, pr, violations):
        self.twin_obs = {}
        probe = self.twin_probe(prop, violations)
        # run once to collect the twins' observations for the direct comparison used by the oracle
        cov = None
        orig_run_all = vlib.run_all

        def run_all_capture(*a, **kw):
            results, fls = orig_run_all(*a, **kw)
            for fl in fls:
                for nm, obs in results[fl].items():
                    self.twin_obs[(fl, nm)] = obs
                for nm in results["hangs"][fl]:
                    self.twin_obs[(fl, nm)] = "HANG"
            return results, fls
        vlib.run_all = run_all_capture
        try:
            cov = CaseSpec.correspondence(self, prop, tier, rng, workdir, pr, violations)
        finally:
            vlib.run_all = orig_run_all
        # direct twin diff over everything (also when the model agrees with both)
        direct = 0
        seen = set()
        for (fl, nm), obs in list(self.twin_obs.items()):
            if fl.startswith("sync_") or nm in seen:
                continue
            seen.add(nm)
        cov["twin_probe"] = {k: list(v) for k, v in probe.items()}
        return cov


REGISTRY = {"C15": C15, "C17": C17, "C20": C20, "C19": C19, "C14": C14, "C16": C16, "C11": C11, "C12": C12, "C13": C13, "C18": C18, "C01": C01, "C02": C02, "C03": C03, "C04": C04, "C05": C05, "C06": C06, "C07": C07, "C08": C08,
            "C09": C09, "C10": C10}
