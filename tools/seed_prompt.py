#!/usr/bin/env python3
# seed_prompt.py <round-tag> <theme> <ids...>: create scratch worktrees of /repo and the prompts for seeding sub-agents
# (the prompt contains only the property text and the worktree path; nothing from /verif)
import json, os, subprocess, sys
THEMES = {
 "sync": "ADDITIONAL CONSTRAINT FOR THIS ROUND: the defect must live ONLY in a sync flavour (sync_digraph or sync_ungraph) and concern LOCKING: a guard (RwLock read/write) that is kept alive across a call that locks another node or the same node again, a lock taken in a different order, a read guard where a write is needed behind an upgrade, a temporary that now lives to the end of the statement, an iterator that holds a guard across the loop body. In ordinary single-threaded use with distinct nodes it must behave exactly like the original; it only shows for particular shapes (self-loops, a node that is its own neighbour's neighbour, an operation called from inside a closure or loop body) or particular two-thread interleavings.",
 "two": "ADDITIONAL CONSTRAINT FOR THIS ROUND: the defect must consist of TWO cooperating edits in different functions (or files), each of which is harmless on its own (the library with only one of them applied satisfies the property); only together do they break it. Explain in meta.json why each alone is harmless.",
 "state": "ADDITIONAL CONSTRAINT FOR THIS ROUND: the defect must come from HIDDEN STATE that survives between calls: a cached length / degree / lookup result / visited set / last-found neighbour / sorted flag / memoised answer stored in the node, the adjacency, the container or the search object, which is not (or not always) invalidated when the graph changes or when the same object is used again. The first use on a fresh structure must behave exactly like the original; only a later call, after particular mutations in between, gives a wrong answer.",
 "order": "ADDITIONAL CONSTRAINT FOR THIS ROUND: the defect must change an ORDER that the property pins down (relative order of a node's edges, order of edges in a path, order of nodes in an ordering, listed order in macros, order after a round trip, which of several parallel edges is removed or returned first) while leaving every SET or COUNT unchanged — so that a check comparing sorted or counted results cannot see it.",
 "boundary": "ADDITIONAL CONSTRAINT FOR THIS ROUND: the defect must be an OFF-BY-ONE or boundary slip: the first or last element of a list (first edge of a node, last edge of a path, last member, last listed edge of a macro, last element of a document), a path of exactly one edge, a cycle of length one or two, index 0 versus index len-1, an empty prefix or suffix. Everything away from the boundary must behave exactly like the original.",
 "err": "ADDITIONAL CONSTRAINT FOR THIS ROUND: put the defect on an ERROR path or a DEGENERATE case that the property still covers: disconnecting an absent key or an already removed edge, a refused try_connect, removing an absent member, empty containers and empty graphs, single-node graphs, a search whose root has no edges / is an orphan / equals the target, an unreachable or non-existent target, deserialising empty or minimal documents, macros with zero nodes or zero edges, a node connected only to itself. The common, successful path must behave exactly like the original.",
 "combo": "ADDITIONAL CONSTRAINT FOR THIS ROUND: the defect must manifest only for a specific COMBINATION of algorithm configuration and graph feature that looks too exotic to have been tested: e.g. priority-first max() mode + transpose() + search_cycle; postorder + transpose + search_edges; search() and search_path() of the same configuration disagreeing; a filter together with a target that is the root's direct neighbour through a parallel edge; for_each on a cycle search; pfs where two nodes have equal values. Every other configuration must behave exactly like the original.",
 "opt": "ADDITIONAL CONSTRAINT FOR THIS ROUND: disguise the defect as an IMPROVEMENT — a performance optimisation or clean-up a maintainer could plausibly merge (swap_remove instead of remove, caching a length or a degree, an early exit, avoiding a clone, hoisting a lookup out of a loop, merging two passes into one, replacing an index loop by an iterator adaptor, reusing a buffer, relaxing a lock to a shorter section, ...). On most inputs the optimised code must behave exactly like the original; only particular inputs expose that the optimisation is wrong.",
 "api": "ADDITIONAL CONSTRAINT FOR THIS ROUND: put the defect in a LESS-TRAVELLED part of the public API that the property still covers — for example accessors of returned paths (first/last node or edge, node/edge iterators, to_vec_*, len, indexing), Edge/Node comparison and reverse(), container views (roots, leaves, orphans, iter, to_vec, Index, remove), to_dot / to_dot_with_attr, the less common macro forms, the less common search configurations (transpose + filter + target together, max() priority, filter_map-style closures, search_nodes/search_edges of orderings), serialisation of unusual graphs — rather than in the main path of connect / bfs that any smoke test runs.",
 "deep": "ADDITIONAL CONSTRAINT FOR THIS ROUND: the defect must only manifest after a LONG or DEEP history: e.g. only after a node has been disconnected and reconnected, only on the second traversal from the same root, only when a node was removed from a container and re-inserted, only after an isolate followed by new connects, only when a deserialised graph is mutated and serialised again, only at depth >= 4 of a traversal or on paths of length >= 5, only when the same key is reused by a new node after the old one was dropped. A single operation on a fresh small graph must behave exactly like the original.",
}
TEMPLATE = open(os.path.join(os.path.dirname(os.path.abspath(__file__)), "seed_template.md")).read()
def main():
    tag, theme, ids = sys.argv[1], sys.argv[2], sys.argv[3:]
    props = {}
    for l in open("/verif/properties.jsonl"):
        d = json.loads(l); props[d["id"]] = d
    os.makedirs("/tmp/seeds", exist_ok=True)
    for pid in ids:
        name = "%s_%s" % (pid, tag)
        wt = "/tmp/wte_%s" % name
        if not os.path.exists(wt):
            subprocess.run(["git", "-C", "/repo", "worktree", "add", "--detach", wt, "HEAD"], check=True, capture_output=True)
        p = props[pid]
        text = TEMPLATE.format(WT=wt, ID=pid, TITLE=p.get("title", ""), STATEMENT=p.get("statement") or p.get("text"), QUANT=p.get("quantification") or p.get("quantifier") or p.get("holds_for") or "", OUT="/tmp/seeds/" + name)
        text = text.replace("DELIVERABLES, in the directory", THEMES[theme] + "\n\nDELIVERABLES, in the directory", 1)
        open("/tmp/seeds/prompt_%s.md" % name, "w").write(text)
        print(name, wt)
if __name__ == "__main__":
    main()
