# search_chan.py — generators and oracles for the `search` channel (C04-C10)
import itertools, random, re
from vlib import Case

KEYS4 = [5, 3, 9, 1, 12, 7]
EDGE = re.compile(r"\((-?\d+)>(-?\d+):(-?\d+)\)")


# ----------------------------------------------------------------------------
# graphs
# ----------------------------------------------------------------------------
class G:
    def __init__(self, cls, keys, vals, edges):
        self.cls, self.keys, self.vals, self.edges = cls, list(keys), list(vals), list(edges)  # edges: (u,v,e) ids
        n = len(keys)
        self.n = n
        self.out = [[] for _ in range(n)]
        self.inn = [[] for _ in range(n)]
        for (u, v, e) in edges:
            self.out[u].append((v, e))
            self.inn[v].append((u, e))
        self.id_of = {k: i for i, k in enumerate(keys)}

    def succ(self, u, d):
        if d == "out":
            return self.out[u]
        if d == "in":
            return self.inn[u]
        return self.out[u] + self.inn[u]

    def steps(self):
        s = ["new %d %d" % (k, v) for k, v in zip(self.keys, self.vals)]
        s += ["con %d %d %d" % e for e in self.edges]
        return s


def graph_of_case(case):
    keys, vals, edges = [], [], []
    for s in case.steps:
        t = s.split()
        if t[0] == "new":
            keys.append(int(t[1]))
            vals.append(int(t[2]))
        elif t[0] == "con":
            edges.append((int(t[1]), int(t[2]), int(t[3])))
        elif t[0] in ("srch", "loop", "scr"):
            break
    return G(case.cls, keys, vals, edges)


def all_graphs(cls, n, max_edges, vals=None):
    pairs = [(u, v) for u in range(n) for v in range(n)]
    for m in range(max_edges + 1):
        for hist in itertools.product(pairs, repeat=m):
            yield G(cls, KEYS4[:n], vals or [2, 0, 1, 2, 0, 1][:n], [(u, v, 10 + i) for i, (u, v) in enumerate(hist)])


def random_graph(cls, rng, maxn=40, maxe=120, valrange=6):
    n = rng.randint(2, maxn)
    m = rng.randint(0, min(maxe, n * 4))
    keys = rng.sample(range(1, 400), n)
    small_domain = rng.random() < 0.3 and n <= 40
    if small_domain:
        # keys, node values and edge values drawn from ONE small domain: numeric coincidences (key == value, equal edge
        # values on different edges, value == degree) occur naturally
        keys = rng.sample(range(0, n + 3), n)
    vals = [rng.randint(0, valrange) for _ in range(n)]
    if rng.random() < 0.3:
        # the whole i64 range, negative values and the extremes included (comparison by subtraction would overflow)
        WIDE = [-2 ** 63, -2 ** 63 + 1, -2 ** 62, -7, -1, 0, 1, 7, 2 ** 62, 2 ** 63 - 2, 2 ** 63 - 1]
        vals = [rng.choice(WIDE) for _ in range(n)]
    edges = []
    for i in range(m):
        u = rng.randrange(n)
        r = rng.random()
        if r < 0.05:
            v = u
        elif r < 0.15 and edges:
            v = rng.choice(edges)[1]
        else:
            v = rng.randrange(n)
        edges.append((u, v, rng.randint(0, 6) if small_domain else 100 + i))
    return G(cls, keys, vals, edges)


# ----------------------------------------------------------------------------
# methods (pure predicates shared with harness and driver)
# ----------------------------------------------------------------------------
def method_tokens(m):
    if m is None:
        return ""
    if m[0] == "each":
        return " each"
    if m[0] == "filt":
        return " filt %d %d" % (m[1], m[2])
    if m[0] == "rej":
        return " rej %d %s" % (len(m[1]), " ".join("%d %d %d" % x for x in m[1]))
    raise ValueError(m)


def parse_method(t, at):
    if len(t) <= at:
        return None
    if t[at] == "each":
        return ("each",)
    if t[at] == "filt":
        return ("filt", int(t[at + 1]), int(t[at + 2]))
    if t[at] == "rej":
        k = int(t[at + 1])
        return ("rej", [(int(t[at + 2 + 3 * i]), int(t[at + 3 + 3 * i]), int(t[at + 4 + 3 * i])) for i in range(k)])
    return None


def accepts(m, s, t, e):
    """on KEYS"""
    if m is None or m[0] == "each":
        return True
    if m[0] == "filt":
        return (3 * s + 5 * t + 7 * e + m[1]) % m[2] != 0
    if m[0] == "rej":
        return (s, t, e) not in m[1]
    return True


def srch(algo, what, root, tr, target, m=None):
    return "srch %s %s %d %d %s%s" % (algo, what, root, 1 if tr else 0, "-" if target is None else str(target), method_tokens(m))


# ----------------------------------------------------------------------------
# observation parsing
# ----------------------------------------------------------------------------
def parse_obs(text):
    """-> dict(kind=none|node|path|nodes|edges|loop|panic|other, ..., trace=[...]|None)"""
    parts = text.split(" | ")
    head = parts[0]
    r = dict(kind="other", raw=text, trace=None, log=None, xlog=None)
    for p in parts[1:]:
        if p.startswith("tr"):
            r["trace"] = [(int(a), int(b), int(c)) for a, b, c in EDGE.findall(p)]
        elif p.startswith("log"):
            r["log"] = p.split()[1:]
        elif p.startswith("xlog"):
            r["xlog"] = p.split()[1:]
    if head.startswith("panic"):
        r["kind"] = "panic"
    elif head == "r none":
        r["kind"] = "none"
    elif head.startswith("r node "):
        r["kind"] = "node"
        r["key"] = int(head.split()[2])
    elif head.startswith("r path"):
        r["kind"] = "path"
        r["edges"] = [(int(a), int(b), int(c)) for a, b, c in EDGE.findall(head.split(" nodes")[0])]
        acc = head.split(" acc ", 1)[1].split() if " acc " in head else []
        r["first_node"] = int(acc[2]) if len(acc) > 3 and re.fullmatch(r"-?\d+", acc[2]) else None
        r["last_node"] = int(acc[3]) if len(acc) > 3 and re.fullmatch(r"-?\d+", acc[3]) else None
        tail = head.split(" nodes")[1].split(" acc ")[0]
        toks = tail.split()
        li = toks.index("len")
        r["nodes"] = [int(x) for x in toks[:li]]
        r["len"] = int(toks[li + 1])
    elif head.startswith("r nodes"):
        r["kind"] = "nodes"
        r["nodes"] = [int(x) for x in head.split()[2:]]
    elif head.startswith("r edges"):
        r["kind"] = "edges"
        r["edges"] = [(int(a), int(b), int(c)) for a, b, c in EDGE.findall(head)]
    elif head.startswith("r loop"):
        r["kind"] = "loop"
    elif head.startswith("fuel"):
        r["kind"] = "fuel"
    return r


# ----------------------------------------------------------------------------
# reference computations (independent of the model; used only to select replays)
# ----------------------------------------------------------------------------
def acc_succ(g, u, d, m):
    ku = g.keys[u]
    return [(v, e) for (v, e) in g.succ(u, d) if accepts(m, ku, g.keys[v], e)]


def reach_from(g, root, d, m):
    seen = {root}
    st = [root]
    while st:
        u = st.pop()
        for (v, e) in acc_succ(g, u, d, m):
            if v not in seen:
                seen.add(v)
                st.append(v)
    return seen


def bfs_dist(g, root, d, m):
    dist = {root: 0}
    q = [root]
    while q:
        u = q.pop(0)
        for (v, e) in acc_succ(g, u, d, m):
            if v not in dist:
                dist[v] = dist[u] + 1
                q.append(v)
    return dist


def shortest_cycle(g, root, d, m):
    """fewest edges of a closed accepted walk of >=1 edges through root (None if none)"""
    dist = bfs_dist(g, root, d, m)
    best = None
    for u in dist:
        for (v, e) in acc_succ(g, u, d, m):
            if v == root:
                c = dist[u] + 1
                best = c if best is None or c < best else best
    return best


def check_chain(g, d, m, root, edges, end_id):
    """edges given on KEYS; each must be an accepted adjacency entry, joined end to start"""
    cur = root
    for (s, t, e) in edges:
        if s not in g.id_of or t not in g.id_of:
            return "edge %s mentions an unknown key" % ((s, t, e),)
        si, ti = g.id_of[s], g.id_of[t]
        if si != cur:
            return "edge %s does not start where the previous one ended" % ((s, t, e),)
        if (ti, e) not in g.succ(si, d):
            return "edge %s is not a stored edge (with that value) in the searched direction" % ((s, t, e),)
        if not accepts(m, s, t, e):
            return "edge %s is rejected by the filter" % ((s, t, e),)
        cur = ti
    if cur != end_id:
        return "path does not end at the expected node"
    return None


def all_dfs_orders(g, root, d, m, limit=20000):
    """set of (pre tuple, post tuple) over all depth-first traversals (small graphs only)"""
    results = set()
    count = [0]

    def run(stack, visited, pre, post):
        # stack: list of nodes on the recursion stack
        if count[0] > limit:
            return
        if not stack:
            results.add((tuple(pre), tuple(post)))
            count[0] += 1
            return
        u = stack[-1]
        cands = []
        seen = set()
        for (v, e) in acc_succ(g, u, d, m):
            if v not in visited and v not in seen:
                seen.add(v)
                cands.append(v)
        if not cands:
            run(stack[:-1], visited, pre, post + [u])
        else:
            for v in cands:
                run(stack + [v], visited | {v}, pre + [v], post)

    run([root], {root}, [root], [])
    return results, count[0] > limit


def scc_ids(g, nodes, d, m):
    """component id per node of the accepted-edge graph restricted to `nodes` (iterative Tarjan)"""
    nodes = list(nodes)
    index, low, comp, onstack, stack = {}, {}, {}, set(), []
    counter = [0]
    ncomp = [0]
    succ = {u: [v for (v, e) in acc_succ(g, u, d, m)] for u in nodes}
    for r in nodes:
        if r in index:
            continue
        work = [(r, 0)]
        index[r] = low[r] = counter[0]; counter[0] += 1
        stack.append(r); onstack.add(r)
        while work:
            u, i = work[-1]
            if i < len(succ[u]):
                work[-1] = (u, i + 1)
                v = succ[u][i]
                if v not in succ:
                    continue
                if v not in index:
                    index[v] = low[v] = counter[0]; counter[0] += 1
                    stack.append(v); onstack.add(v)
                    work.append((v, 0))
                elif v in onstack:
                    low[u] = min(low[u], index[v])
            else:
                work.pop()
                if work:
                    p = work[-1][0]
                    low[p] = min(low[p], low[u])
                if low[u] == index[u]:
                    while True:
                        w = stack.pop(); onstack.discard(w)
                        comp[w] = ncomp[0]
                        if w == u:
                            break
                    ncomp[0] += 1
    return comp


def check_preorder_is_dfs(g, root, d, m, seq):
    """is `seq` the discovery order of SOME depth-first traversal of the accepted edges from root? (linear-ish simulation:
    the next node must be an undiscovered neighbour of the deepest node on the stack that still has one)"""
    succ = {}
    def nb(u):
        if u not in succ:
            succ[u] = [v for (v, e) in acc_succ(g, u, d, m)]
        return succ[u]
    seen = {root}
    stack = [root]
    for x in seq[1:]:
        while stack:
            top = stack[-1]
            fresh = [v for v in nb(top) if v not in seen]
            if not fresh:
                stack.pop()
                continue
            if x in fresh:
                break
            return "preorder discovers %d while %d, the deepest node with undiscovered neighbours, has the undiscovered neighbours %s: no depth-first traversal does that" % (
                g.keys[x], g.keys[top], sorted(g.keys[v] for v in fresh)[:5])
        if not stack:
            return "preorder discovers %d which no node on the depth-first stack leads to" % g.keys[x]
        seen.add(x)
        stack.append(x)
    return None


def check_srch(g, step, text, small=True):
    """decide the search properties on ONE implementation observation; None = fine"""
    t = step.split()
    algo, what, root, tr = t[1], t[2], int(t[3]), t[4] == "1"
    target = None if t[5] == "-" else int(t[5])
    m = parse_method(t, 6)
    d = "adj" if g.cls == "U" else ("in" if tr else "out")
    o = parse_obs(text)
    kr = g.keys[root]
    if o["kind"] == "panic":
        return "search panicked"
    if o["kind"] in ("fuel", "other"):
        return "unexpected observation %r" % text[:60]
    reach = reach_from(g, root, d, m)
    # --- results never contain rejected or non-existing edges
    if what in ("path", "find"):
        if target is None:
            if o["kind"] != "none":
                return "search without target returned a result"
        elif target != kr:
            tid = g.id_of.get(target)
            reachable = tid is not None and tid in reach
            if what == "find":
                if reachable != (o["kind"] == "node"):
                    return "target %d reachable=%s but search returned %s" % (target, reachable, o["kind"])
                if reachable and o["key"] != target:
                    return "search returned node %d instead of the target %d" % (o["key"], target)
            else:
                if reachable != (o["kind"] == "path"):
                    return "target %d reachable=%s but search_path returned %s" % (target, reachable, o["kind"])
                if reachable:
                    msg = check_chain(g, d, m, root, o["edges"], tid)
                    if msg:
                        return msg
                    if not o["edges"]:
                        return "empty path"
                    exp_nodes = [kr] + [b for (_, b, _) in o["edges"]]
                    if o["nodes"] != exp_nodes or o["len"] != len(o["edges"]) + 1:
                        return "path nodes/len disagree with its edges"
                    if o.get("first_node") is not None and o["first_node"] != kr:
                        return "Path::first_node() is %d, but the path starts at the root %d" % (o["first_node"], kr)
                    if o.get("last_node") is not None and o["last_node"] != target:
                        return "Path::last_node() is %d, but the path ends at the target %d" % (o["last_node"], target)
                    if algo == "bfs" and len(o["edges"]) != bfs_dist(g, root, d, m)[tid]:
                        return "breadth-first path has %d edges, a path with %d exists" % (len(o["edges"]), bfs_dist(g, root, d, m)[tid])
                    if algo == "dfs" and len(set(exp_nodes)) != len(exp_nodes):
                        return "depth-first path visits a node twice"
    elif what == "cycle":
        sc = shortest_cycle(g, root, d, m)
        if (sc is not None) != (o["kind"] == "path"):
            return "cycle through root exists=%s but search_cycle returned %s" % (sc is not None, o["kind"])
        if sc is not None:
            msg = check_chain(g, d, m, root, o["edges"], root)
            if msg:
                return msg
            if not o["edges"]:
                return "empty cycle"
            if o.get("first_node") is not None and o["first_node"] != kr:
                return "Path::first_node() of the cycle is %d, but it starts at the root %d" % (o["first_node"], kr)
            if g.cls == "D":
                if len(set(o["edges"])) != len(o["edges"]):
                    return "cycle uses an edge twice"
                inter = [b for (_, b, _) in o["edges"][:-1]]
                if len(set(inter)) != len(inter) or kr in inter:
                    return "cycle visits an intermediate node twice"
                if algo == "bfs" and len(o["edges"]) != sc:
                    return "breadth-first cycle has %d edges, one with %d exists" % (len(o["edges"]), sc)
    elif what in ("nodes", "edges"):
        post = (algo == "post")
        if what == "nodes":
            seq = [g.id_of.get(k) for k in o["nodes"]]
        else:
            for (s, tt, e) in o["edges"]:
                if s not in g.id_of or tt not in g.id_of or (g.id_of[tt], e) not in g.succ(g.id_of[s], d):
                    return "ordering edge %s is not a stored edge in the searched direction" % ((s, tt, e),)
                if not accepts(m, s, tt, e):
                    return "ordering edge %s is rejected by the filter" % ((s, tt, e),)
                if g.id_of[s] not in reach:
                    return "ordering edge %s leaves an unreachable node" % ((s, tt, e),)
            tg = [g.id_of[b] for (_, b, _) in o["edges"]]
            seq = (tg + [root]) if post else ([root] + tg)
        if None in seq:
            return "ordering mentions an unknown key"
        if sorted(seq) != sorted(reach):
            return "ordering is not exactly the reachable set once each: got %s, reachable %s" % (
                [g.keys[x] for x in seq], sorted(g.keys[x] for x in reach))
        if post and seq[-1] != root:
            return "postorder does not end with the root"
        if not post and seq[0] != root:
            return "preorder does not start with the root"
        if small and g.n <= 5:
            orders, trunc = all_dfs_orders(g, root, d, m)
            if not trunc:
                ok = any((pre == tuple(seq)) if not post else (pst == tuple(seq)) for (pre, pst) in orders)
                if not ok:
                    return "%s %s is not the %s order of any depth-first traversal" % (
                        algo, [g.keys[x] for x in seq], "finishing" if post else "discovery")
        else:
            if post:
                # for an edge u->v among the reachable nodes v precedes u unless u is reachable from v, i.e. (the edge
                # makes v reachable from u) unless both lie in one strongly connected component
                pos = {x: i for i, x in enumerate(seq)}
                comp = scc_ids(g, reach, d, m)
                for u in reach:
                    for (v, e) in acc_succ(g, u, d, m):
                        if pos[v] > pos[u] and comp[u] != comp[v]:
                            return "postorder lists %d before %d although %d->%d is an edge and %d is not reachable from %d" % (
                                g.keys[u], g.keys[v], g.keys[u], g.keys[v], g.keys[u], g.keys[v])
            else:
                msg = check_preorder_is_dfs(g, root, d, m, seq)
                if msg:
                    return msg
    # --- callbacks (C07): for_each without target sees every edge leaving a reachable node once
    if o["trace"] is not None:
        for (s, tt, e) in o["trace"]:
            if s not in g.id_of or tt not in g.id_of or (g.id_of[tt], e) not in g.succ(g.id_of[s], d):
                return "closure was handed %s which is not a stored edge in the searched direction" % ((s, tt, e),)
        if m is not None and m[0] == "each" and (target is None and what != "cycle"):
            want = sorted((g.keys[u], g.keys[v], e) for u in reach for (v, e) in g.succ(u, d))
            if sorted(o["trace"]) != want:
                return "for_each saw %d edges, %d edges leave reachable nodes (multisets differ)" % (len(o["trace"]), len(want))
    # --- priority order (C06)
    if algo in ("pmin", "pmax") and m is not None and m[0] == "each" and o["trace"] is not None:
        msg = check_priority(g, root, d, o["trace"], algo == "pmin", cycle=(what == "cycle"))
        if msg:
            return msg
    return None


def check_priority(g, root, d, trace, minmode, cycle=False):
    discovered = [] if cycle else [root]
    dset = set(discovered)
    expanded = set()
    cur = None
    for (s, t, e) in trace:
        si, ti = g.id_of[s], g.id_of[t]
        if si != cur:
            # starts expanding si
            if si in expanded:
                return "node %d is expanded twice (its edges are not contiguous in the trace)" % s
            frontier = [x for x in dset if x not in expanded and x != si and len(g.succ(x, d)) > 0]
            for x in frontier:
                if (minmode and g.vals[x] < g.vals[si]) or ((not minmode) and g.vals[x] > g.vals[si]):
                    return "expands node %d (value %d) while discovered node %d (value %d) is waiting" % (
                        s, g.vals[si], g.keys[x], g.vals[x])
            expanded.add(si)
            cur = si
            if cycle and si == root:
                dset.discard(root) if False else None
        if ti not in dset:
            dset.add(ti)
    return None


def check_cmp(g, step, text):
    t = step.split()
    a, b = int(t[1]), int(t[2])
    m = dict(re.findall(r"(\w+)=(\S+)", text))
    va, vb = g.vals[a], g.vals[b]
    want_eq = int(g.keys[a] == g.keys[b])
    name = "Less" if va < vb else ("Equal" if va == vb else "Greater")
    if m.get("eq") != str(want_eq):
        return "node equality is not equality of keys"
    if m.get("lt") != str(int(va < vb)) or m.get("le") != str(int(va <= vb)):
        return "node comparison does not order by value"
    if m.get("cmp") != name or m.get("pcmp") != "Some(%s)" % name:
        return "Ord/PartialOrd disagree with the order of the node values"
    if m.get("ne") != str(1 - want_eq):
        return "`!=` of nodes is not inequality of keys"
    if m.get("gt") != str(int(va > vb)) or m.get("ge") != str(int(va >= vb)):
        return "`>` / `>=` of nodes do not order by value"
    if m.get("max") != str(max(va, vb)) or m.get("min") != str(min(va, vb)):
        return "Ord::max / Ord::min of nodes do not pick by value"
    return None


def oracle_case(case, obs, small=True):
    if obs == "HANG":
        return "call never returns (hang)"
    g = None
    for (si, text) in obs:
        if si >= len(case.steps):
            break
        st = case.steps[si]
        if text.startswith("panic"):
            return "step %d `%s` panicked" % (si, st)
        if st == "nvord" and text != "ok":
            return "node value type whose PartialOrd is the reverse of its Ord (Nv): %s" % text[:300]
        if st.startswith("srch"):
            if g is None:
                g = graph_of_case(case)
            if " then " in st:
                # `srch .. then <op>`: first answer on the graph as built, second on the graph after <op> (or for the new target)
                st1, op = st.split(" then ", 1)
                if " THEN " not in text:
                    return "step %d `%s` -> `%s`: expected two answers" % (si, st, text[:120])
                first, second = text.split(" THEN ", 1)
                msg = check_srch(g, st1, first, small)
                if msg:
                    return "step %d `%s`: first run -> `%s`: %s" % (si, st, first[:120], msg)
                t_op = op.split()
                st2 = st1
                g2 = g
                if t_op[0] == "retarget":
                    toks = st1.split()
                    toks[5] = t_op[1]
                    st2 = " ".join(toks)
                else:
                    import mut_chan
                    ref = mut_chan.RefGraph(case.cls)
                    ref.keys = list(g.keys)
                    ref.edges = list(g.edges)
                    ref.apply(t_op)
                    g2 = G(case.cls, g.keys, g.vals, ref.edges)
                msg = check_srch(g2, st2, second, small)
                if msg:
                    return "step %d `%s`: second run of the same search object, after `%s` -> `%s`: %s" % (si, st, op, second[:120], msg)
                continue
            for mark, why in ((" A-REPLACED-CLOSURE-WAS-CALLED", "a closure that a later filter() / for_each() call replaced was still called: the closure in force is not the only one consulted"),
                              (" PATH.EDGES-OR-INDEXING-DIFFERS-FROM-TO_VEC_EDGES", "the public field Path::edges (or indexing) is not the edge sequence the accessors report"),
                              (" ITER_NODES-DIFFERS-FROM-TO_VEC_NODES", "Path::iter_nodes() does not yield the nodes of the path in order"),
                              (" SEARCH-AND-SEARCH_PATH-DISAGREE-ON-ONE-OBJECT", "search() and search_path() of one priority-first search object disagree about whether the target is reachable")):
                if mark in text:
                    return "step %d `%s`: %s" % (si, st, why)
            if " REUSED-OBJECT-ANSWERS " in text:
                # the same configured search object, run a second time, answered differently: decide both answers
                first, second = text.split(" REUSED-OBJECT-ANSWERS ", 1)
                for which, t2 in (("first", first), ("second", second)):
                    msg = check_srch(g, st, t2, small)
                    if msg:
                        return "step %d `%s`: %s run of the same search object -> `%s`: %s" % (si, st, which, t2[:120], msg)
                return "step %d `%s`: the same search object answered `%s` and then `%s` on an unchanged graph" % (si, st, first[:80], second[:80])
            msg = check_srch(g, st, text, small)
            if msg:
                return "step %d `%s` -> `%s`: %s" % (si, st, text[:120], msg)
        elif st.startswith("cmp"):
            if g is None:
                g = graph_of_case(case)
            msg = check_cmp(g, st, text)
            if msg:
                return "step %d `%s` -> `%s`: %s" % (si, st, text, msg)
    return None


# ----------------------------------------------------------------------------
# case construction
# ----------------------------------------------------------------------------
def subsets(xs):
    for r in range(len(xs) + 1):
        for c in itertools.combinations(xs, r):
            yield list(c)


def methods_for(g, level):
    """level 0: none+each; 1: + two salted filters; 2: + all subsets of rejected edges (oriented as iterated)"""
    ms = [None, ("each",)]
    if level >= 1:
        ms += [("filt", 1, 3), ("filt", 0, 2)]
    if level >= 2 and len(g.edges) <= 3:
        trip = []
        for (u, v, e) in g.edges:
            trip.append((g.keys[u], g.keys[v], e))
            if g.cls == "U" or True:
                trip.append((g.keys[v], g.keys[u], e))
        trip = sorted(set(trip))
        if len(trip) <= 6:
            for sub in subsets(trip):
                if sub:
                    ms.append(("rej", sub))
    return ms


def search_steps(g, algos, whats, level, transposes=(False, True), absent=77):
    steps = []
    trs = transposes if g.cls == "D" else (False,)
    ms = methods_for(g, level)
    for algo in algos:
        order = algo in ("pre", "post")
        for tr in trs:
            for root in range(g.n):
                for what in whats:
                    if order != (what in ("nodes", "edges")):
                        continue
                    if what in ("find", "path"):
                        targets = [g.keys[x] for x in range(g.n)] + [absent, None]
                    elif what == "cycle":
                        # search_cycle() looks for the ROOT whatever target() was configured before: the setting is overridden
                        targets = [None, g.keys[(root + 1) % g.n], absent]
                    else:
                        targets = [None]
                    for tg in targets:
                        for m in ms:
                            steps.append(srch(algo, what, root, tr, tg, m))
    return steps


def gen_cases(cls, rng, tier, algos, whats, level=1, n_small=3, m_small=3, nrandom=60, prefix="s", vals_variants=False,
              random_searches=40, maxn=40, maxe=120):
    cases = []
    idx = 0
    for g in all_graphs(cls, n_small, m_small):
        variants = [g]
        if vals_variants and g.n <= 3 and len(g.edges) <= 2:
            variants = [G(cls, g.keys, list(v), g.edges) for v in itertools.product(range(3), repeat=g.n)]
        for gg in variants:
            st = gg.steps() + search_steps(gg, algos, whats, level)
            cases.append(Case("%s%s%d" % (prefix, cls, idx), cls, st, dict(kind="small-graph", edges=len(gg.edges))))
            idx += 1
    for i in range(nrandom):
        g = random_graph(cls, rng, maxn=maxn, maxe=maxe, valrange=3 if vals_variants else 6)
        st = g.steps()
        for j in range(random_searches):
            algo = rng.choice(algos)
            order = algo in ("pre", "post")
            ws = [w for w in whats if order == (w in ("nodes", "edges"))]
            if not ws:
                continue
            what = rng.choice(ws)
            root = rng.randrange(g.n)
            tr = rng.random() < 0.5 and cls == "D"
            tg = None
            if what in ("find", "path") or (what == "cycle" and rng.random() < 0.3):
                tg = g.keys[rng.randrange(g.n)] if rng.random() < 0.9 else 777
            r = rng.random()
            m = None if r < 0.3 else ("each",) if r < 0.6 else ("filt", rng.randint(0, 5), rng.randint(2, 5))
            st.append(srch(algo, what, root, tr, tg, m))
        cases.append(Case("%sR%s%d" % (prefix, cls, i), cls, st, dict(kind="random-graph", nodes=g.n, edges=len(g.edges))))
    # one search object run twice with a change of the graph (or a new target) in between: hidden state of the object
    # (buffers, visited sets, memoised answers) must not leak from the first run into the second
    if nrandom:
        for i in range(nrandom * 4):
            g = random_graph(cls, rng, maxn=6, maxe=10)
            algo = rng.choice(algos)
            order = algo in ("pre", "post")
            ws = [w for w in whats if w in (("nodes", "edges") if order else (("path", "find") if algo in ("pmin", "pmax") else ("path",)))]
            if not ws:
                continue
            what = rng.choice(ws)
            root = rng.randrange(g.n)
            tr = rng.random() < 0.4 and cls == "D"
            tg = None if order else (g.keys[rng.randrange(g.n)] if rng.random() < 0.85 else 777)
            u, v = rng.randrange(g.n), rng.randrange(g.n)
            r = rng.random()
            if r < 0.45:
                op = "con %d %d %d" % (u, v, 900 + i)
            elif r < 0.7:
                op = "dis %d %d" % (u, g.keys[v])
            elif r < 0.8:
                op = "iso %d" % u
            elif r < 0.88 or order:
                op = "try %d %d %d" % (u, v, 900 + i)
            else:
                op = "retarget %d" % g.keys[rng.randrange(g.n)]
            # with or without a closure: a for_each / filter configured on the object must still be in force in the second run
            r2 = rng.random()
            m = None if r2 < 0.4 else ("each",) if r2 < 0.6 else ("filt", rng.randint(0, 5), rng.randint(2, 5))
            st = g.steps() + [srch(algo, what, root, tr, tg, m) + " then " + op]
            cases.append(Case("%sT%s%d" % (prefix, cls, i), cls, st, dict(kind="search-object-reused-after-change")))
    # large structured graphs: long chains, deep trees, wide fans, grids, rings with chords, dense random graphs
    if nrandom:
        for i in range(max(9, nrandom // 5)):
            g = large_graph(cls, rng, i)
            st = g.steps()
            far = [g.n - 1, g.n // 2, 0, rng.randrange(g.n)]
            for j in range(14):
                algo = rng.choice(algos)
                order = algo in ("pre", "post")
                ws = [w for w in whats if order == (w in ("nodes", "edges"))]
                if not ws:
                    continue
                what = rng.choice(ws)
                root = rng.choice([0, 0, g.n - 1, rng.randrange(g.n)])
                tr = rng.random() < 0.4 and cls == "D"
                tg = g.keys[rng.choice(far)] if what in ("find", "path") else None
                r = rng.random()
                m = None if r < 0.4 else ("each",) if r < 0.7 else ("filt", rng.randint(0, 5), rng.randint(3, 6))
                st.append(srch(algo, what, root, tr, tg, m))
            deep = g.n > 1000
            cases.append(Case(("deep%s%s%d" if deep else "%sL%s%d") % (prefix, cls, i), cls, st,
                              dict(kind="deep-graph-oracle-only" if deep else "large-graph", nodes=g.n, edges=len(g.edges), oracle_only=deep)))
    return cases


def large_graph(cls, rng, i):
    shape = ["chain", "tree", "fan", "grid", "ring", "dense", "deepring", "deepchain", "deeptail"][i % 9]
    edges = []
    if shape == "deeptail":
        # a long chain with branching only at the far end: siblings, cross and back edges two thousand levels down
        n = rng.randint(2200, 3000)
        m = n - 12
        edges = [(u, u + 1) for u in range(m)]
        tail = list(range(m, n))
        edges += [(m, v) for v in tail[1:4]] + [(rng.choice(tail), rng.choice(tail)) for _ in range(20)]
        edges += [(rng.choice(tail), rng.randrange(m)) for _ in range(3)]
    elif shape == "deepring":
        # recursion / queue depth in the thousands
        n = rng.randint(2200, 3200)
        edges = [(u, (u + 1) % n) for u in range(n)]
    elif shape == "deepchain":
        # a long branch explored first, then a short cut to its end and an edge back to the start
        n = rng.randint(2200, 3200)
        edges = [(u, u + 1) for u in range(n - 1)] + [(0, n - 1), (n - 1, 0)]
    elif shape == "chain":
        n = rng.randint(80, 160)
        edges = [(u, u + 1) for u in range(n - 1)] + [(rng.randrange(n), rng.randrange(n)) for _ in range(5)]
    elif shape == "tree":
        n = 127
        edges = [((v - 1) // 2, v) for v in range(1, n)] + [(rng.randrange(n), rng.randrange(n)) for _ in range(6)]
    elif shape == "fan":
        n = rng.randint(60, 120)
        edges = [(0, v) for v in range(1, n)] + [(v, 0) for v in range(1, n) if rng.random() < 0.3] + [(v, n - 1) for v in range(1, n - 1) if rng.random() < 0.5]
    elif shape == "grid":
        w = rng.randint(7, 10)
        n = w * w
        edges = [(r * w + c, r * w + c + 1) for r in range(w) for c in range(w - 1)] + [(r * w + c, (r + 1) * w + c) for r in range(w - 1) for c in range(w)]
    elif shape == "ring":
        n = rng.randint(60, 110)
        edges = [(u, (u + 1) % n) for u in range(n)] + [(rng.randrange(n), rng.randrange(n)) for _ in range(12)]
    else:
        n = rng.randint(100, 160)
        edges = [(rng.randrange(n), rng.randrange(n)) for _ in range(rng.randint(300, 600))]
    rng.shuffle(edges) if shape in ("dense", "fan") else None
    keys = rng.sample(range(1, 5000), n)
    vals = [rng.randint(0, 9) for _ in range(n)]
    return G(cls, keys, vals, [(u, v, 100 + j) for j, (u, v) in enumerate(edges)])
