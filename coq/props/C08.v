(* C08 — transpose() searches the edge-reversed graph.
   Model: coq/model/Search.v. transpose() is the direction DIn (walk ins h u, a stored edge w->u is handed out as
   Edge(u, w, e)); no transpose is DOut. rev_heap swaps the two adjacency tables. The machines read the heap only
   through the node table and adj_of h d (HeapSim), so a transposed run on h IS the plain run on rev_heap h — same
   result, same recorded edges, same closure trace — for every kind {bfs, dfs, pfs-min, pfs-max}, every entry point
   {search, search_path, search_cycle, search_nodes, search_edges}, every target and every pure callback (CbAgree;
   mk_cb_agree: the harness's filters/recorders qualify). Without transpose() the result does not depend on `ins`. *)
From Gdsl.Model Require Import Spec Callback.
From Gdsl.Proofs Require Import Transpose.

(* the machines depend on the heap only through nodes and the adjacency function of the chosen direction: same status, tree, visited set and callback state *)
Theorem c08_simulation :
  forall (K V E : Type) (keqb : K -> K -> bool) (CB : Type)
         (cb : CB -> heap K V E -> edge E -> CB * heap K V E * bool) (vleb : V -> V -> bool) 
         (d d' : dir) (h h' : heap K V E) (k : kind) (fuel : nat) (c : CB) (root : nat) 
         (target : option K) (cyc : bool),
       HeapSim d d' h h' ->
       CbAgree cb h h' ->
       obs (fst (run_search keqb cb vleb k d fuel h c root target cyc)) =
       obs (fst (run_search keqb cb vleb k d' fuel h' c root target cyc)) /\
       snd (run_search keqb cb vleb k d fuel h c root target cyc) =
       snd (run_search keqb cb vleb k d' fuel h' c root target cyc).
Proof. exact run_search_sim. Qed.
Print Assumptions c08_simulation.

(* DIn on h looks exactly like DOut on the reversed heap (and vice versa) *)
Theorem c08_transpose_is_reverse :
  forall (K V E : Type) (h : heap K V E),
       HeapSim DIn DOut h (rev_heap h) /\ HeapSim DOut DIn h (rev_heap h).
Proof. exact transpose_is_reverse. Qed.
Print Assumptions c08_transpose_is_reverse.

(* search_path / search_cycle with transpose() = the same call on the reversed graph *)
Theorem c08_transposed_search_path :
  forall (K V E : Type) (keqb : K -> K -> bool) (CB : Type)
         (cb : CB -> heap K V E -> edge E -> CB * heap K V E * bool) (vleb : V -> V -> bool) 
         (h : heap K V E) (k : kind) (fuel : nat) (c : CB) (root : nat) (target : option K) 
         (cyc : bool),
       CbAgree cb h (rev_heap h) ->
       snd (search_path keqb cb vleb k DIn fuel h c root target cyc) =
       snd (search_path keqb cb vleb k DOut fuel (rev_heap h) c root target cyc).
Proof. exact transposed_search_path. Qed.
Print Assumptions c08_transposed_search_path.

(* search with transpose() = search on the reversed graph *)
Theorem c08_transposed_search :
  forall (K V E : Type) (keqb : K -> K -> bool) (CB : Type)
         (cb : CB -> heap K V E -> edge E -> CB * heap K V E * bool) (vleb : V -> V -> bool) 
         (h : heap K V E) (k : kind) (fuel : nat) (c : CB) (root : nat) (target : option K),
       CbAgree cb h (rev_heap h) ->
       snd (search_find keqb cb vleb k DIn fuel h c root target) =
       snd (search_find keqb cb vleb k DOut fuel (rev_heap h) c root target).
Proof. exact transposed_search_find. Qed.
Print Assumptions c08_transposed_search.

(* preorder/postorder search_edges with transpose() *)
Theorem c08_transposed_order_edges :
  forall (K V E : Type) (keqb : K -> K -> bool) (CB : Type)
         (cb : CB -> heap K V E -> edge E -> CB * heap K V E * bool) (h : heap K V E) 
         (post : bool) (fuel : nat) (c : CB) (root : nat),
       CbAgree cb h (rev_heap h) ->
       snd (order_edges keqb cb DIn post fuel h c root) =
       snd (order_edges keqb cb DOut post fuel (rev_heap h) c root).
Proof. exact transposed_order_edges. Qed.
Print Assumptions c08_transposed_order_edges.

(* preorder/postorder search_nodes with transpose() *)
Theorem c08_transposed_order_nodes :
  forall (K V E : Type) (keqb : K -> K -> bool) (CB : Type)
         (cb : CB -> heap K V E -> edge E -> CB * heap K V E * bool) (h : heap K V E) 
         (post : bool) (fuel : nat) (c : CB) (root : nat),
       CbAgree cb h (rev_heap h) ->
       snd (order_nodes keqb cb DIn post fuel h c root) =
       snd (order_nodes keqb cb DOut post fuel (rev_heap h) c root).
Proof. exact transposed_order_nodes. Qed.
Print Assumptions c08_transposed_order_nodes.

(* without transpose() no incoming edge is ever followed: the result is a function of nodes and outs alone *)
Theorem c08_untransposed_ignores_ins :
  forall (K V E : Type) (keqb : K -> K -> bool) (CB : Type)
         (cb : CB -> heap K V E -> edge E -> CB * heap K V E * bool) (vleb : V -> V -> bool)
         (h h' : heap K V E) (k : kind) (fuel : nat) (c : CB) (root : nat) (target : option K) 
         (cyc : bool),
       nodes h = nodes h' ->
       (forall u : nat, outs h u = outs h' u) ->
       CbAgree cb h h' ->
       snd (search_path keqb cb vleb k DOut fuel h c root target cyc) =
       snd (search_path keqb cb vleb k DOut fuel h' c root target cyc).
Proof. exact untransposed_search_path. Qed.
Print Assumptions c08_untransposed_ignores_ins.

(* same for search() *)
Theorem c08_untransposed_search :
  forall (K V E : Type) (keqb : K -> K -> bool) (CB : Type)
         (cb : CB -> heap K V E -> edge E -> CB * heap K V E * bool) (vleb : V -> V -> bool)
         (h h' : heap K V E) (k : kind) (fuel : nat) (c : CB) (root : nat) (target : option K),
       nodes h = nodes h' ->
       (forall u : nat, outs h u = outs h' u) ->
       CbAgree cb h h' ->
       snd (search_find keqb cb vleb k DOut fuel h c root target) =
       snd (search_find keqb cb vleb k DOut fuel h' c root target).
Proof. exact untransposed_search_find. Qed.
Print Assumptions c08_untransposed_search.

(* orderings depend only on nodes and the chosen adjacency (covers the untransposed orderings) *)
Theorem c08_order_sim :
  forall (K V E : Type) (keqb : K -> K -> bool) (CB : Type)
         (cb : CB -> heap K V E -> edge E -> CB * heap K V E * bool) (d d' : dir) 
         (h h' : heap K V E) (post : bool) (fuel : nat) (c : CB) (root : nat),
       HeapSim d d' h h' ->
       CbAgree cb h h' ->
       (obs (fst (order_edges keqb cb d post fuel h c root)) =
        obs (fst (order_edges keqb cb d' post fuel h' c root)) /\
        snd (order_edges keqb cb d post fuel h c root) = snd (order_edges keqb cb d' post fuel h' c root)) /\
       obs (fst (order_nodes keqb cb d post fuel h c root)) =
       obs (fst (order_nodes keqb cb d' post fuel h' c root)) /\
       snd (order_nodes keqb cb d post fuel h c root) = snd (order_nodes keqb cb d' post fuel h' c root).
Proof. exact order_sim. Qed.
Print Assumptions c08_order_sim.

(* the ForEach recorder and the pure Filter callbacks used by the correspondence satisfy the callback hypothesis *)
Theorem c08_recorder_filter_callbacks_agree :
  forall (K V E : Type) (step : heap K V E -> op K V E -> heap K V E * outcome E) 
         (is_filter : bool) (pred : K -> K -> E -> bool) (h h' : heap K V E),
       nodes h = nodes h' -> CbAgree (mk_cb step is_filter pred []) h h'.
Proof. exact mk_cb_agree. Qed.
Print Assumptions c08_recorder_filter_callbacks_agree.


Example c08_nonvacuous :
  let ops : list (op nat nat nat) := [ONew 0 0; ONew 1 0; ONew 2 0; OConnect 0 1 10; OConnect 1 2 11; OConnect 2 2 12] in
  let h := fst (run_d Nat.eqb ops) in
  let cb := (fun (c : unit) (h' : heap nat nat nat) (_ : edge nat) => (c, h', true)) in
  snd (search_path Nat.eqb cb Nat.leb KDfs DIn 100 h tt 2 (Some 0) false) = RPath [(2, 1, 11); (1, 0, 10)] /\
  snd (search_path Nat.eqb cb Nat.leb KDfs DOut 100 (rev_heap h) tt 2 (Some 0) false) = RPath [(2, 1, 11); (1, 0, 10)] /\
  snd (search_path Nat.eqb cb Nat.leb KDfs DOut 100 h tt 2 (Some 0) false) = RNone nat.
Proof. vm_compute. auto. Qed.
