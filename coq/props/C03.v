(* C03 — Edge operations implement the multigraph contract (all four flavours: the model has one
   definition per flavour CLASS; plain/sync equality is C15's correspondence).
   Every statement is for an arbitrary heap satisfying Inv and arbitrary operands, u = v included. *)
From Gdsl.Model Require Import Spec.
From Gdsl.Proofs Require Import NodeD NodeU ConcProof.
From Gdsl.Model Require Import Conc.

(* connect: exactly one new edge, last among the source's outgoing and the target's incoming edges
   (for undirected: last outbound half at the caller, last inbound half at the callee); nothing else changes *)
Theorem c03_connect :
  forall (K V E : Type) (h : heap K V E) (u v : nat) (e : E),
    nodes (connect h u v e) = nodes h /\
    outs (connect h u v e) u = outs h u ++ [(v, e)] /\
    ins (connect h u v e) v = ins h v ++ [(u, e)] /\
    (forall w : nat, w <> u -> outs (connect h u v e) w = outs h w) /\
    (forall w : nat, w <> v -> ins (connect h u v e) w = ins h w).
Proof. exact connect_spec. Qed.
Print Assumptions c03_connect.

Theorem c03_connect_inv :
  forall (K V E : Type) (h : heap K V E) (u v : nat) (e : E),
    Inv h -> u < size h -> v < size h -> Inv (connect h u v e).
Proof. exact connect_inv. Qed.
Print Assumptions c03_connect_inv.

(* try_connect: as connect iff the caller has no edge to the other node yet, else EdgeAlreadyExists and nothing changes *)
Theorem c03_try_connect_directed :
  forall (K V E : Type) (keqb : K -> K -> bool), KeqbSpec keqb ->
  forall (h : heap K V E) (u v : nat) (e : E), Inv h -> u < size h -> v < size h ->
    (exists e' : E, In (v, e') (outs h u)) /\ try_connect_d keqb h u v e = (h, ErrExists) \/
    (forall e' : E, ~ In (v, e') (outs h u)) /\ try_connect_d keqb h u v e = (connect h u v e, OkU).
Proof. exact try_connect_d_spec. Qed.
Print Assumptions c03_try_connect_directed.

Theorem c03_try_connect_undirected :
  forall (K V E : Type) (keqb : K -> K -> bool), KeqbSpec keqb ->
  forall (h : heap K V E) (u v : nat) (e : E), Inv h -> u < size h -> v < size h ->
    (exists e' : E, In (v, e') (adj_u h u)) /\ try_connect_u keqb h u v e = (h, ErrExists) \/
    (forall e' : E, ~ In (v, e') (adj_u h u)) /\ try_connect_u keqb h u v e = (connect h u v e, OkU).
Proof. exact try_connect_u_spec. Qed.
Print Assumptions c03_try_connect_undirected.

(* disconnect: EdgeNotFound and nothing changes, or exactly one edge between the pair is removed at
   both endpoints, its value is returned, every remaining sequence keeps its order *)
Theorem c03_disconnect_directed :
  forall (K V E : Type) (keqb : K -> K -> bool), KeqbSpec keqb ->
  forall (h : heap K V E) (u : nat) (k : K), Inv h -> u < size h ->
    (forall (v : nat) (e : E), In (v, e) (outs h u) -> keyof h v <> Some k) /\
    disconnect_d keqb h u k = (h, ErrNotFound) \/
    (exists (v : nat) (e : E) (l1 l2 m1 m2 : list (nat * E)) (h' : heap K V E),
        keyof h v = Some k /\
        outs h u = l1 ++ (v, e) :: l2 /\ (forall x : nat * E, In x l1 -> fst x <> v) /\
        ins h v = m1 ++ (u, e) :: m2 /\ (forall x : nat * E, In x m1 -> fst x <> u) /\
        disconnect_d keqb h u k = (h', OkE e) /\
        nodes h' = nodes h /\ outs h' u = l1 ++ l2 /\ ins h' v = m1 ++ m2 /\
        (forall w : nat, w <> u -> outs h' w = outs h w) /\
        (forall w : nat, w <> v -> ins h' w = ins h w) /\ Inv h').
Proof. exact disconnect_d_spec. Qed.
Print Assumptions c03_disconnect_directed.

Theorem c03_disconnect_undirected :
  forall (K V E : Type) (keqb : K -> K -> bool), KeqbSpec keqb ->
  forall (h : heap K V E) (u : nat) (k : K), Inv h -> u < size h ->
    (forall (v : nat) (e : E), In (v, e) (adj_u h u) -> keyof h v <> Some k) /\
    disconnect_u keqb h u k = (h, ErrNotFound) \/
    (exists (v : nat) (e : E) (h' : heap K V E),
        keyof h v = Some k /\ disconnect_u keqb h u k = (h', OkE e) /\ nodes h' = nodes h /\ Inv h' /\
        ((exists l1 l2 m1 m2 : list (nat * E),
            ins h u = l1 ++ (v, e) :: l2 /\ (forall x : nat * E, In x l1 -> fst x <> v) /\
            outs h v = m1 ++ (u, e) :: m2 /\ (forall x : nat * E, In x m1 -> fst x <> u) /\
            ins h' u = l1 ++ l2 /\ outs h' v = m1 ++ m2 /\
            (forall w : nat, w <> u -> ins h' w = ins h w) /\
            (forall w : nat, w <> v -> outs h' w = outs h w)) \/
         (forall x : nat * E, In x (ins h u) -> fst x <> v) /\
         (exists l1 l2 m1 m2 : list (nat * E),
            outs h u = l1 ++ (v, e) :: l2 /\ (forall x : nat * E, In x l1 -> fst x <> v) /\
            ins h v = m1 ++ (u, e) :: m2 /\ (forall x : nat * E, In x m1 -> fst x <> u) /\
            outs h' u = l1 ++ l2 /\ ins h' v = m1 ++ m2 /\
            (forall w : nat, w <> u -> outs h' w = outs h w) /\
            (forall w : nat, w <> v -> ins h' w = ins h w)))).
Proof. exact disconnect_u_spec. Qed.
Print Assumptions c03_disconnect_undirected.

(* isolate: never panics, terminates within the fuel the model gives it (S (list length)), and removes
   exactly the edges incident to the node: every list becomes the old list without entries at u *)
Theorem c03_isolate_directed :
  forall (K V E : Type) (keqb : K -> K -> bool), KeqbSpec keqb ->
  forall (h : heap K V E) (u : nat), Inv h -> u < size h ->
    exists h' : heap K V E,
      isolate_d keqb h u = (h', OkU) /\ nodes h' = nodes h /\
      (forall w : nat, outs h' w = (if Nat.eqb w u then [] else filter (fun p : nat * E => negb (Nat.eqb (fst p) u)) (outs h w))) /\
      (forall w : nat, ins h' w = (if Nat.eqb w u then [] else filter (fun p : nat * E => negb (Nat.eqb (fst p) u)) (ins h w))) /\
      Inv h'.
Proof. exact isolate_d_spec. Qed.
Print Assumptions c03_isolate_directed.

Theorem c03_isolate_undirected :
  forall (K V E : Type) (keqb : K -> K -> bool), KeqbSpec keqb ->
  forall (h : heap K V E) (u : nat), Inv h -> u < size h ->
    exists h' : heap K V E,
      isolate_u keqb h u = (h', OkU) /\ nodes h' = nodes h /\
      (forall w : nat, outs h' w = (if Nat.eqb w u then [] else filter (fun p : nat * E => negb (Nat.eqb (fst p) u)) (outs h w))) /\
      (forall w : nat, ins h' w = (if Nat.eqb w u then [] else filter (fun p : nat * E => negb (Nat.eqb (fst p) u)) (ins h w))) /\
      Inv h'.
Proof. exact isolate_u_spec. Qed.
Print Assumptions c03_isolate_undirected.

(* no call panics on live nodes, and each keeps the invariant (so the contract composes over histories) *)
Theorem c03_step_directed :
  forall (K V E : Type) (keqb : K -> K -> bool), KeqbSpec keqb ->
  forall (h : heap K V E) (o : op K V E), Inv h ->
    (forall (k : K) (x : V), o = ONew k x -> forall w : nat, keyof h w <> Some k) ->
    Inv (fst (step_d keqb h o)) /\ snd (step_d keqb h o) <> Panic.
Proof. exact step_d_inv. Qed.
Print Assumptions c03_step_directed.

Theorem c03_step_undirected :
  forall (K V E : Type) (keqb : K -> K -> bool), KeqbSpec keqb ->
  forall (h : heap K V E) (o : op K V E), Inv h ->
    (forall (k : K) (x : V), o = ONew k x -> forall w : nat, keyof h w <> Some k) ->
    Inv (fst (step_u keqb h o)) /\ snd (step_u keqb h o) <> Panic.
Proof. exact step_u_inv. Qed.
Print Assumptions c03_step_undirected.

(* "No such call ... deadlocks or hangs": the micro-step model of the SYNC flavours (coq/model/Conc.v: every call is its
   sequence of critical sections, each holding ONE guard on ONE node; that no guard of the thread is alive when the next
   one is requested is what the lock-point hook checks on the real code at every acquisition, section 3.3).  For programs
   of any number of threads — one thread included — and any heap (self-loops u = v included): a thread never holds two
   guards, and no reachable configuration is deadlocked, so a call never waits for a guard its own thread holds.
   (The plain flavours follow the same statement order with RefCell borrows; their agreement with the sync twins is C15.) *)
Theorem c03_one_guard_at_a_time :
  forall (K V E : Type) (keqb : K -> K -> bool) (directed : bool) (h : heap K V E)
         (progs : list (list (call K E))) (c : gconfig K V E),
       greach keqb directed (ginit keqb directed h progs) c ->
       (forall tid : nat, length (filter (fun g : guard => g_tid g =? tid) (gc_held c)) <= 1) /\
       (forall g : guard,
        In g (gc_held c) ->
        exists (t : thread K V E) (u : nat) (w : bool) (k : heap K V E -> heap K V E * prog K V E),
          nth_error (c_threads (gc_cfg c)) (g_tid g) = Some t /\
          t_status t = TRun /\ t_cur t = Some (Step u w k) /\ g_node g = u /\ g_write g = w).
Proof. exact one_guard_per_thread. Qed.
Print Assumptions c03_one_guard_at_a_time.

Theorem c03_no_self_deadlock :
  forall (K V E : Type) (keqb : K -> K -> bool) (directed : bool) (h : heap K V E)
         (progs : list (list (call K E))) (c : gconfig K V E),
       greach keqb directed (ginit keqb directed h progs) c -> ~ deadlocked keqb directed c.
Proof. exact no_deadlock. Qed.
Print Assumptions c03_no_self_deadlock.
