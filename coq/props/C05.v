(* C05 — Depth-first search finds a valid simple path iff one exists.
   Model: coq/model/Search.v (`descend` with post = false, entry points search_path / search_find with kind KDfs,
   any direction d: DOut (plain), DIn (transpose()), DAdj (undirected)). `accept` is an arbitrary pure filter;
   PureCb covers Method::Empty, ForEach(recorder) and Filter(pure f). Statements copied from `Check` of the lemmas. *)
From Gdsl.Model Require Import Spec Callback SearchFind.
From Gdsl.Proofs Require Import Descend SearchFindProof.

(* a returned path starts at the root, ends at the node carrying the target key, consists of accepted stored edges joined end to start, and visits no node twice *)
Theorem c05_path_sound :
  forall (K V E : Type) (keqb : K -> K -> bool),
       KeqbSpec keqb ->
       forall (CB : Type) (cb : CB -> heap K V E -> edge E -> CB * heap K V E * bool)
         (accept : edge E -> bool) (vleb : V -> V -> bool) (h : heap K V E),
       Wf h ->
       KeysInj h ->
       PureCb h cb accept ->
       forall (d : dir) (root : nat),
       root < size h ->
       forall (c0 : CB) (fuel : nat) (t : K) (st : sst K V E CB) (p : list (edge E)),
       keyof h root <> Some t ->
       search_path keqb cb vleb KDfs d fuel h c0 root (Some t) false = (st, RPath p) ->
       exists v : nat,
         keyof h v = Some t /\
         IsPath h d accept root p v /\
         p <> [] /\ NoDup (map (edst (E:=E)) p) /\ ~ In root (map (edst (E:=E)) p).
Proof. exact dfs_path_sound. Qed.
Print Assumptions c05_path_sound.

(* None is returned only if no node with the target key is reachable through accepted edges *)
Theorem c05_path_complete :
  forall (K V E : Type) (keqb : K -> K -> bool),
       KeqbSpec keqb ->
       forall (CB : Type) (cb : CB -> heap K V E -> edge E -> CB * heap K V E * bool)
         (accept : edge E -> bool) (vleb : V -> V -> bool) (h : heap K V E),
       Wf h ->
       KeysInj h ->
       PureCb h cb accept ->
       forall (d : dir) (root : nat),
       root < size h ->
       forall (c0 : CB) (fuel : nat) (t : K) (st : sst K V E CB),
       keyof h root <> Some t ->
       search_path keqb cb vleb KDfs d fuel h c0 root (Some t) false = (st, RNone E) ->
       forall v : nat, keyof h v = Some t -> ~ Reach h d accept root v.
Proof. exact dfs_path_complete. Qed.
Print Assumptions c05_path_complete.

(* search() — the SEPARATELY transcribed find loops of the code (model/SearchFind.v: loop_*_find / recurse_*_find; for pfs `search_path().map(last_node)`) — returns the target node exactly when search_path() returns a path, and that node is where the path ends *)
Theorem c05_search_agrees :
  forall (K V E : Type) (keqb : K -> K -> bool),
       KeqbSpec keqb ->
       forall (CB : Type) (cb : CB -> heap K V E -> edge E -> CB * heap K V E * bool)
         (accept : edge E -> bool) (vleb : V -> V -> bool) (h : heap K V E),
       Wf h ->
       KeysInj h ->
       PureCb h cb accept ->
       forall (d : dir) (root : nat),
       root < size h ->
       forall (c0 : CB) (fuel : nat) (t : K),
       keyof h root <> Some t ->
       match snd (search_path keqb cb vleb KDfs d fuel h c0 root (Some t) false) with
       | RNone _ => snd (search_find' keqb cb vleb KDfs d fuel h c0 root (Some t)) = RNone E
       | RPath p =>
           exists (v : nat) (p0 : list (edge E)) (w : edge E),
             snd (search_find' keqb cb vleb KDfs d fuel h c0 root (Some t)) = RNode E v /\
             p = p0 ++ [w] /\ edst w = v /\ keyof h v = Some t
       | RFuel _ => snd (search_find' keqb cb vleb KDfs d fuel h c0 root (Some t)) = RFuel E
       | _ => False
       end.
Proof. exact search_find'_agrees_dfs. Qed.
Print Assumptions c05_search_agrees.

(* for EVERY callback (no purity needed), heap, root, target and fuel: the find machine ends with the same verdict, the same heap, the same callback state (hence the same closure trace) and the same visited set as the path machine *)
Theorem c05_find_loops_simulate_path_loops :
  forall (K V E : Type) (keqb : K -> K -> bool) (CB : Type)
         (cb : CB -> heap K V E -> edge E -> CB * heap K V E * bool) (vleb : V -> V -> bool) 
         (k : kind) (d : dir) (fuel : nat) (h : heap K V E) (c : CB) (root : nat) 
         (target : option K),
       let x := search_find' keqb cb vleb k d fuel h c root target in
       let y := run_search keqb cb vleb k d fuel h c root target false in
       snd x = res_of_status E (snd y) /\
       s_heap (fst x) = s_heap (fst y) /\ s_cb (fst x) = s_cb (fst y) /\ s_vis (fst x) = s_vis (fst y).
Proof. exact find_machine_agrees. Qed.
Print Assumptions c05_find_loops_simulate_path_loops.

(* with fuel >= fuel_bound the machines never run out of fuel: the out-of-fuel outcome excluded above cannot occur *)
Theorem c05_terminates :
  forall (K V E : Type) (keqb : K -> K -> bool),
       KeqbSpec keqb ->
       forall (CB : Type) (cb : CB -> heap K V E -> edge E -> CB * heap K V E * bool)
         (accept : edge E -> bool) (vleb : V -> V -> bool) (h : heap K V E),
       Wf h ->
       KeysInj h ->
       PureCb h cb accept ->
       forall (d : dir) (root : nat),
       root < size h ->
       forall (c0 : CB) (fuel : nat) (t : option K) (cyc post : bool),
       fuel_bound h <= fuel ->
       snd (search_path keqb cb vleb KDfs d fuel h c0 root t cyc) <> RFuel E /\
       snd (search_find keqb cb vleb KDfs d fuel h c0 root t) <> RFuel E /\
       snd (order_edges keqb cb d post fuel h c0 root) <> None /\
       snd (order_nodes keqb cb d post fuel h c0 root) <> None.
Proof. exact dfs_terminates. Qed.
Print Assumptions c05_terminates.

(* backtracking never hits the unwrap() on an empty tree *)
Theorem c05_no_panic :
  forall (K V E : Type) (keqb : K -> K -> bool),
       KeqbSpec keqb ->
       forall (CB : Type) (cb : CB -> heap K V E -> edge E -> CB * heap K V E * bool)
         (accept : edge E -> bool) (vleb : V -> V -> bool) (h : heap K V E),
       Wf h ->
       KeysInj h ->
       PureCb h cb accept ->
       forall (d : dir) (root : nat),
       root < size h ->
       forall (c0 : CB) (fuel : nat) (t : option K) (cyc : bool),
       snd (search_path keqb cb vleb KDfs d fuel h c0 root t cyc) <> RPanic E.
Proof. exact dfs_no_panic. Qed.
Print Assumptions c05_no_panic.


(* non-vacuity: a concrete graph 0->1, 0->0, 0->2, 1->3, 2->3, 2->0 ; dfs path from 0 to key 3 *)
Example c05_nonvacuous :
  let ops : list (op nat nat nat) :=
    [ONew 0 0; ONew 1 0; ONew 2 0; ONew 3 0; OConnect 0 1 10; OConnect 0 0 11; OConnect 0 2 12; OConnect 1 3 13; OConnect 2 3 14; OConnect 2 0 15] in
  let h := fst (run_d Nat.eqb ops) in
  snd (search_path Nat.eqb (fun (c : unit) h' (_ : edge nat) => (c, h', true)) Nat.leb KDfs DOut 100 h tt 0 (Some 3) false)
  = RPath [(0, 1, 10); (1, 3, 13)].
Proof. vm_compute. reflexivity. Qed.
