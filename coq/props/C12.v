(* C12 — Serialisation round-trips to an identical graph.
   Model: coq/model/Serde.v: `decompose h g order` is graph_serde_decompose (members in the container's observed order; per
   member the edges it lists first: outgoing (directed) / the half-edges it created (undirected, after the D13 repair));
   `rebuild` is the Deserialize visitor. The wire codecs (serde_json, serde_cbor) are outside the model: documents are the
   (nodes, edges) lists. Hypotheses: Inv h, GraphOK, any iteration order, and closure of the container under the edges it writes: directed —
   ClosedOut, every OUT-neighbour of a member is a member (incoming edges from non-members are not part of what the property
   compares and do not matter); undirected — Closed, both half-lists. Without closure the document names an undeclared key and
   rebuild returns an error (C13), or an incident edge has no second endpoint to return to: the known finding of C12. *)
From Gdsl.Model Require Import Spec Serde.
From Gdsl.Proofs Require Import SerdeProof.

(* directed: same keys, same node values, and for every node the same outgoing edges (target key, value) in the same order; the result satisfies the mirror invariant *)
Theorem c12_roundtrip_directed :
  forall (K V E : Type) (keqb : K -> K -> bool),
       KeqbSpec keqb ->
       forall (h : heap K V E) (g : graph K) (order : list K),
       Inv h ->
       GraphOK h g ->
       ClosedOut h g ->
       OrderOK g order ->
       exists (h' : heap K V E) (g' : graph K),
         rebuild keqb (fst (decompose keqb h g order)) (snd (decompose keqb h g order)) = DeOk h' g' /\
         Inv h' /\
         GraphOK h' g' /\
         (forall k : K, g_contains keqb g' k = g_contains keqb g k) /\
         (forall (k : K) (u u' : nat),
          g_get keqb g k = Some u ->
          g_get keqb g' k = Some u' ->
          valof h' u' = valof h u /\
          map (fun p : nat * E => (keyof h' (fst p), snd p)) (outs h' u') =
          map (fun p : nat * E => (keyof h (fst p), snd p)) (outs h u)).
Proof. exact roundtrip_directed. Qed.
Print Assumptions c12_roundtrip_directed.

(* undirected: same keys and values, and for every node the same multiset (Permutation) of incident half-edges with values *)
Theorem c12_roundtrip_undirected :
  forall (K V E : Type) (keqb : K -> K -> bool),
       KeqbSpec keqb ->
       forall (h : heap K V E) (g : graph K) (order : list K),
       Inv h ->
       GraphOK h g ->
       Closed h g ->
       OrderOK g order ->
       exists (h' : heap K V E) (g' : graph K),
         rebuild keqb (fst (decompose keqb h g order)) (snd (decompose keqb h g order)) = DeOk h' g' /\
         Inv h' /\
         GraphOK h' g' /\
         (forall k : K, g_contains keqb g' k = g_contains keqb g k) /\
         (forall (k : K) (u u' : nat),
          g_get keqb g k = Some u ->
          g_get keqb g' k = Some u' ->
          valof h' u' = valof h u /\
          Permutation (map (fun p : nat * E => (keyof h' (fst p), snd p)) (outs h' u' ++ ins h' u'))
            (map (fun p : nat * E => (keyof h (fst p), snd p)) (outs h u ++ ins h u))).
Proof. exact roundtrip_undirected. Qed.
Print Assumptions c12_roundtrip_undirected.

