(* C18 — Graph containers behave as key-to-node maps with faithful views.
   Model: coq/model/Container.v: the container is an association list key -> allocation id (g_get is the lookup); its
   hash-map iteration order is an external input `order` (any permutation of the bound keys, OrderOK). Node identity is
   the allocation id, so "hands out the inserted nodes themselves" is: lookups return the id that was inserted. The same
   definitions serve the four flavours (directed := true/false only selects what `for edge in node` iterates). *)
From Gdsl.Model Require Import Spec Container.
From Gdsl.Proofs Require Import ContainerProof.

(* get/index/contains are lookups in the binding list *)
Theorem c18_lookup :
  forall (K V E : Type) (keqb : K -> K -> bool),
       KeqbSpec keqb ->
       forall (h : heap K V E) (g : graph K) (k : K) (u : nat),
       GraphOK h g -> g_get keqb g k = Some u <-> In (k, u) g.
Proof. exact g_get_in. Qed.
Print Assumptions c18_lookup.

(* contains(k) iff k is bound *)
Theorem c18_contains :
  forall (K : Type) (keqb : K -> K -> bool),
       KeqbSpec keqb -> forall (g : graph K) (k : K), g_contains keqb g k = true <-> In k (map fst g).
Proof. exact g_contains_spec. Qed.
Print Assumptions c18_contains.

(* insert: false and nothing changes when the key is present (the original stays); otherwise the node itself is bound to its key and every other binding is unchanged *)
Theorem c18_insert :
  forall (K V E : Type) (keqb : K -> K -> bool),
       KeqbSpec keqb ->
       forall (h : heap K V E) (g : graph K) (u : nat) (k : K),
       GraphOK h g ->
       u < size h ->
       keyof h u = Some k ->
       g_contains keqb g k = true /\ g_insert keqb h g u = (g, false) \/
       g_contains keqb g k = false /\
       g_insert keqb h g u = (g ++ [(k, u)], true) /\
       GraphOK h (g ++ [(k, u)]) /\
       g_get keqb (g ++ [(k, u)]) k = Some u /\
       (forall k' : K, k' <> k -> g_get keqb (g ++ [(k, u)]) k' = g_get keqb g k').
Proof. exact g_insert_spec. Qed.
Print Assumptions c18_insert.

(* remove returns the bound node (or None), unbinds exactly that key, len decreases accordingly *)
Theorem c18_remove :
  forall (K V E : Type) (keqb : K -> K -> bool),
       KeqbSpec keqb ->
       forall (h : heap K V E) (g : graph K) (k : K) (g' : graph K) (r : option nat),
       GraphOK h g ->
       g_remove keqb g k = (g', r) ->
       r = g_get keqb g k /\
       GraphOK h g' /\
       g_get keqb g' k = None /\
       (forall k' : K, k' <> k -> g_get keqb g' k' = g_get keqb g k') /\
       g_len g' = g_len g - match r with
                            | Some _ => 1
                            | None => 0
                            end.
Proof. exact g_remove_spec. Qed.
Print Assumptions c18_remove.

(* len = number of bindings; is_empty iff none *)
Theorem c18_len :
  forall (K : Type) (g : graph K), g_len g = length (map fst g) /\ (g_is_empty g = true <-> g = []).
Proof. exact g_len_spec. Qed.
Print Assumptions c18_len.

(* the hypothesis OrderOK of the view theorems below is not assumed of the implementation: every iteration order observed on the real container is tested with order_okb (duplicate-free, as long as the binding list, every key bound) before the model uses it, and the test is sound *)
Theorem c18_observed_order_is_tested :
  forall (K V E : Type) (keqb : K -> K -> bool),
       KeqbSpec keqb ->
       forall (h : heap K V E) (g : graph K) (order : list K),
       GraphOK h g -> order_okb keqb g order = true -> OrderOK g order.
Proof. exact order_okb_sound. Qed.
Print Assumptions c18_observed_order_is_tested.

(* to_vec/iter hand out exactly the bound nodes, each once, in the container's order *)
Theorem c18_iter_to_vec :
  forall (K V E : Type) (keqb : K -> K -> bool),
       KeqbSpec keqb ->
       forall (h : heap K V E) (g : graph K) (order : list K),
       GraphOK h g -> OrderOK g order -> Permutation (g_iter keqb g order) (members g).
Proof. exact g_iter_perm. Qed.
Print Assumptions c18_iter_to_vec.

(* roots/leaves/orphans are exactly the members without incoming / without outgoing / without any edge *)
Theorem c18_roots_leaves_orphans :
  forall (K V E : Type) (keqb : K -> K -> bool),
       KeqbSpec keqb ->
       forall (h : heap K V E) (g : graph K) (order : list K),
       GraphOK h g ->
       OrderOK g order ->
       Permutation (g_roots keqb h g order) (filter (is_root h) (members g)) /\
       Permutation (g_leaves keqb h g order) (filter (is_leaf h) (members g)) /\
       Permutation (g_orphans keqb h g order) (filter (is_orphan h) (members g)).
Proof. exact g_views_perm. Qed.
Print Assumptions c18_roots_leaves_orphans.

(* to_dot: one node statement per member and one edge statement per edge obtained by iterating the members *)
Theorem c18_to_dot :
  forall (K V E : Type) (keqb : K -> K -> bool),
       KeqbSpec keqb ->
       forall (directed : bool) (h : heap K V E) (g : graph K) (order : list K),
       GraphOK h g ->
       OrderOK g order ->
       Permutation (g_to_dot keqb directed h g order)
         (flat_map
            (fun u : nat =>
             NodeStmt E u false
             :: map (fun p : nat * E => EdgeStmt u (fst p) (snd p) false) (into_iter directed h u))
            (members g)).
Proof. exact g_to_dot_perm. Qed.
Print Assumptions c18_to_dot.

(* to_dot_with_attr: graph attributes, one node statement per member, one edge statement per iterated edge, with the attributes the callbacks supply *)
Theorem c18_to_dot_with_attr :
  forall (K V E : Type) (keqb : K -> K -> bool),
       KeqbSpec keqb ->
       forall (directed : bool) (h : heap K V E) (g : graph K) (order : list K) (ngattr : nat)
         (nattr : nat -> bool) (eattr : nat -> nat -> E -> bool),
       GraphOK h g ->
       OrderOK g order ->
       Permutation (g_to_dot_attr keqb directed h g order ngattr nattr eattr)
         (map (GraphAttr E) (iota 0 ngattr) ++
          map (fun u : nat => NodeStmt E u (nattr u)) (members g) ++
          flat_map
            (fun u : nat =>
             map (fun p : nat * E => EdgeStmt u (fst p) (snd p) (eattr u (fst p) (snd p)))
               (into_iter directed h u)) (members g)).
Proof. exact g_to_dot_attr_perm. Qed.
Print Assumptions c18_to_dot_with_attr.

