(* C07 — Traversal callbacks see every reachable edge once; filters exclude.
   Model: coq/model/Search.v + coq/model/Callback.v. `mk_cb step false pred []` is Method::ForEach with a closure that
   records every edge it is handed (c_trace, newest first) and runs no operations. Filters: every soundness theorem
   of C04/C05/C09/C10 is stated for an arbitrary pure `accept` and concludes IsPath/good_edge, i.e. every returned
   edge satisfies accept, and reachability is Reach in the graph of accepted edges only; the *_exhaustive theorems
   say the visited set is exactly that reachable set. *)
From Gdsl.Model Require Import Spec Callback SearchFind.
From Gdsl.Proofs Require Import Worklist Descend Order SearchGlue SearchFindProof.

(* breadth-/priority-first without target: the closure is handed exactly the adjacency entries of the reachable nodes, each once (Permutation), oriented from the expanded node, with stored values *)
Theorem c07_foreach_once_bfs_pfs :
  forall (K V E : Type) (keqb : K -> K -> bool),
       KeqbSpec keqb ->
       forall (vleb : V -> V -> bool) (step : heap K V E -> op K V E -> heap K V E * outcome E)
         (pred : K -> K -> E -> bool) (h : heap K V E),
       Wf h ->
       KeysInj h ->
       forall (d : dir) (root : nat),
       root < size h ->
       forall (k : kind) (fuel : nat) (st : sst K V E (cbst E)),
       k <> KDfs ->
       search_path keqb (mk_cb step false pred []) vleb k d fuel h (cb0 E) root None false = (st, RNone E) ->
       exists R : list nat,
         NoDup R /\
         (forall v : nat, In v R <-> Reach h d (fun _ : edge E => true) root v) /\
         Permutation (rev (c_trace (s_cb st)))
           (flat_map (fun u : nat => map (fun x : nat * E => (u, fst x, snd x)) (adj_of h d u)) R).
Proof. exact wlq_foreach_once. Qed.
Print Assumptions c07_foreach_once_bfs_pfs.

(* depth-first without target: same *)
Theorem c07_foreach_once_dfs :
  forall (K V E : Type) (keqb : K -> K -> bool),
       KeqbSpec keqb ->
       forall (step : heap K V E -> op K V E -> heap K V E * outcome E) (pred : K -> K -> E -> bool)
         (vleb : V -> V -> bool) (h : heap K V E),
       Wf h ->
       KeysInj h ->
       forall (d : dir) (root : nat),
       root < size h ->
       forall (fuel : nat) (st : sst K V E (cbst E)),
       search_path keqb (mk_cb step false pred []) vleb KDfs d fuel h (cb0 E) root None false = (st, RNone E) ->
       exists R : list nat,
         NoDup R /\
         (forall v : nat, In v R <-> Reach h d (fun _ : edge E => true) root v) /\
         Permutation (rev (c_trace (s_cb st)))
           (flat_map (fun u : nat => map (fun x : nat * E => (u, fst x, snd x)) (adj_of h d u)) R).
Proof. exact dfs_foreach_once. Qed.
Print Assumptions c07_foreach_once_dfs.

(* preorder and postorder: same *)
Theorem c07_foreach_once_orderings :
  forall (K V E : Type) (keqb : K -> K -> bool),
       KeqbSpec keqb ->
       forall (step : heap K V E -> op K V E -> heap K V E * outcome E) (pred : K -> K -> E -> bool)
         (h : heap K V E),
       Wf h ->
       KeysInj h ->
       forall (d : dir) (root : nat),
       root < size h ->
       forall (fuel : nat) (post : bool) (st : sst K V E (cbst E)) (tree : list (edge E)),
       order_edges keqb (mk_cb step false pred []) d post fuel h (cb0 E) root = (st, Some tree) ->
       exists R : list nat,
         NoDup R /\
         (forall v : nat, In v R <-> Reach h d (fun _ : edge E => true) root v) /\
         Permutation (rev (c_trace (s_cb st)))
           (flat_map (fun u : nat => map (fun x : nat * E => (u, fst x, snd x)) (adj_of h d u)) R).
Proof. exact descend_foreach_once. Qed.
Print Assumptions c07_foreach_once_orderings.

(* the search() entry points run separate loops in the code (model/SearchFind.v); for EVERY closure they end with the same callback state — hence hand the closure exactly the same edges in the same order — and the same visited set as search_path(), so the statements above and below hold for search() too *)
Theorem c07_search_entry_point_same_closure_calls :
  forall (K V E : Type) (keqb : K -> K -> bool) (CB : Type)
         (cb : CB -> heap K V E -> edge E -> CB * heap K V E * bool) (vleb : V -> V -> bool) 
         (k : kind) (d : dir) (fuel : nat) (h : heap K V E) (c : CB) (root : nat) 
         (target : option K),
       let x := search_find' keqb cb vleb k d fuel h c root target in
       let y := run_search keqb cb vleb k d fuel h c root target false in
       snd x = res_of_status E (snd y) /\
       s_heap (fst x) = s_heap (fst y) /\ s_cb (fst x) = s_cb (fst y) /\ s_vis (fst x) = s_vis (fst y).
Proof. exact find_machine_agrees. Qed.
Print Assumptions c07_search_entry_point_same_closure_calls.

(* with a pure filter: the recorded tree consists of accepted edges only and the visited nodes are exactly those reachable through accepted edges *)
Theorem c07_filter_bfs_pfs :
  forall (K V E : Type) (keqb : K -> K -> bool),
       KeqbSpec keqb ->
       forall (CB : Type) (cb : CB -> heap K V E -> edge E -> CB * heap K V E * bool)
         (accept : edge E -> bool) (vleb : V -> V -> bool) (h : heap K V E),
       Wf h ->
       KeysInj h ->
       PureCb h cb accept ->
       forall (d : dir) (root : nat),
       root < size h ->
       forall (c0 : CB) (k : kind) (fuel : nat) (st : sst K V E CB),
       k <> KDfs ->
       search_path keqb cb vleb k d fuel h c0 root None false = (st, RNone E) ->
       s_heap st = h /\
       TreeOK h d accept root (s_tree st) /\
       ~ In root (map (edst (E:=E)) (s_tree st)) /\
       (forall v : nat, Reach h d accept root v <-> v = root \/ In v (map (edst (E:=E)) (s_tree st))).
Proof. exact wlq_exhaustive. Qed.
Print Assumptions c07_filter_bfs_pfs.

(* depth-first: same *)
Theorem c07_filter_dfs :
  forall (K V E : Type) (keqb : K -> K -> bool),
       KeqbSpec keqb ->
       forall (CB : Type) (cb : CB -> heap K V E -> edge E -> CB * heap K V E * bool)
         (accept : edge E -> bool) (vleb : V -> V -> bool) (h : heap K V E),
       Wf h ->
       KeysInj h ->
       PureCb h cb accept ->
       forall (d : dir) (root : nat),
       root < size h ->
       forall (c0 : CB) (fuel : nat) (st : sst K V E CB),
       search_path keqb cb vleb KDfs d fuel h c0 root None false = (st, RNone E) ->
       s_heap st = h /\
       TreeOK h d accept root (s_tree st) /\
       ~ In root (map (edst (E:=E)) (s_tree st)) /\
       (forall v : nat, Reach h d accept root v <-> v = root \/ In v (map (edst (E:=E)) (s_tree st))).
Proof. exact dfs_exhaustive. Qed.
Print Assumptions c07_filter_dfs.

(* orderings: only accepted edges, exactly the nodes reachable through accepted edges *)
Theorem c07_filter_orderings :
  forall (K V E : Type) (keqb : K -> K -> bool),
       KeqbSpec keqb ->
       forall (CB : Type) (cb : CB -> heap K V E -> edge E -> CB * heap K V E * bool)
         (accept : edge E -> bool) (h : heap K V E),
       Wf h ->
       KeysInj h ->
       PureCb h cb accept ->
       forall (d : dir) (root : nat),
       root < size h ->
       forall (c0 : CB) (fuel : nat) (post : bool) (st : sst K V E CB) (tree : list (edge E)),
       order_edges keqb cb d post fuel h c0 root = (st, Some tree) ->
       Forall (good_edge h d accept) tree /\
       NoDup (map (edst (E:=E)) tree) /\
       ~ In root (map (edst (E:=E)) tree) /\
       (forall v : nat, v <> root -> Reach h d accept root v <-> In v (map (edst (E:=E)) tree)) /\
       (forall e : edge E, In e tree -> Reach h d accept root (esrc e)).
Proof. exact order_edges_tree. Qed.
Print Assumptions c07_filter_orderings.

(* with a target: every edge of a returned breadth-/priority-first path is an accepted stored edge (IsPath = chain of good_edge) *)
Theorem c07_filter_path_bfs_pfs :
  forall (K V E : Type) (keqb : K -> K -> bool),
       KeqbSpec keqb ->
       forall (CB : Type) (cb : CB -> heap K V E -> edge E -> CB * heap K V E * bool)
         (accept : edge E -> bool) (vleb : V -> V -> bool) (h : heap K V E),
       Wf h ->
       KeysInj h ->
       PureCb h cb accept ->
       forall (d : dir) (root : nat),
       root < size h ->
       forall (c0 : CB) (k : kind) (fuel : nat) (t : K) (st : sst K V E CB) (p : list (edge E)),
       k <> KDfs ->
       keyof h root <> Some t ->
       search_path keqb cb vleb k d fuel h c0 root (Some t) false = (st, RPath p) ->
       exists v : nat,
         keyof h v = Some t /\
         IsPath h d accept root p v /\
         p <> [] /\ NoDup (map (edst (E:=E)) p) /\ ~ In root (map (edst (E:=E)) p).
Proof. exact wlq_path_sound. Qed.
Print Assumptions c07_filter_path_bfs_pfs.

(* depth-first path: same *)
Theorem c07_filter_path_dfs :
  forall (K V E : Type) (keqb : K -> K -> bool),
       KeqbSpec keqb ->
       forall (CB : Type) (cb : CB -> heap K V E -> edge E -> CB * heap K V E * bool)
         (accept : edge E -> bool) (vleb : V -> V -> bool) (h : heap K V E),
       Wf h ->
       KeysInj h ->
       PureCb h cb accept ->
       forall (d : dir) (root : nat),
       root < size h ->
       forall (c0 : CB) (fuel : nat) (t : K) (st : sst K V E CB) (p : list (edge E)),
       keyof h root <> Some t ->
       search_path keqb cb vleb KDfs d fuel h c0 root (Some t) false = (st, RPath p) ->
       exists v : nat,
         keyof h v = Some t /\
         IsPath h d accept root p v /\
         p <> [] /\ NoDup (map (edst (E:=E)) p) /\ ~ In root (map (edst (E:=E)) p).
Proof. exact dfs_path_sound. Qed.
Print Assumptions c07_filter_path_dfs.

(* None only if the target is unreachable in the graph of ACCEPTED edges (reachability is decided there only) *)
Theorem c07_filter_unreachable_bfs_pfs :
  forall (K V E : Type) (keqb : K -> K -> bool),
       KeqbSpec keqb ->
       forall (CB : Type) (cb : CB -> heap K V E -> edge E -> CB * heap K V E * bool)
         (accept : edge E -> bool) (vleb : V -> V -> bool) (h : heap K V E),
       Wf h ->
       KeysInj h ->
       PureCb h cb accept ->
       forall (d : dir) (root : nat),
       root < size h ->
       forall (c0 : CB) (k : kind) (fuel : nat) (t : K) (st : sst K V E CB),
       k <> KDfs ->
       keyof h root <> Some t ->
       search_path keqb cb vleb k d fuel h c0 root (Some t) false = (st, RNone E) ->
       forall v : nat, keyof h v = Some t -> ~ Reach h d accept root v.
Proof. exact wlq_path_complete. Qed.
Print Assumptions c07_filter_unreachable_bfs_pfs.

(* depth-first: same *)
Theorem c07_filter_unreachable_dfs :
  forall (K V E : Type) (keqb : K -> K -> bool),
       KeqbSpec keqb ->
       forall (CB : Type) (cb : CB -> heap K V E -> edge E -> CB * heap K V E * bool)
         (accept : edge E -> bool) (vleb : V -> V -> bool) (h : heap K V E),
       Wf h ->
       KeysInj h ->
       PureCb h cb accept ->
       forall (d : dir) (root : nat),
       root < size h ->
       forall (c0 : CB) (fuel : nat) (t : K) (st : sst K V E CB),
       keyof h root <> Some t ->
       search_path keqb cb vleb KDfs d fuel h c0 root (Some t) false = (st, RNone E) ->
       forall v : nat, keyof h v = Some t -> ~ Reach h d accept root v.
Proof. exact dfs_path_complete. Qed.
Print Assumptions c07_filter_unreachable_dfs.

(* every edge of a returned cycle is an accepted stored edge *)
Theorem c07_filter_cycle_bfs_pfs :
  forall (K V E : Type) (keqb : K -> K -> bool),
       KeqbSpec keqb ->
       forall (CB : Type) (cb : CB -> heap K V E -> edge E -> CB * heap K V E * bool)
         (accept : edge E -> bool) (vleb : V -> V -> bool) (h : heap K V E),
       Wf h ->
       KeysInj h ->
       PureCb h cb accept ->
       forall (d : dir) (root : nat),
       root < size h ->
       forall (c0 : CB) (k : kind) (fuel : nat) (t : option K) (st : sst K V E CB) (p : list (edge E)),
       k <> KDfs ->
       search_path keqb cb vleb k d fuel h c0 root t true = (st, RPath p) ->
       IsPath h d accept root p root /\ p <> [] /\ NoDup (map (edst (E:=E)) p).
Proof. exact wlq_cycle_sound. Qed.
Print Assumptions c07_filter_cycle_bfs_pfs.

(* depth-first cycle: same *)
Theorem c07_filter_cycle_dfs :
  forall (K V E : Type) (keqb : K -> K -> bool),
       KeqbSpec keqb ->
       forall (CB : Type) (cb : CB -> heap K V E -> edge E -> CB * heap K V E * bool)
         (accept : edge E -> bool) (vleb : V -> V -> bool) (h : heap K V E),
       Wf h ->
       KeysInj h ->
       PureCb h cb accept ->
       forall (d : dir) (root : nat),
       root < size h ->
       forall (c0 : CB) (fuel : nat) (t : option K) (st : sst K V E CB) (p : list (edge E)),
       search_path keqb cb vleb KDfs d fuel h c0 root t true = (st, RPath p) ->
       IsPath h d accept root p root /\ p <> [] /\ NoDup (map (edst (E:=E)) p).
Proof. exact dfs_cycle_sound. Qed.
Print Assumptions c07_filter_cycle_dfs.

