(* C01 — Directed edges stay mirrored between source and target.
   Statements only; each is closed by a lemma of coq/proofs and followed by Print Assumptions.
   Model: coq/model/NodeOps.v (step_d/run_d); vocabulary: coq/model/Spec.v. *)
From Gdsl.Model Require Import Spec.
From Gdsl.Proofs Require Import NodeD Glue DegreeU.

(* After ANY history of new/connect/try_connect/disconnect/isolate calls with pairwise distinct keys
   (failing calls, self-loops, parallel edges, repeated disconnect/isolate included) no call panicked and
   the heap satisfies Inv = Mirror /\ Wf /\ KeysInj. *)
Theorem c01_history_invariant :
  forall (K V E : Type) (keqb : K -> K -> bool), KeqbSpec keqb ->
  forall ops : list (op K V E), KeysFresh ops ->
    Inv (fst (run_d keqb ops)) /\ NoPanic (snd (run_d keqb ops)).
Proof. exact run_d_inv. Qed.
Print Assumptions c01_history_invariant.

(* ... and after every prefix of it. *)
Theorem c01_every_prefix :
  forall (K V E : Type) (keqb : K -> K -> bool), KeqbSpec keqb ->
  forall a b : list (op K V E), KeysFresh (a ++ b) ->
    Inv (fst (run_d keqb a)) /\ NoPanic (snd (run_d keqb a)).
Proof. exact run_d_prefix_inv. Qed.
Print Assumptions c01_every_prefix.

(* Mirror spelled out: for every pair (u,v) the values of the edges u reports towards v are, with
   multiplicity and in the same relative order, the values of the edges v reports from u. *)
Theorem c01_edges_mirrored :
  forall (K V E : Type) (keqb : K -> K -> bool), KeqbSpec keqb ->
  forall ops : list (op K V E), KeysFresh ops -> forall u v : nat,
    map snd (filter (fun p => Nat.eqb (fst p) v) (outs (fst (run_d keqb ops)) u)) =
    map snd (filter (fun p => Nat.eqb (fst p) u) (ins (fst (run_d keqb ops)) v)).
Proof. exact run_d_mirror. Qed.
Print Assumptions c01_edges_mirrored.

(* degrees and root/leaf predicates of both endpoints describe one edge set *)
Theorem c01_degree_facts :
  forall (K V E : Type) (h : heap K V E), Inv h -> forall u v : nat,
    length (to_ v (outs h u)) = length (to_ u (ins h v)) /\
    (is_root h v = true <-> (forall u0 : nat, to_ v (outs h u0) = [])) /\
    (is_leaf h u = true <-> (forall v0 : nat, to_ u (ins h v0) = [])).
Proof. exact degree_facts. Qed.
Print Assumptions c01_degree_facts.

(* "Out-/in-degree, root/leaf/orphan predicates ... describe one and the same edge set", as totals: the out-degree of u
   is the number of incoming entries from u that all nodes together report, the in-degree of u the number of outgoing
   entries towards u that all nodes together report, and u is an orphan exactly when nobody lists u in either list. *)
Theorem c01_out_degree_is_what_targets_report :
  forall (K V E : Type) (h : heap K V E), Mirror h -> Wf h -> forall u : nat,
    out_degree h u = sum_over (size h) (fun v => length (to_ u (ins h v))).
Proof. exact out_degree_counts_listings. Qed.
Print Assumptions c01_out_degree_is_what_targets_report.

Theorem c01_in_degree_is_what_sources_report :
  forall (K V E : Type) (h : heap K V E), Mirror h -> Wf h -> forall u : nat,
    in_degree h u = sum_over (size h) (fun v => length (to_ u (outs h v))).
Proof. exact in_degree_counts_listings. Qed.
Print Assumptions c01_in_degree_is_what_sources_report.

Theorem c01_orphan_iff_unlisted :
  forall (K V E : Type) (h : heap K V E), Mirror h -> Wf h -> forall u : nat,
    is_orphan h u = true <->
    sum_over (size h) (fun v => length (to_ u (outs h v))) = 0 /\ sum_over (size h) (fun v => length (to_ u (ins h v))) = 0.
Proof. exact orphan_iff_unlisted. Qed.
Print Assumptions c01_orphan_iff_unlisted.

(* neighbour lookups: u.is_connected(key v)  <->  u lists an edge to v  <->  v.find_inbound(key u) is Some *)
Theorem c01_is_connected :
  forall (K V E : Type) (keqb : K -> K -> bool), KeqbSpec keqb ->
  forall (h : heap K V E) (u v : nat) (kv : K), Inv h -> u < size h -> keyof h v = Some kv ->
    (is_connected_d keqb h u kv = true <-> exists e : E, In (v, e) (outs h u)).
Proof. exact is_connected_d_spec. Qed.
Print Assumptions c01_is_connected.

Theorem c01_lookup_both_ends :
  forall (K V E : Type) (keqb : K -> K -> bool), KeqbSpec keqb ->
  forall (h : heap K V E) (u v : nat) (ku kv : K), Inv h -> keyof h u = Some ku -> keyof h v = Some kv ->
    (is_connected_d keqb h u kv = true <-> find_inbound keqb h v ku <> None).
Proof. exact lookup_facts. Qed.
Print Assumptions c01_lookup_both_ends.

(* non-vacuity: a concrete history with distinct keys, a self-loop, parallel edges, a failing call,
   a disconnect and an isolate; its final state is non-trivial *)
Example c01_nonvacuous :
  let ops : list (op nat nat nat) :=
    [ONew 5 0; ONew 3 0; ONew 9 0; OConnect 0 1 10; OConnect 0 1 11; OConnect 1 1 12; OConnect 2 0 13;
     OTryConnect 0 1 14; ODisconnect 0 3; ODisconnect 0 7; OIsolate 2; OConnect 1 0 15] in
  NoDup (new_keys ops) /\
  outs (fst (run_d Nat.eqb ops)) 0 = [(1, 11)] /\ ins (fst (run_d Nat.eqb ops)) 1 = [(0, 11); (1, 12)] /\
  snd (run_d Nat.eqb ops) = [OkU; OkU; OkU; OkU; OkU; OkU; OkU; ErrExists; OkE 10; ErrNotFound; OkU; OkU].
Proof.
  cbv zeta. split; [|vm_compute; auto].
  repeat constructor; cbn; intuition congruence.
Qed.
