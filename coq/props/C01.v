(* C01 — pipeline placeholder; replaced by the real statements below *)
From Gdsl.Model Require Import Base NodeOps.
From Gdsl.Proofs Require Import NodeLemmas.

Theorem c01_to_app : forall (E : Type) v (l1 l2 : list (nat * E)), to_ v (l1 ++ l2) = to_ v l1 ++ to_ v l2.
Proof. exact to_app. Qed.
Print Assumptions c01_to_app.
