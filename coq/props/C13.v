(* C13 — Deserialising untrusted input never panics or builds a broken graph.
   Model: coq/model/Serde.v: `decode_doc` (what the visitor accepts: a sequence of at most two elements, tuples of fixed
   length, decoders for keys/values that may fail) ; `rebuild`; `deserialize = decode_doc ; rebuild`. The model has no panic
   outcome: deserialize is a total function into {error, graph}; panics or hangs INSIDE serde_json/serde_cbor on arbitrary
   bytes are outside the model and are only exercised by the correspondence (byte-level mutations). *)
From Gdsl.Model Require Import Spec Serde.
From Gdsl.Proofs Require Import SerdeProof.

(* any document: an error, or a graph satisfying Inv (mirror/symmetry) with a well-formed container *)
Theorem c13_total_and_sane :
  forall (K V E : Type) (keqb : K -> K -> bool),
       KeqbSpec keqb ->
       forall (dk : value -> option K) (dv : value -> option V) (de : value -> option E) (doc : value),
       deserialize keqb dk dv de doc = DErr K V E \/
       (exists (h : heap K V E) (g : graph K),
          deserialize keqb dk dv de doc = DOk h g /\ Inv h /\ GraphOK h g).
Proof. exact deserialize_total. Qed.
Print Assumptions c13_total_and_sane.

(* on success the nodes are exactly the declared keys and every edge endpoint is declared *)
Theorem c13_ok_from_document :
  forall (K V E : Type) (keqb : K -> K -> bool),
       KeqbSpec keqb ->
       forall (ns : list (K * V)) (es : list (K * K * E)) (h' : heap K V E) (g' : graph K),
       rebuild keqb ns es = DeOk h' g' ->
       Inv h' /\
       GraphOK h' g' /\
       (forall k : K, g_contains keqb g' k = true <-> In k (map fst ns)) /\
       (forall (s t : K) (e : E), In (s, t, e) es -> In s (map fst ns) /\ In t (map fst ns)).
Proof. exact rebuild_ok_inv. Qed.
Print Assumptions c13_ok_from_document.

(* for rebuild itself: every node of an Ok result is a (key, value) pair of the document, every outgoing and every incoming adjacency entry is an edge triple of the document between the nodes bound to its two keys — nothing else exists in the result *)
Theorem c13_rebuild_all_from_document :
  forall (K V E : Type) (keqb : K -> K -> bool),
       KeqbSpec keqb ->
       forall (ns : list (K * V)) (es : list (K * K * E)) (h' : heap K V E) (g' : graph K),
       rebuild keqb ns es = DeOk h' g' ->
       (forall (u : nat) (kv : K * V), nth_error (nodes h') u = Some kv -> In kv ns) /\
       (forall (u v : nat) (e : E),
        In (v, e) (outs h' u) ->
        exists s t : K, In (s, t, e) es /\ g_get keqb g' s = Some u /\ g_get keqb g' t = Some v) /\
       (forall (u v : nat) (e : E),
        In (u, e) (ins h' v) ->
        exists s t : K, In (s, t, e) es /\ g_get keqb g' s = Some u /\ g_get keqb g' t = Some v).
Proof. exact rebuild_all_from_document. Qed.
Print Assumptions c13_rebuild_all_from_document.

(* the same for deserialize (the public entry point), through decode_doc *)
Theorem c13_deserialize_all_from_document :
  forall (K V E : Type) (keqb : K -> K -> bool),
       KeqbSpec keqb ->
       forall (dk : value -> option K) (dv : value -> option V) (de : value -> option E) 
         (doc : value) (h : heap K V E) (g : graph K),
       deserialize keqb dk dv de doc = DOk h g ->
       exists (ns : list (K * V)) (es : list (K * K * E)),
         decode_doc dk dv de doc = Some (ns, es) /\
         (forall (u : nat) (kv : K * V), nth_error (nodes h) u = Some kv -> In kv ns) /\
         (forall (u v : nat) (e : E),
          In (v, e) (outs h u) ->
          exists s t : K, In (s, t, e) es /\ g_get keqb g s = Some u /\ g_get keqb g t = Some v).
Proof. exact deserialize_all_from_document. Qed.
Print Assumptions c13_deserialize_all_from_document.

(* a repeated key keeps the first declared value *)
Theorem c13_first_value_wins :
  forall (K V E : Type) (keqb : K -> K -> bool),
       KeqbSpec keqb ->
       forall (l : list (K * V)) (h : heap K V E) (g : graph K),
       let r := rebuild_nodes keqb h g l in
       forall k : K,
       g_contains keqb g k = false ->
       forall (l1 : list (K * V)) (v : V) (l2 : list (K * V)),
       l = l1 ++ (k, v) :: l2 ->
       ~ In k (map fst l1) ->
       exists u : nat, g_get keqb (snd r) k = Some u /\ nth_error (nodes (fst r)) u = Some (k, v).
Proof. exact rebuild_nodes_first_wins. Qed.
Print Assumptions c13_first_value_wins.

(* on success every listed edge is connected, in listed order, nothing else; on failure the error names the first undeclared key *)
Theorem c13_edges_in_order :
  forall (K V E : Type) (keqb : K -> K -> bool),
       KeqbSpec keqb ->
       forall (es : list (K * K * E)) (h : heap K V E) (g : graph K),
       GraphOK h g ->
       Inv h ->
       match rebuild_edges keqb h g es with
       | DeOk h' g' =>
           g' = g /\
           Inv h' /\
           nodes h' = nodes h /\
           (forall (s t : K) (e : E),
            In (s, t, e) es -> g_contains keqb g s = true /\ g_contains keqb g t = true) /\
           (forall u : nat,
            outs h' u =
            outs h u ++
            flat_map
              (fun x : K * K * E =>
               let (y, e) := x in
               let (s, t) := y in
               match g_get keqb g s with
               | Some a =>
                   match g_get keqb g t with
                   | Some b => if a =? u then [(b, e)] else []
                   | None => []
                   end
               | None => []
               end) es) /\
           (forall v : nat,
            ins h' v =
            ins h v ++
            flat_map
              (fun x : K * K * E =>
               let (y, e) := x in
               let (s, t) := y in
               match g_get keqb g s with
               | Some a =>
                   match g_get keqb g t with
                   | Some b => if b =? v then [(a, e)] else []
                   | None => []
                   end
               | None => []
               end) es)
       | DeMissing _ _ k =>
           exists (es1 : list (K * K * E)) (s t : K) (e : E) (es2 : list (K * K * E)),
             es = es1 ++ (s, t, e) :: es2 /\
             (forall (s' t' : K) (e' : E),
              In (s', t', e') es1 -> g_contains keqb g s' = true /\ g_contains keqb g t' = true) /\
             (g_contains keqb g s = false /\ k = s \/
              g_contains keqb g s = true /\ g_contains keqb g t = false /\ k = t)
       end.
Proof. exact rebuild_edges_spec. Qed.
Print Assumptions c13_edges_in_order.

(* rebuild fails exactly when an edge names a key the document does not declare *)
Theorem c13_error_iff_undeclared :
  forall (K V E : Type) (keqb : K -> K -> bool),
       KeqbSpec keqb ->
       forall (ns : list (K * V)) (es : list (K * K * E)),
       (exists k : K, rebuild keqb ns es = DeMissing V E k) <->
       (exists (s t : K) (e : E), In (s, t, e) es /\ (~ In s (map fst ns) \/ ~ In t (map fst ns))).
Proof. exact rebuild_err_iff. Qed.
Print Assumptions c13_error_iff_undeclared.

