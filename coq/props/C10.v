(* C10 — Preorder and postorder are depth-first discovery and finishing orders.
   Model: coq/model/Search.v (`descend`, entry points order_edges / order_nodes; post = false: preorder, edge
   recorded before the recursive call; post = true: postorder, recorded after it). "Some depth-first traversal"
   is the relation DfsKids of coq/model/Spec.v. Any direction (DOut, DIn = transpose(), DAdj = undirected). *)
From Gdsl.Model Require Import Spec Callback.
From Gdsl.Proofs Require Import Descend Order.

(* the targets of the recorded tree are the discovery order (pre) resp. finishing order (post) of ONE depth-first traversal (DfsKids) from the root; that traversal visits exactly the nodes reachable through accepted edges, each once *)
Theorem c10_order_is_dfs_run :
  forall (K V E : Type) (keqb : K -> K -> bool),
       KeqbSpec keqb ->
       forall (CB : Type) (cb : CB -> heap K V E -> edge E -> CB * heap K V E * bool)
         (accept : edge E -> bool) (h : heap K V E),
       Wf h ->
       KeysInj h ->
       PureCb h cb accept ->
       forall (d : dir) (root : nat),
       root < size h ->
       forall (c0 : CB) (fuel : nat) (post : bool) (st : sst K V E CB) (tree : list (edge E)),
       order_edges keqb cb d post fuel h c0 root = (st, Some tree) ->
       exists pre pst S' : list nat,
         DfsKids h d accept [root] root pre pst S' /\
         map (edst (E:=E)) tree = (if post then pst else pre) /\
         (forall v : nat, In v S' <-> Reach h d accept root v) /\
         Permutation S' (root :: pre) /\ Permutation pre pst /\ NoDup (root :: pre).
Proof. exact order_is_dfs_run. Qed.
Print Assumptions c10_order_is_dfs_run.

(* search_nodes = the root placed first (preorder) / last (postorder) around the targets of search_edges *)
Theorem c10_search_nodes :
  forall (K V E : Type) (keqb : K -> K -> bool) (CB : Type)
         (cb : CB -> heap K V E -> edge E -> CB * heap K V E * bool) (h : heap K V E) 
         (d : dir) (root : nat) (c0 : CB) (fuel : nat) (post : bool) (st : sst K V E CB) 
         (l : list nat),
       order_nodes keqb cb d post fuel h c0 root = (st, Some l) ->
       exists tree : list (edge E),
         order_edges keqb cb d post fuel h c0 root = (st, Some tree) /\
         l = (if post then map (edst (E:=E)) tree ++ [root] else root :: map (edst (E:=E)) tree).
Proof. exact order_nodes_spec. Qed.
Print Assumptions c10_search_nodes.

(* search_edges: accepted stored edges, exactly one entering each reachable non-root node, none entering the root, each leaving a reachable node *)
Theorem c10_search_edges :
  forall (K V E : Type) (keqb : K -> K -> bool),
       KeqbSpec keqb ->
       forall (CB : Type) (cb : CB -> heap K V E -> edge E -> CB * heap K V E * bool)
         (accept : edge E -> bool) (h : heap K V E),
       Wf h ->
       KeysInj h ->
       PureCb h cb accept ->
       forall (d : dir) (root : nat),
       root < size h ->
       forall (c0 : CB) (fuel : nat) (post : bool) (st : sst K V E CB) (tree : list (edge E)),
       order_edges keqb cb d post fuel h c0 root = (st, Some tree) ->
       Forall (good_edge h d accept) tree /\
       NoDup (map (edst (E:=E)) tree) /\
       ~ In root (map (edst (E:=E)) tree) /\
       (forall v : nat, v <> root -> Reach h d accept root v <-> In v (map (edst (E:=E)) tree)) /\
       (forall e : edge E, In e tree -> Reach h d accept root (esrc e)).
Proof. exact order_edges_tree. Qed.
Print Assumptions c10_search_edges.

(* for every accepted edge u->v among the traversed nodes, v precedes u in the finishing order unless u is reachable from v (or u = v) *)
Theorem c10_post_edge_order :
  forall (K V E : Type) (h : heap K V E) (d : dir) (accept : edge E -> bool) 
         (root : nat) (pre pst S' : list nat),
       DfsKids h d accept [root] root pre pst S' ->
       forall e : edge E,
       good_edge h d accept e ->
       In (esrc e) (root :: pre) ->
       esrc e = edst e \/ before (edst e) (esrc e) (pst ++ [root]) \/ Reach h d accept (edst e) (esrc e).
Proof. exact post_edge_order_whole. Qed.
Print Assumptions c10_post_edge_order.

(* fuel_bound suffices: the orderings are always produced *)
Theorem c10_terminates :
  forall (K V E : Type) (keqb : K -> K -> bool),
       KeqbSpec keqb ->
       forall (CB : Type) (cb : CB -> heap K V E -> edge E -> CB * heap K V E * bool)
         (accept : edge E -> bool) (vleb : V -> V -> bool) (h : heap K V E),
       Wf h ->
       KeysInj h ->
       PureCb h cb accept ->
       forall (d : dir) (root : nat),
       root < size h ->
       forall (c0 : CB) (fuel : nat) (t : option K) (cyc post : bool),
       fuel_bound h <= fuel ->
       snd (search_path keqb cb vleb KDfs d fuel h c0 root t cyc) <> RFuel E /\
       snd (search_find keqb cb vleb KDfs d fuel h c0 root t) <> RFuel E /\
       snd (order_edges keqb cb d post fuel h c0 root) <> None /\
       snd (order_nodes keqb cb d post fuel h c0 root) <> None.
Proof. exact dfs_terminates. Qed.
Print Assumptions c10_terminates.


Example c10_nonvacuous :
  let ops : list (op nat nat nat) :=
    [ONew 0 0; ONew 1 0; ONew 2 0; ONew 3 0; OConnect 0 1 10; OConnect 0 2 11; OConnect 1 3 12; OConnect 3 0 13] in
  let h := fst (run_d Nat.eqb ops) in
  let cb := (fun (c : unit) h' (_ : edge nat) => (c, h', true)) in
  snd (order_nodes Nat.eqb cb DOut false 100 h tt 0) = Some [0; 1; 3; 2] /\
  snd (order_nodes Nat.eqb cb DOut true 100 h tt 0) = Some [3; 1; 2; 0] /\
  snd (order_nodes Nat.eqb cb DIn true 100 h tt 0) = Some [1; 3; 0].
Proof. vm_compute. auto. Qed.
