(* C19 — Edges never own nodes: no leaks, no premature release.
   Model: coq/model/Own.v: the program's objects (node handles, Edge(Node,Node,E), Path, Vec<Node> results, Graph containers)
   each own a list of node ids STRONGLY; `strong os u` counts occurrences in live objects; adjacency entries are WeakNode and
   appear nowhere in the count (own_heap_irrelevant: operations that only change adjacency cannot change who is owned or
   released). A node value is released when its strong count reaches 0. Histories: OpPut (create an object / re-assign a
   slot: the new object exists before the old content is dropped) and OpDrop; `legal`: a strong reference can only be taken
   to a node that is not yet released (Weak::upgrade fails otherwise). Which fields are strong/weak is read off the source and
   VALIDATED by the correspondence with drop-logging payloads; 'exactly once' at the memory level is Rc/Arc's guarantee. *)
From Gdsl.Model Require Import Own.
From Gdsl.Proofs Require Import OwnProof.

(* no node value is released twice *)
Theorem c19_released_once :
  forall (K V E : Type) (ops : list oop),
       legal_run (o_init K V E) ops -> NoDup (o_released (orun (o_init K V E) ops)).
Proof. exact own_released_once. Qed.
Print Assumptions c19_released_once.

(* a released node is held by no live object *)
Theorem c19_no_early_release :
  forall (K V E : Type) (ops : list oop),
       legal_run (o_init K V E) ops ->
       forall u : nat,
       In u (o_released (orun (o_init K V E) ops)) -> strong (o_objs (orun (o_init K V E) ops)) u = 0.
Proof. exact own_no_early_release. Qed.
Print Assumptions c19_no_early_release.

(* a node held by any live handle, edge, path, result vector or container has not been released *)
Theorem c19_held_not_released :
  forall (K V E : Type) (ops : list oop),
       legal_run (o_init K V E) ops ->
       forall u : nat,
       strong (o_objs (orun (o_init K V E) ops)) u > 0 -> ~ In u (o_released (orun (o_init K V E) ops)).
Proof. exact own_held_not_released. Qed.
Print Assumptions c19_held_not_released.

(* once every object has been dropped, exactly the nodes the program ever held have been released — cyclic, self-looped or still-connected structures included, since adjacency does not count *)
Theorem c19_all_released :
  forall (K V E : Type) (ops : list oop),
       legal_run (o_init K V E) ops ->
       o_objs (orun (o_init K V E) ops) = [] ->
       forall u : nat, In u (put_ids ops) <-> In u (o_released (orun (o_init K V E) ops)).
Proof. exact own_all_released. Qed.
Print Assumptions c19_all_released.

(* a drop releases exactly the nodes whose strong count goes from positive to zero *)
Theorem c19_release_exactly_at_zero :
  forall (K V E : Type) (st : ostate K V E) (s : nat),
       OwnOK K V E st ->
       forall u : nat,
       In u (snd (drop_slot st s)) <->
       strong (o_objs st) u > 0 /\ strong (o_objs (fst (drop_slot st s))) u = 0 /\ ~ In u (o_released st).
Proof. exact own_release_exactly_at_zero. Qed.
Print Assumptions c19_release_exactly_at_zero.

(* same for the implicit drop of a re-assigned slot *)
Theorem c19_reassign_release_exactly_at_zero :
  forall (K V E : Type) (st : ostate K V E) (s : nat) (owned : list nat),
       OwnOK K V E st ->
       forall u : nat,
       In u (snd (put_slot st s owned)) <->
       strong (o_objs st) u > 0 /\
       strong (o_objs (fst (put_slot st s owned))) u = 0 /\ ~ In u (o_released st).
Proof. exact own_put_release_exactly_at_zero. Qed.
Print Assumptions c19_reassign_release_exactly_at_zero.

(* connect/disconnect/isolate (heap-only changes) change neither ownership nor the released set *)
Theorem c19_adjacency_never_owns :
  forall K V E : Type,
       (forall (st : ostate K V E) (h : heap K V E),
        o_objs (set_heap st h) = o_objs st /\ o_released (set_heap st h) = o_released st) /\
       (forall (st : ostate K V E) (s : nat), o_heap (fst (drop_slot st s)) = o_heap st).
Proof. exact own_heap_irrelevant. Qed.
Print Assumptions c19_adjacency_never_owns.

(* whatever object sits in a slot (handle, edge, path, result vector, container — built only through the API layer aop_oop): none of the nodes it owns has been released *)
Theorem c19_object_keeps_its_nodes_alive :
  forall (K V E : Type) (ops : list oop),
       legal_run (o_init K V E) ops ->
       forall (s : nat) (owned : list nat),
       get_obj (o_objs (orun (o_init K V E) ops)) s = Some owned ->
       forall u : nat, In u owned -> ~ In u (o_released (orun (o_init K V E) ops)).
Proof. exact own_object_keeps_alive. Qed.
Print Assumptions c19_object_keeps_its_nodes_alive.

(* an Edge owns both nodes it mentions *)
Theorem c19_edge_owns_its_endpoints :
  forall (E : Type) (e : edge E), In (esrc e) (edge_owns e) /\ In (edst e) (edge_owns e).
Proof. exact edge_owns_endpoints. Qed.
Print Assumptions c19_edge_owns_its_endpoints.

(* a Path / Vec<Edge> owns both endpoints of every edge it contains *)
Theorem c19_path_owns_its_nodes :
  forall (E : Type) (p : list (edge E)) (e : edge E),
       In e p -> In (esrc e) (path_owns p) /\ In (edst e) (path_owns p).
Proof. exact path_owns_endpoints. Qed.
Print Assumptions c19_path_owns_its_nodes.

(* a container owns every node it binds *)
Theorem c19_container_owns_its_members :
  forall (K : Type) (g : list (K * nat)) (k : K) (u : nat), In (k, u) g -> In u (graph_owns g).
Proof. exact graph_owns_members. Qed.
Print Assumptions c19_container_owns_its_members.

(* Graph::insert never releases a node value *)
Theorem c19_container_insert_releases_nothing :
  forall (K V E : Type) (st : ostate K V E) (s : nat) (g : list (K * nat)) (k : K) (u : nat),
       get_obj (o_objs st) s = Some (graph_owns g) -> snd (astep st (AGraph E s (g ++ [(k, u)]))) = [].
Proof. exact own_container_insert_releases_nothing. Qed.
Print Assumptions c19_container_insert_releases_nothing.

(* Graph::remove hands the node out and releases nothing (neither the removed node nor any other member) *)
Theorem c19_container_remove_releases_nothing :
  forall (K V E : Type) (st : ostate K V E) (s t : nat) (g g' : list (K * nat)) (u : nat),
       Slots K V E st ->
       t <> s ->
       get_obj (o_objs st) s = Some (graph_owns g) ->
       (forall x : nat, In x (graph_owns g) -> x = u \/ In x (graph_owns g')) ->
       (forall x : nat, In x (old_of (o_objs st) t) -> strong (del_obj (o_objs st) t) x > 0 \/ x = u) ->
       snd (astep st (ANode K E t u)) = [] /\
       snd (astep (fst (astep st (ANode K E t u))) (AGraph E s g')) = [].
Proof. exact own_container_remove_releases_nothing. Qed.
Print Assumptions c19_container_remove_releases_nothing.

(* the invariant used above holds initially *)
Theorem c19_invariant_initial :
  forall K V E : Type, OwnOK K V E (o_init K V E).
Proof. exact own_init_ok. Qed.
Print Assumptions c19_invariant_initial.

(* and is preserved by every legal step *)
Theorem c19_invariant_step :
  forall (K V E : Type) (st : ostate K V E) (o : oop),
       OwnOK K V E st -> legal st o -> OwnOK K V E (ostep st o).
Proof. exact own_step_ok. Qed.
Print Assumptions c19_invariant_step.

