(* C20 — Graphs may be mutated from inside edge loops and traversal callbacks.
   Model: coq/model/Search.v: `edge_loop` (a manual `for e in node.iter_*()` loop) and the traversal machines re-read the heap
   BY POSITION at every step (the code's iterators hold a node and a position, no borrow or lock across the body) and thread
   an ARBITRARY callback that may return a changed heap. All theorems below are for arbitrary callbacks (no purity
   assumption) unless stated. `logcb cb` (coq/model/Mutation.v) is cb instrumented to log (heap at the call, edge handed
   out); the *_log_erase theorems show the instrumentation does not change the run. `mk_cb step .. script` (Callback.v) is
   the closure the correspondence uses: it executes scripted node operations at given invocation indices; the driver wraps
   it (ocaml/driver.ml wrap_cb) to also run container operations, nested searches / loops / orderings, comparisons and sizeof
   from inside the closure — one more instance of "arbitrary callback". Handles stay valid
   by construction: allocation ids are never reused or removed from the heap. That the implementation's iterators really hold
   no borrow/lock across the body is what the correspondence checks (RefCell panics / lock probe / watchdog). *)
From Gdsl.Model Require Import Spec Callback Mutation.
From Gdsl.Proofs Require Import MutationProof MutationBudget ConcProof.
From Gdsl.Model Require Import Conc.

(* instrumenting the callback does not change an edge loop *)
Theorem c20_edge_loop_log_erase :
  forall (K V E CB : Type) (cb : CB -> heap K V E -> edge E -> CB * heap K V E * bool) 
         (fuel : nat) (d : dir) (c : CB) (l : list (heap K V E * edge E)) (h : heap K V E) 
         (u pos : nat),
       let r := edge_loop (logcb cb) fuel d (c, l) h u pos in
       edge_loop cb fuel d c h u pos = (fst (fst (fst r)), snd (fst r), snd r).
Proof. exact edge_loop_log_erase. Qed.
Print Assumptions c20_edge_loop_log_erase.

(* ... nor a search *)
Theorem c20_traversal_log_erase :
  forall (K V E : Type) (keqb : K -> K -> bool) (CB : Type)
         (cb : CB -> heap K V E -> edge E -> CB * heap K V E * bool) (vleb : V -> V -> bool) 
         (k : kind) (d : dir) (fuel : nat) (h : heap K V E) (c : CB) (l : list (heap K V E * edge E))
         (root : nat) (target : option K) (cyc : bool),
       let r := run_search keqb (logcb cb) vleb k d fuel h (c, l) root target cyc in
       let r0 := run_search keqb cb vleb k d fuel h c root target cyc in
       snd r0 = snd r /\
       s_heap (fst r0) = s_heap (fst r) /\
       s_vis (fst r0) = s_vis (fst r) /\
       s_tree (fst r0) = s_tree (fst r) /\ s_cb (fst r0) = fst (s_cb (fst r)).
Proof. exact run_search_log_erase. Qed.
Print Assumptions c20_traversal_log_erase.

(* ... nor an ordering *)
Theorem c20_order_log_erase :
  forall (K V E : Type) (keqb : K -> K -> bool) (CB : Type)
         (cb : CB -> heap K V E -> edge E -> CB * heap K V E * bool) (d : dir) (post : bool) 
         (fuel : nat) (h : heap K V E) (c : CB) (l : list (heap K V E * edge E)) 
         (root : nat),
       let r := order_edges keqb (logcb cb) d post fuel h (c, l) root in
       let r0 := order_edges keqb cb d post fuel h c root in
       snd r0 = snd r /\
       s_heap (fst r0) = s_heap (fst r) /\
       s_vis (fst r0) = s_vis (fst r) /\
       s_tree (fst r0) = s_tree (fst r) /\ s_cb (fst r0) = fst (s_cb (fst r)).
Proof. exact order_log_erase. Qed.
Print Assumptions c20_order_log_erase.

(* every edge a plain edge loop yields is, at the moment it is yielded, an entry of the walked node's list in the current heap, with its stored value *)
Theorem c20_edge_loop_yields_exist :
  forall (K V E CB : Type) (cb : CB -> heap K V E -> edge E -> CB * heap K V E * bool) 
         (fuel : nat) (d : dir) (c : CB) (h : heap K V E) (u pos : nat) (c' : CB)
         (l' : list (heap K V E * edge E)) (h' : heap K V E) (ok : bool),
       edge_loop (logcb cb) fuel d (c, []) h u pos = (c', l', h', ok) ->
       forall (hh : heap K V E) (e : edge E),
       In (hh, e) l' -> is_iter_edge hh d e /\ match d with
                                               | DIn => edst e = u
                                               | _ => esrc e = u
                                               end.
Proof. exact edge_loop_yields_exist. Qed.
Print Assumptions c20_edge_loop_yields_exist.

(* every edge a search hands to the closure is, at that moment, an adjacency entry of its source in the current heap *)
Theorem c20_traversal_yields_exist :
  forall (K V E : Type) (keqb : K -> K -> bool) (CB : Type)
         (cb : CB -> heap K V E -> edge E -> CB * heap K V E * bool) (vleb : V -> V -> bool) 
         (k : kind) (d : dir) (fuel : nat) (h : heap K V E) (c : CB) (root : nat) 
         (target : option K) (cyc : bool) (hh : heap K V E) (e : edge E),
       In (hh, e) (snd (s_cb (fst (run_search keqb (logcb cb) vleb k d fuel h (c, []) root target cyc)))) ->
       is_trav_edge hh d e.
Proof. exact traversal_yields_exist. Qed.
Print Assumptions c20_traversal_yields_exist.

(* same for orderings *)
Theorem c20_order_yields_exist :
  forall (K V E : Type) (keqb : K -> K -> bool) (CB : Type)
         (cb : CB -> heap K V E -> edge E -> CB * heap K V E * bool) (d : dir) (post : bool) 
         (fuel : nat) (h : heap K V E) (c : CB) (root : nat) (hh : heap K V E) (e : edge E),
       In (hh, e) (snd (s_cb (fst (order_edges keqb (logcb cb) d post fuel h (c, []) root)))) ->
       is_trav_edge hh d e.
Proof. exact order_yields_exist. Qed.
Print Assumptions c20_order_yields_exist.

(* whatever the closure does to the graph, backtracking never panics *)
Theorem c20_search_never_panics :
  forall (K V E : Type) (keqb : K -> K -> bool) (CB : Type)
         (cb : CB -> heap K V E -> edge E -> CB * heap K V E * bool) (vleb : V -> V -> bool) 
         (k : kind) (d : dir) (fuel : nat) (h : heap K V E) (c : CB) (root : nat) 
         (target : option K) (cyc : bool),
       snd (search_path keqb cb vleb k d fuel h c root target cyc) <> RPanic E.
Proof. exact search_never_panics. Qed.
Print Assumptions c20_search_never_panics.

(* sync flavours, micro-step model (Conc.v): a thread holds at most one guard and only inside the critical section it is parked at — in particular none while a closure body or loop body runs between two `next()` calls, so an operation called from there never waits for a guard of its own thread (checked on the real code by the lock-point hook at every acquisition) *)
Theorem c20_no_guard_held_between_critical_sections :
  forall (K V E : Type) (keqb : K -> K -> bool) (directed : bool) (h : heap K V E)
         (progs : list (list (call K E))) (c : gconfig K V E),
       greach keqb directed (ginit keqb directed h progs) c ->
       (forall tid : nat, length (filter (fun g : guard => g_tid g =? tid) (gc_held c)) <= 1) /\
       (forall g : guard,
        In g (gc_held c) ->
        exists (t : thread K V E) (u : nat) (w : bool) (k : heap K V E -> heap K V E * prog K V E),
          nth_error (c_threads (gc_cfg c)) (g_tid g) = Some t /\
          t_status t = TRun /\ t_cur t = Some (Step u w k) /\ g_node g = u /\ g_write g = w).
Proof. exact one_guard_per_thread. Qed.
Print Assumptions c20_no_guard_held_between_critical_sections.

(* operations executed from inside a closure keep the mirror invariant and none of them panics (directed) *)
Theorem c20_script_keeps_invariant_directed :
  forall (K V E : Type) (keqb : K -> K -> bool),
       KeqbSpec keqb ->
       forall (is_filter : bool) (pred : K -> K -> E -> bool) (script : list (nat * list (op K V E)))
         (c : cbst E) (h : heap K V E) (e : edge E),
       Inv h ->
       (forall (k : K) (i : nat) (ops : list (op K V E)) (x : V),
        In (i, ops) script -> In (ONew k x) ops -> False) ->
       Inv (snd (fst (mk_cb (step_d keqb) is_filter pred script c h e))) /\
       (forall o : outcome E,
        In o (c_log (fst (fst (mk_cb (step_d keqb) is_filter pred script c h e)))) ->
        In o (c_log c) \/ o <> Panic).
Proof. exact mk_cb_inv_d. Qed.
Print Assumptions c20_script_keeps_invariant_directed.

(* same (undirected) *)
Theorem c20_script_keeps_invariant_undirected :
  forall (K V E : Type) (keqb : K -> K -> bool),
       KeqbSpec keqb ->
       forall (is_filter : bool) (pred : K -> K -> E -> bool) (script : list (nat * list (op K V E)))
         (c : cbst E) (h : heap K V E) (e : edge E),
       Inv h ->
       (forall (k : K) (i : nat) (ops : list (op K V E)) (x : V),
        In (i, ops) script -> In (ONew k x) ops -> False) ->
       Inv (snd (fst (mk_cb (step_u keqb) is_filter pred script c h e))) /\
       (forall o : outcome E,
        In o (c_log (fst (fst (mk_cb (step_u keqb) is_filter pred script c h e)))) ->
        In o (c_log c) \/ o <> Panic).
Proof. exact mk_cb_inv_u. Qed.
Print Assumptions c20_script_keeps_invariant_undirected.

(* if the closure keeps the invariant, it holds after every search, ordering and edge loop *)
Theorem c20_invariant_after_loop :
  forall (K V E : Type) (keqb : K -> K -> bool) (CB : Type)
         (cb : CB -> heap K V E -> edge E -> CB * heap K V E * bool),
       (forall (c : CB) (h : heap K V E) (e : edge E), Inv h -> Inv (snd (fst (cb c h e)))) ->
       forall h : heap K V E,
       Inv h ->
       (forall (vleb : V -> V -> bool) (k : kind) (d : dir) (fuel : nat) (c : CB) 
          (root : nat) (target : option K) (cyc : bool),
        Inv (s_heap (fst (run_search keqb cb vleb k d fuel h c root target cyc)))) /\
       (forall (d : dir) (post : bool) (fuel : nat) (c : CB) (root : nat),
        Inv (s_heap (fst (order_edges keqb cb d post fuel h c root)))) /\
       (forall (fuel : nat) (d : dir) (c : CB) (u pos : nat), Inv (snd (fst (edge_loop cb fuel d c h u pos)))).
Proof. exact traversal_inv. Qed.
Print Assumptions c20_invariant_after_loop.

(* an edge loop ends (within len - pos steps) once the closure no longer lengthens the walked list *)
Theorem c20_edge_loop_terminates :
  forall (K V E CB : Type) (cb : CB -> heap K V E -> edge E -> CB * heap K V E * bool) 
         (d : dir) (u : nat),
       (forall (c : CB) (h : heap K V E) (e : edge E),
        length (adj_of (snd (fst (cb c h e))) d u) <= length (adj_of h d u)) ->
       forall (fuel : nat) (c : CB) (h : heap K V E) (pos : nat),
       length (adj_of h d u) - pos < fuel -> snd (edge_loop cb fuel d c h u pos) = true.
Proof. exact edge_loop_terminates. Qed.
Print Assumptions c20_edge_loop_terminates.

(* a search terminates (fuel_bound suffices) when the closure adds neither nodes nor edges — it may remove them *)
Theorem c20_traversal_terminates :
  forall (K V E : Type) (keqb : K -> K -> bool) (CB : Type)
         (cb : CB -> heap K V E -> edge E -> CB * heap K V E * bool),
       KeqbSpec keqb ->
       (forall (c : CB) (h : heap K V E) (e : edge E) (w : nat),
        nodes (snd (fst (cb c h e))) = nodes h /\
        length (outs (snd (fst (cb c h e))) w) <= length (outs h w) /\
        length (ins (snd (fst (cb c h e))) w) <= length (ins h w)) ->
       forall (vleb : V -> V -> bool) (k : kind) (d : dir) (fuel : nat) (h : heap K V E) 
         (c : CB) (root : nat) (target : option K) (cyc : bool),
       Wf h ->
       fuel_bound h <= fuel -> snd (run_search keqb cb vleb k d fuel h c root target cyc) <> OutOfFuel.
Proof. exact traversal_terminates. Qed.
Print Assumptions c20_traversal_terminates.

(* same for orderings *)
Theorem c20_order_terminates :
  forall (K V E : Type) (keqb : K -> K -> bool) (CB : Type)
         (cb : CB -> heap K V E -> edge E -> CB * heap K V E * bool),
       KeqbSpec keqb ->
       (forall (c : CB) (h : heap K V E) (e : edge E) (w : nat),
        nodes (snd (fst (cb c h e))) = nodes h /\
        length (outs (snd (fst (cb c h e))) w) <= length (outs h w) /\
        length (ins (snd (fst (cb c h e))) w) <= length (ins h w)) ->
       forall (d : dir) (post : bool) (fuel : nat) (h : heap K V E) (c : CB) (root : nat),
       Wf h -> fuel_bound h <= fuel -> snd (order_edges keqb cb d post fuel h c root) <> None.
Proof. exact order_terminates. Qed.
Print Assumptions c20_order_terminates.

(* "terminates once the closure stops adding edges", in full: the closure may lengthen the walked list as long as a budget on its own state lasts (at most g entries per unit spent); the loop then ends within len - pos + g * budget steps. Subsumes the previous statement (budget 0) *)
Theorem c20_edge_loop_terminates_once_growth_stops :
  forall (K V E CB : Type) (cb : CB -> heap K V E -> edge E -> CB * heap K V E * bool) 
         (d : dir) (u : nat) (budget : CB -> nat) (g : nat),
       (forall (c : CB) (h : heap K V E) (e : edge E),
        budget (fst (fst (cb c h e))) <= budget c /\
        length (adj_of (snd (fst (cb c h e))) d u) <=
        length (adj_of h d u) + g * (budget c - budget (fst (fst (cb c h e))))) ->
       forall (fuel : nat) (c : CB) (h : heap K V E) (pos : nat),
       length (adj_of h d u) - pos + g * budget c < fuel -> snd (edge_loop cb fuel d c h u pos) = true.
Proof. exact edge_loop_terminates_budget. Qed.
Print Assumptions c20_edge_loop_terminates_once_growth_stops.

(* the same for every search (all kinds, directions, target / cycle): the closure may add edges AND allocate nodes while its budget lasts; an explicit fuel computed from the initial heap, g, gn and the budget suffices *)
Theorem c20_traversal_terminates_once_growth_stops :
  forall (K V E : Type) (keqb : K -> K -> bool) (CB : Type)
         (cb : CB -> heap K V E -> edge E -> CB * heap K V E * bool),
       KeqbSpec keqb ->
       forall (d : dir) (budget : CB -> nat) (gn g : nat),
       (forall (c : CB) (h : heap K V E) (e : edge E),
        budget (fst (fst (cb c h e))) <= budget c /\
        (exists ext : list (K * V),
           nodes (snd (fst (cb c h e))) = nodes h ++ ext /\
           length ext <= gn * (budget c - budget (fst (fst (cb c h e))))) /\
        (forall w : nat,
         length (adj_of (snd (fst (cb c h e))) d w) <=
         length (adj_of h d w) + g * (budget c - budget (fst (fst (cb c h e)))))) ->
       forall (vleb : V -> V -> bool) (k : kind) (fuel : nat) (h : heap K V E) (c : CB) 
         (root : nat) (target : option K) (cyc : bool),
       Wf h ->
       fuel_bound h + gn * budget c + g * budget c * S (size h + gn * budget c) <= fuel ->
       snd (run_search keqb cb vleb k d fuel h c root target cyc) <> OutOfFuel.
Proof. exact traversal_terminates_budget. Qed.
Print Assumptions c20_traversal_terminates_once_growth_stops.

(* the same for the orderings *)
Theorem c20_order_terminates_once_growth_stops :
  forall (K V E : Type) (keqb : K -> K -> bool) (CB : Type)
         (cb : CB -> heap K V E -> edge E -> CB * heap K V E * bool),
       KeqbSpec keqb ->
       forall (d : dir) (budget : CB -> nat) (gn g : nat),
       (forall (c : CB) (h : heap K V E) (e : edge E),
        budget (fst (fst (cb c h e))) <= budget c /\
        (exists ext : list (K * V),
           nodes (snd (fst (cb c h e))) = nodes h ++ ext /\
           length ext <= gn * (budget c - budget (fst (fst (cb c h e))))) /\
        (forall w : nat,
         length (adj_of (snd (fst (cb c h e))) d w) <=
         length (adj_of h d w) + g * (budget c - budget (fst (fst (cb c h e)))))) ->
       forall (post : bool) (fuel : nat) (h : heap K V E) (c : CB) (root : nat),
       Wf h ->
       fuel_bound h + gn * budget c + g * budget c * S (size h + gn * budget c) <= fuel ->
       snd (order_edges keqb cb d post fuel h c root) <> None.
Proof. exact order_terminates_budget. Qed.
Print Assumptions c20_order_terminates_once_growth_stops.

(* non-vacuity: the closure add_first (duplicates the edge it is handed on its first c invocations, then stops) meets the budget hypotheses with budget = its counter, g = 2 *)
Theorem c20_growing_closure_meets_budget :
  forall (K V E : Type) (d : dir) (c : nat) (h : heap K V E) (e : edge E),
       fst (fst (add_first c h e)) <= c /\
       nodes (snd (fst (add_first c h e))) = nodes h /\
       (forall w : nat,
        length (adj_of (snd (fst (add_first c h e))) d w) <=
        length (adj_of h d w) + 2 * (c - fst (fst (add_first c h e)))).
Proof. exact add_first_budget. Qed.
Print Assumptions c20_growing_closure_meets_budget.

(* ... and it does lengthen a list, so the budget-free statements above did not cover it *)
Theorem c20_growing_closure_excluded_before :
  forall (K V E : Type) (h : heap K V E) (e : edge E),
       length (outs (snd (fst (add_first 2 h e))) (esrc e)) = S (length (outs h (esrc e))).
Proof. exact add_first_grows. Qed.
Print Assumptions c20_growing_closure_excluded_before.

(* ... and an actual run with exactly the fuel of the theorem: the search ends (Exhausted), the closure used up its budget, the degrees grew from [(1,1);(1,1)] to [(3,1);(1,3)] *)
Theorem c20_growing_closure_run :
  let r :=
         run_search Nat.eqb (add_first (E:=nat)) Nat.leb KBfs DOut (fuel_bound h2 + 2 * 2 * S (size h2)) h2 2
           0 None false in
       snd r = Exhausted /\
       s_cb (fst r) = 0 /\ degs h2 = [(1, 1); (1, 1)] /\ degs (s_heap (fst r)) = [(3, 1); (1, 3)].
Proof. exact run_add_first_bfs. Qed.
Print Assumptions c20_growing_closure_run.

