(* C11 — scc() partitions the graph into its strongly connected components.
   Model: coq/model/Scc.v (Graph::scc / scc_ordering as repaired: Kosaraju — pass 1: postorder() over outgoing edges from
   every not yet visited member in CONTAINER ORDER, filtered to unvisited targets; pass 2: nodes in decreasing finishing
   order, preorder().transpose() filtered to unassigned targets = the component). `order` is the hash map's iteration
   order: an arbitrary permutation of the member keys (OrderOK), universally quantified. SC h u v = each is reachable from
   the other over outgoing edges. Closed: every neighbour of a member is a member (the property's proviso). *)
From Gdsl.Model Require Import Spec Scc.
From Gdsl.Proofs Require Import SccProof.

(* the components are a partition of the members (Permutation of their concatenation), none is empty, two nodes of one component reach each other, and a member strongly connected to a node of a component is in that component *)
Theorem c11_scc_correct :
  forall (K V E : Type) (keqb : K -> K -> bool),
       KeqbSpec keqb ->
       forall (h : heap K V E) (g : graph K) (order : list K) (fuel : nat) (comps : list (list nat)),
       Wf h ->
       KeysInj h ->
       Mirror h ->
       GraphOK h g ->
       Closed h g ->
       OrderOK g order ->
       scc keqb fuel h g order = Some comps ->
       Permutation (concat comps) (members g) /\
       Forall (fun c : list nat => c <> []) comps /\
       (forall (c : list nat) (u v : nat), In c comps -> In u c -> In v c -> SC h u v) /\
       (forall (c : list nat) (u v : nat), In c comps -> In u c -> In v (members g) -> SC h u v -> In v c).
Proof. exact scc_correct. Qed.
Print Assumptions c11_scc_correct.

(* with fuel >= fuel_bound the out-of-fuel outcome excluded above cannot occur *)
Theorem c11_scc_terminates :
  forall (K V E : Type) (keqb : K -> K -> bool),
       KeqbSpec keqb ->
       forall (h : heap K V E) (g : graph K) (order : list K) (fuel : nat),
       Wf h ->
       KeysInj h -> GraphOK h g -> OrderOK g order -> fuel_bound h <= fuel -> scc keqb fuel h g order <> None.
Proof. exact scc_terminates. Qed.
Print Assumptions c11_scc_terminates.

(* the partition does not depend on the container's iteration order *)
Theorem c11_scc_order_independent :
  forall (K V E : Type) (keqb : K -> K -> bool),
       KeqbSpec keqb ->
       forall (h : heap K V E) (g : graph K) (o1 o2 : list K) (fuel : nat) (c1 c2 : list (list nat)),
       Wf h ->
       KeysInj h ->
       Mirror h ->
       GraphOK h g ->
       Closed h g ->
       OrderOK g o1 ->
       OrderOK g o2 ->
       scc keqb fuel h g o1 = Some c1 ->
       scc keqb fuel h g o2 = Some c2 ->
       forall u v : nat,
       In u (members g) ->
       In v (members g) ->
       (exists c : list nat, In c c1 /\ In u c /\ In v c) <->
       (exists c : list nat, In c c2 /\ In u c /\ In v c).
Proof. exact scc_order_independent. Qed.
Print Assumptions c11_scc_order_independent.


(* non-vacuity: 0<->1, 0<->2 (a component that is not a simple cycle — the graph D7 got wrong), 3 -> 0, 4 isolated *)
Example c11_nonvacuous :
  let ops : list (op nat nat nat) :=
    [ONew 10 0; ONew 11 0; ONew 12 0; ONew 13 0; ONew 14 0; OConnect 0 1 1; OConnect 1 0 2; OConnect 0 2 3; OConnect 2 0 4; OConnect 3 0 5] in
  let h := fst (run_d Nat.eqb ops) in
  let g : graph nat := [(10, 0); (11, 1); (12, 2); (13, 3); (14, 4)] in
  scc Nat.eqb 200 h g [13; 11; 14; 10; 12] = Some [[4]; [3]; [0; 1; 2]] /\
  scc Nat.eqb 200 h g [12; 14; 10; 13; 11] = Some [[3]; [4]; [2; 0; 1]].
Proof. vm_compute. auto. Qed.
