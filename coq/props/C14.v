(* C14 — Construction macros build exactly the graph they denote.
   Model: coq/model/Macro.v: all four signature forms of digraph!/ungraph!/sync_digraph!/sync_ungraph! transcribe to the same
   operation list — insert Node::new(key, value) per listed node, then for every listed edge panic naming the first of
   (source, target) not in the graph, else connect — i.e. macro_build = rebuild on the listed nodes and edges (missing node /
   edge values are `()`). Macro EXPANSION is rustc's; the correspondence compiles generated programs against the tree. *)
From Gdsl.Model Require Import Spec Serde Macro.
From Gdsl.Proofs Require Import SerdeProof MacroProof.

(* distinct listed keys, every edge key listed: the result has exactly the listed nodes with the listed values and each node's edges are exactly the listed ones in listed order; the mirror invariant holds *)
Theorem c14_macro_denotes :
  forall (K V E : Type) (keqb : K -> K -> bool),
       KeqbSpec keqb ->
       forall items : list (item K V E),
       NoDup (map (fun it : item K V E => fst (item_node it)) items) ->
       (forall (s t : K) (e : E),
        In (s, t, e) (flat_map (item_edges (E:=E)) items) ->
        In t (map (fun it : item K V E => fst (item_node it)) items)) ->
       exists (h : heap K V E) (g : graph K),
         macro_build keqb items = MOk h g /\
         Inv h /\
         GraphOK h g /\
         (forall k : K,
          g_contains keqb g k = true <-> In k (map (fun it : item K V E => fst (item_node it)) items)) /\
         (forall it : item K V E,
          In it items ->
          exists u : nat,
            g_get keqb g (fst (item_node it)) = Some u /\
            valof h u = Some (snd (item_node it)) /\
            map (fun p : nat * E => (keyof h (fst p), snd p)) (outs h u) =
            map (fun te : K * E => (Some (fst te), snd te)) (snd it)).
Proof. exact macro_denotes. Qed.
Print Assumptions c14_macro_denotes.

(* the macro panics exactly when an edge names an unlisted key, naming the first such key in listed order (source before target) — never a partial graph *)
Theorem c14_macro_panics_first_missing :
  forall (K V E : Type) (keqb : K -> K -> bool),
       KeqbSpec keqb ->
       forall (items : list (item K V E)) (k : K),
       macro_build keqb items = MPanic V E k <->
       (exists (es1 : list (K * K * E)) (s t : K) (e : E) (es2 : list (K * K * E)),
          flat_map (item_edges (E:=E)) items = es1 ++ (s, t, e) :: es2 /\
          (forall (s' t' : K) (e' : E),
           In (s', t', e') es1 ->
           In s' (map (fun it : item K V E => fst (item_node it)) items) /\
           In t' (map (fun it : item K V E => fst (item_node it)) items)) /\
          (~ In s (map (fun it : item K V E => fst (item_node it)) items) /\ k = s \/
           In s (map (fun it : item K V E => fst (item_node it)) items) /\
           ~ In t (map (fun it : item K V E => fst (item_node it)) items) /\ k = t)).
Proof. exact macro_panics_first_missing. Qed.
Print Assumptions c14_macro_panics_first_missing.


Example c14_nonvacuous :
  let items : list (item nat nat nat) := [(1, 5, [(2, 7); (2, 8); (1, 9)]); (2, 6, [(1, 3)])] in
  match macro_build Nat.eqb items with
  | MOk h g => outs h 0 = [(1, 7); (1, 8); (0, 9)] /\ outs h 1 = [(0, 3)] /\ ins h 0 = [(0, 9); (1, 3)] /\ g = [(1, 0); (2, 1)]
  | MPanic _ _ _ => False
  end /\
  macro_build Nat.eqb [(1, 5, [(2, 7); (8, 1)]); (2, 0, [(7, 3)])] = MPanic nat nat 8.
Proof. vm_compute. auto. Qed.
