(* C16 — Thread-sharing of nodes is exactly as safe as their payload types.
   The declarations (`*_decls`) are REGENERATED from /repo's source by tools/rs2coq_types.py on every run
   (coq/gen/TypesGen.v): struct fields, type aliases, which Weak is imported, and every `unsafe impl Send/Sync`
   with its where-clause.  model/AutoTraits.v computes (Send, Sync) as the greatest fixpoint of rustc's structural
   auto-trait equations.  mk_env ks kc ns nc es ec gives the (Send, Sync) bits of K, N, E. *)
From Gdsl.Model Require Import AutoTraits.
From Gdsl.Gen Require Import TypesGen.
From Gdsl.Proofs Require Import AutoTraitsProof.
Open Scope string_scope.

(* a sync node, edge or graph is Send (resp. Sync) exactly when K, N and E are all both Send and Sync *)
Theorem c16_sync_digraph_exact :
  forall ks kc ns nc es ec : bool,
    let e := mk_env ks kc ns nc es ec in
    solve sync_digraph_decls e "Node" = (all_ss e, all_ss e) /\
    solve sync_digraph_decls e "Edge" = (all_ss e, all_ss e) /\
    solve sync_digraph_decls e "Graph" = (all_ss e, all_ss e).
Proof. exact sync_digraph_exact. Qed.
Print Assumptions c16_sync_digraph_exact.

Theorem c16_sync_ungraph_exact :
  forall ks kc ns nc es ec : bool,
    let e := mk_env ks kc ns nc es ec in
    solve sync_ungraph_decls e "Node" = (all_ss e, all_ss e) /\
    solve sync_ungraph_decls e "Edge" = (all_ss e, all_ss e) /\
    solve sync_ungraph_decls e "Graph" = (all_ss e, all_ss e).
Proof. exact sync_ungraph_exact. Qed.
Print Assumptions c16_sync_ungraph_exact.

(* the plain types are never Send or Sync *)
Theorem c16_digraph_never :
  forall ks kc ns nc es ec : bool,
    let e := mk_env ks kc ns nc es ec in
    solve digraph_decls e "Node" = (false, false) /\
    solve digraph_decls e "Edge" = (false, false) /\
    solve digraph_decls e "Graph" = (false, false).
Proof. exact digraph_never. Qed.
Print Assumptions c16_digraph_never.

Theorem c16_ungraph_never :
  forall ks kc ns nc es ec : bool,
    let e := mk_env ks kc ns nc es ec in
    solve ungraph_decls e "Node" = (false, false) /\
    solve ungraph_decls e "Edge" = (false, false) /\
    solve ungraph_decls e "Graph" = (false, false).
Proof. exact ungraph_never. Qed.
Print Assumptions c16_ungraph_never.

Theorem c16_tables_are_fixpoints :
  forallb (fun ds => forallb (is_fixpoint ds) all_envs)
          [digraph_decls; sync_digraph_decls; ungraph_decls; sync_ungraph_decls] = true.
Proof. exact tables_are_fixpoints. Qed.
Print Assumptions c16_tables_are_fixpoints.

(* soundness of the `unsafe impl Send/Sync` (the "Consequently ..." clause): stripped of every explicit impl, the
   regenerated declarations yield the same (Send, Sync) by the structural rule alone, for all 64 environments *)
Theorem c16_unsafe_impls_claim_only_what_the_fields_justify :
  impls_justified sync_digraph_decls /\ impls_justified sync_ungraph_decls /\
  impls_justified digraph_decls /\ impls_justified ungraph_decls.
Proof. exact unsafe_impls_claim_only_what_the_fields_justify. Qed.
Print Assumptions c16_unsafe_impls_claim_only_what_the_fields_justify.

Theorem c16_unjustified_impl_is_rejected :
  exact_sync rc_node_with_unsafe_impls /\ ~ impls_justified rc_node_with_unsafe_impls.
Proof. exact unjustified_impl_is_rejected. Qed.
Print Assumptions c16_unjustified_impl_is_rejected.
