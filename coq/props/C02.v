(* C02 — Undirected adjacency is symmetric.
   Model: coq/model/NodeOps.v (step_u/run_u): an undirected edge created by u.connect(v,e) is an outbound
   half (v,e) at u and an inbound half (u,e) at v; Node::iter() yields adj_u h u = outs h u ++ ins h u. *)
From Gdsl.Model Require Import Spec.
From Gdsl.Proofs Require Import NodeU Glue DegreeU.

Theorem c02_history_invariant :
  forall (K V E : Type) (keqb : K -> K -> bool), KeqbSpec keqb ->
  forall ops : list (op K V E), KeysFresh ops ->
    Inv (fst (run_u keqb ops)) /\ NoPanic (snd (run_u keqb ops)).
Proof. exact run_u_inv. Qed.
Print Assumptions c02_history_invariant.

Theorem c02_every_prefix :
  forall (K V E : Type) (keqb : K -> K -> bool), KeqbSpec keqb ->
  forall a b : list (op K V E), KeysFresh (a ++ b) ->
    Inv (fst (run_u keqb a)) /\ NoPanic (snd (run_u keqb a)).
Proof. exact run_u_prefix_inv. Qed.
Print Assumptions c02_every_prefix.

(* u lists an edge to v with value e exactly as many times as v lists an edge to u with value e:
   the two value lists are permutations of each other (equal as multisets) *)
Theorem c02_symmetric_after_any_history :
  forall (K V E : Type) (keqb : K -> K -> bool), KeqbSpec keqb ->
  forall ops : list (op K V E), KeysFresh ops -> forall u v : nat,
    Permutation (to_ v (adj_u (fst (run_u keqb ops)) u)) (to_ u (adj_u (fst (run_u keqb ops)) v)).
Proof. exact run_u_symmetric. Qed.
Print Assumptions c02_symmetric_after_any_history.

Theorem c02_symmetric :
  forall (K V E : Type) (h : heap K V E), Mirror h -> forall u v : nat,
    Permutation (to_ v (adj_u h u)) (to_ u (adj_u h v)).
Proof. exact adj_symmetric. Qed.
Print Assumptions c02_symmetric.

(* is_connected gives the same answer from both ends; degree counts every incident half-edge
   (a self-loop has one outbound and one inbound half at the same node: twice) *)
Theorem c02_both_ends :
  forall (K V E : Type) (keqb : K -> K -> bool), KeqbSpec keqb ->
  forall h : heap K V E, Inv h -> forall (u v : nat) (kv ku : K),
    keyof h u = Some ku -> keyof h v = Some kv ->
    is_connected_u keqb h u kv = is_connected_u keqb h v ku /\
    degree_u h u = length (outs h u) + length (ins h u).
Proof. exact degree_u_facts. Qed.
Print Assumptions c02_both_ends.

Theorem c02_is_connected :
  forall (K V E : Type) (keqb : K -> K -> bool), KeqbSpec keqb ->
  forall (h : heap K V E) (u v : nat) (kv : K), Inv h -> u < size h -> keyof h v = Some kv ->
    (is_connected_u keqb h u kv = true <-> exists e : E, In (v, e) (adj_u h u)).
Proof. exact is_connected_u_spec. Qed.
Print Assumptions c02_is_connected.

(* "Degrees count every incident edge once per endpoint (a self-loop twice)", stated against what the OTHER nodes report
   rather than as the definition of degree(): the degree of u is the number of times all nodes, u included, list an edge
   to u (listed_to h u = sum over v < size h of |to_ u (adj_u h v)|); an edge u--v is listed once at v, a self-loop is
   listed twice at u itself (second theorem: the entries of u towards u are exactly twice its outbound self-halves). *)
Theorem c02_degree_counts_incident_edges :
  forall (K V E : Type) (h : heap K V E), Mirror h -> Wf h -> forall u : nat,
    degree_u h u = listed_to h u.
Proof. exact degree_u_counts_listings. Qed.
Print Assumptions c02_degree_counts_incident_edges.

Theorem c02_self_loop_counted_twice :
  forall (K V E : Type) (h : heap K V E), Mirror h -> forall u : nat,
    length (to_ u (adj_u h u)) = 2 * length (to_ u (outs h u)).
Proof. exact self_loops_counted_twice. Qed.
Print Assumptions c02_self_loop_counted_twice.

Example c02_nonvacuous :
  let ops : list (op nat nat nat) :=
    [ONew 5 0; ONew 3 0; OConnect 0 1 10; OConnect 1 0 11; OConnect 0 0 12; ODisconnect 1 5; OTryConnect 1 0 13] in
  NoDup (new_keys ops) /\
  adj_u (fst (run_u Nat.eqb ops)) 0 = [(0, 12); (1, 11); (0, 12)] /\ adj_u (fst (run_u Nat.eqb ops)) 1 = [(0, 11)] /\
  degree_u (fst (run_u Nat.eqb ops)) 0 = 3 /\ listed_to (fst (run_u Nat.eqb ops)) 0 = 3 /\
  snd (run_u Nat.eqb ops) = [OkU; OkU; OkU; OkU; OkU; OkE 10; ErrExists].
Proof.
  cbv zeta. split; [|vm_compute; auto].
  repeat constructor; cbn; intuition congruence.
Qed.
