(* C17 — Concurrent operations on sync nodes terminate and serialise.  EXPLICITLY PARTIAL.
   Model: coq/model/Conc.v. Every call of src/sync_*/node/mod.rs is a program of atomic critical sections `Step u w k` (lock
   node u for reading/writing, run k on the current heap, unlock); threads interleave at these steps (cstep, run_sched); a
   panic inside a critical section holding a write guard poisons that node (Abort (Some v)). gstep is the same semantics with
   explicit guards (ACQUIRE may block; BODY+RELEASE). The tie to the code: the deterministic scheduler replays the model's
   schedules on real threads and compares the lock-point sequence, results, panics, poisoned locks and the final graph.
   PROVED for every heap, every number of threads and every program: lock discipline, deadlock freedom, panic freedom of
   programs without isolate, multiset mirror at quiescence for connect/try_connect/query programs, agreement of the two
   semantics. REFUTED (c17_refuted_*, concrete schedules by vm_compute, each reproduced on the implementation): the full
   property — no panic, serialisable outcome — which fails because every mutation is two or more separately locked critical
   sections (D11). These are the known findings of KNOWN_FINDINGS.txt. Serialisability is PROVED without bounds for one
   fragment (c17_forest_connects_serialisable: single-connect threads whose connects form a forest over the adjacency lists —
   exactly the complement, within that fragment, of the eighth known-finding class) and otherwise claimed only by the two BOUNDED
   theorems (a finite space swept inside Coq by vm_compute and lifted with forallb_forall, the bound stated in the theorem):
   outside the classes of ConcClass.known_class every schedule of every two-thread single-call scenario on two nodes is
   serialisable; no theorem claims it for unbounded scenarios, and c17_refuted_cycle shows why one must not. *)
From Coq Require Import Permutation.
From Gdsl.Model Require Import Spec Conc.
From Gdsl.Model Require Import ConcClass.
From Gdsl.Proofs Require Import ConcProof ConcCycle ConcClassProof ConcForest ConcTwoCalls.

(* in every reachable configuration a thread holds at most one guard, and only for the critical section it is parked at *)
Theorem c17_one_guard_per_thread :
  forall (K V E : Type) (keqb : K -> K -> bool) (directed : bool) (h : heap K V E)
         (progs : list (list (call K E))) (c : gconfig K V E),
       greach keqb directed (ginit keqb directed h progs) c ->
       (forall tid : nat, length (filter (fun g : guard => g_tid g =? tid) (gc_held c)) <= 1) /\
       (forall g : guard,
        In g (gc_held c) ->
        exists (t : thread K V E) (u : nat) (w : bool) (k : heap K V E -> heap K V E * prog K V E),
          nth_error (c_threads (gc_cfg c)) (g_tid g) = Some t /\
          t_status t = TRun /\ t_cur t = Some (Step u w k) /\ g_node g = u /\ g_write g = w).
Proof. exact one_guard_per_thread. Qed.
Print Assumptions c17_one_guard_per_thread.

(* no reachable configuration is deadlocked: while some thread is unfinished, some thread can move *)
Theorem c17_no_deadlock :
  forall (K V E : Type) (keqb : K -> K -> bool) (directed : bool) (h : heap K V E)
         (progs : list (list (call K E))) (c : gconfig K V E),
       greach keqb directed (ginit keqb directed h progs) c -> ~ deadlocked keqb directed c.
Proof. exact no_deadlock. Qed.
Print Assumptions c17_no_deadlock.

(* programs without isolate never panic and never poison a lock, under any schedule *)
Theorem c17_no_isolate_no_panic :
  forall (K V E : Type) (keqb : K -> K -> bool) (directed : bool) (h : heap K V E)
         (progs : list (list (call K E))) (fuel : nat) (sched : list nat),
       (forall p : list (call K E), In p progs -> no_isolate K E p) ->
       let c := fst (run_sched keqb directed fuel (init_config keqb directed h progs) sched []) in
       c_poisoned c = [] /\ (forall t : thread K V E, In t (c_threads c) -> t_status t <> TPanic).
Proof. exact no_isolate_no_panic. Qed.
Print Assumptions c17_no_isolate_no_panic.

(* connect/query-only programs: once all threads are done, out- and in-lists mirror as multisets for every pair *)
Theorem c17_connect_quiescent_mirror :
  forall (K V E : Type) (keqb : K -> K -> bool) (directed : bool) (h : heap K V E)
         (progs : list (list (call K E))) (fuel : nat) (sched : list nat),
       (forall u v : nat, Permutation (to_ v (outs h u)) (to_ u (ins h v))) ->
       (forall p : list (call K E), In p progs -> only_connect_query K E p) ->
       let c := fst (run_sched keqb directed fuel (init_config keqb directed h progs) sched []) in
       all_done c = true ->
       forall u v : nat, Permutation (to_ v (outs (c_heap c) u)) (to_ u (ins (c_heap c) v)).
Proof. exact connect_quiescent_mirror. Qed.
Print Assumptions c17_connect_quiescent_mirror.

(* the same with try_connect added *)
Theorem c17_connect_try_quiescent_mirror :
  forall (K V E : Type) (keqb : K -> K -> bool) (directed : bool) (h : heap K V E)
         (progs : list (list (call K E))) (fuel : nat) (sched : list nat),
       (forall u v : nat, Permutation (to_ v (outs h u)) (to_ u (ins h v))) ->
       (forall p : list (call K E), In p progs -> ocq_ext K E p) ->
       let c := fst (run_sched keqb directed fuel (init_config keqb directed h progs) sched []) in
       all_done c = true ->
       forall u v : nat, Permutation (to_ v (outs (c_heap c) u)) (to_ u (ins (c_heap c) v)).
Proof. exact connect_try_quiescent_mirror. Qed.
Print Assumptions c17_connect_try_quiescent_mirror.

(* every configuration reachable with explicit guards is reachable by atomic critical sections *)
Theorem c17_guards_refine_atomic :
  forall (K V E : Type) (keqb : K -> K -> bool) (directed : bool) (h : heap K V E)
         (progs : list (list (call K E))) (c : gconfig K V E),
       greach keqb directed (ginit keqb directed h progs) c ->
       creach K V E keqb directed (init_config keqb directed h progs) (gc_cfg c).
Proof. exact gstep_refines_cstep. Qed.
Print Assumptions c17_guards_refine_atomic.

(* and conversely (with no guard held) *)
Theorem c17_atomic_refines_guards :
  forall (K V E : Type) (keqb : K -> K -> bool) (directed : bool) (h : heap K V E)
         (progs : list (list (call K E))) (c : config K V E),
       creach K V E keqb directed (init_config keqb directed h progs) c ->
       exists g : gconfig K V E,
         greach keqb directed (ginit keqb directed h progs) g /\ gc_cfg g = c /\ gc_held g = [].
Proof. exact cstep_refines_gstep. Qed.
Print Assumptions c17_atomic_refines_guards.

(* UNBOUNDED (every heap, any number of threads, every schedule, both flavours): threads that each make one connect, whose connects form a FOREST when seen as edges between the two adjacency lists they append to (prune .. = []): once all threads are done, every adjacency list — order included — and every result equal those of SOME sequential order of the same calls *)
Theorem c17_forest_connects_serialisable :
  forall (K V E : Type) (keqb : K -> K -> bool) (directed : bool) (h : heap K V E)
         (threads : list (list (call K E))) (fuel : nat) (sched : list nat) (n sfuel : nat),
       single_connects K E threads ->
       prune n (thread_connects threads) = [] ->
       let c := fst (run_sched keqb directed fuel (init_config keqb directed h threads) sched []) in
       all_done c = true ->
       exists p : list (call K E),
         Permutation p (concat threads) /\
         (2 * length p <= sfuel ->
          let c' := fst (run_sched keqb directed sfuel (init_config keqb directed h [p]) [] []) in
          all_done c' = true /\
          (forall w : nat, outs (c_heap c) w = outs (c_heap c') w /\ ins (c_heap c) w = ins (c_heap c') w) /\
          (forall t : thread K V E, In t (c_threads c) -> t_results t = [RO OkU]) /\
          (forall t : thread K V E, In t (c_threads c') -> t_results t = map (fun _ : call K E => RO OkU) p)).
Proof. exact forest_connects_serialisable_strong. Qed.
Print Assumptions c17_forest_connects_serialisable.

(* the forest hypothesis cannot be dropped: the four connects of c17_refuted_cycle are single connects, do not prune, and no sequential order reproduces the lists their schedule ends in *)
Theorem c17_forest_hypothesis_needed :
  single_connects nat nat cyc_progs /\
       prune (length (thread_connects cyc_progs)) (thread_connects cyc_progs) = thread_connects cyc_progs /\
       thread_connects cyc_progs <> [] /\
       (let c := fst (run_sched Nat.eqb true 100 (init_config Nat.eqb true heap2 cyc_progs) cyc_sched []) in
        all_done c = true /\
        (forall p : list (call nat nat),
         Permutation p (concat cyc_progs) ->
         let c' := fst (run_sched Nat.eqb true (S (4 * length p)) (init_config Nat.eqb true heap2 [p]) [] [])
           in
         ~ (forall w : nat, outs (c_heap c) w = outs (c_heap c') w /\ ins (c_heap c) w = ins (c_heap c') w))).
Proof. exact forest_hypothesis_needed. Qed.
Print Assumptions c17_forest_hypothesis_needed.

(* BOUNDED (finite space, the bound is in the statement; not the unbounded property): every scenario of the space small_scenarios (2 nodes, every initial edge list of length <= 2, two threads with one call each out of all 28/24 calls) that is outside the known-finding classes: every maximal schedule ends with no panic, no poisoned lock, all threads done, and the outcome (results, final lists) of a serial schedule *)
Theorem c17_small_outside_classes_serialisable :
  forall (directed : bool) (h : heap nat nat nat) (threads : list (list (call nat nat)))
         (sched : list nat),
       In (h, threads) (small_scenarios directed) ->
       known_class Nat.eqb directed h threads = None ->
       let c0 := init_config Nat.eqb directed h threads in
       In sched (explore Nat.eqb directed 200 c0 []) ->
       no_panic (final Nat.eqb directed 200 c0 sched) = true /\
       all_done (final Nat.eqb directed 200 c0 sched) = true /\
       (exists s : list nat,
          In s (explore Nat.eqb directed 200 c0 []) /\
          serial_from Nat.eqb directed c0 None false s = true /\
          outcome_eqb Nat.eqb (final Nat.eqb directed 200 c0 s) (final Nat.eqb directed 200 c0 sched) = true).
Proof. exact c17_small_outside_classes_serialisable. Qed.
Print Assumptions c17_small_outside_classes_serialisable.

(* BOUNDED: the same decision for the directed flavour with initial edge lists of length <= 3 (66640 scenarios) *)
Theorem c17_len3_directed_outside_classes_good :
  forallb (outside_good true) (scenarios3 true) = true.
Proof. exact c17_len3_directed_outside_classes_good. Qed.
Print Assumptions c17_len3_directed_outside_classes_good.

(* BOUNDED, program order: thread 0 makes TWO calls, thread 1 one, all calls, 5 heaps (109760 directed / 69120 undirected scenarios; 31470 / 13600 outside the classes): every maximal schedule ends without panic, all done, with the outcome of a serial MAXIMAL schedule — one that runs each thread's calls in its own order *)
Theorem c17_two_calls_outside_classes_serialisable :
  forall (directed : bool) (h : heap nat nat nat) (a1 a2 b : call nat nat) (sched : list nat),
       In h (small_heaps1 directed) ->
       In a1 (small_calls directed) ->
       In a2 (small_calls directed) ->
       In b (small_calls directed) ->
       known_class Nat.eqb directed h [[a1; a2]; [b]] = None ->
       let c0 := init_config Nat.eqb directed h [[a1; a2]; [b]] in
       In sched (explore Nat.eqb directed 200 c0 []) ->
       no_panic (final Nat.eqb directed 200 c0 sched) = true /\
       all_done (final Nat.eqb directed 200 c0 sched) = true /\
       (exists s : list nat,
          In s (explore Nat.eqb directed 200 c0 []) /\
          serial_from Nat.eqb directed c0 None false s = true /\
          outcome_eqb Nat.eqb (final Nat.eqb directed 200 c0 s) (final Nat.eqb directed 200 c0 sched) = true).
Proof. exact c17_two_calls_outside_classes_serialisable. Qed.
Print Assumptions c17_two_calls_outside_classes_serialisable.

(* REFUTATION: isolate || connect panics and poisons a lock *)
Theorem c17_refuted_panic :
  exists (h : heap nat nat nat) (progs : list (list (call nat nat))) (sched : list nat),
         let c := run_n true h progs sched in
         (exists t : thread nat nat nat, In t (c_threads c) /\ t_status t = TPanic) /\ c_poisoned c <> [].
Proof. exact c17_refuted_panic. Qed.
Print Assumptions c17_refuted_panic.

(* REFUTATION: connect || disconnect leaves a half-edge at quiescence and disconnect reports EdgeNotFound *)
Theorem c17_refuted_half_edge :
  exists (h : heap nat nat nat) (progs : list (list (call nat nat))) (sched : list nat),
         let c := run_n true h progs sched in
         all_done c = true /\
         ~ Permutation (to_ 1 (outs (c_heap c) 0)) (to_ 0 (ins (c_heap c) 1)) /\
         (exists t : thread nat nat nat, nth_error (c_threads c) 1 = Some t /\ t_results t = [RO ErrNotFound]).
Proof. exact c17_refuted_half_edge. Qed.
Print Assumptions c17_refuted_half_edge.

(* REFUTATION: two connects of one pair: outgoing and incoming order differ *)
Theorem c17_refuted_order :
  exists (h : heap nat nat nat) (progs : list (list (call nat nat))) (sched : list nat),
         let c := run_n true h progs sched in
         all_done c = true /\ outs (c_heap c) 0 = [(1, 7); (1, 8)] /\ ins (c_heap c) 1 = [(0, 8); (0, 7)].
Proof. exact c17_refuted_order. Qed.
Print Assumptions c17_refuted_order.

(* REFUTATION: two try_connect of one pair both succeed *)
Theorem c17_refuted_try :
  exists (h : heap nat nat nat) (progs : list (list (call nat nat))) (sched : list nat),
         let c := run_n true h progs sched in
         all_done c = true /\
         map (t_results (E:=nat)) (c_threads c) = [[RO OkU]; [RO OkU]] /\
         outs (c_heap c) 0 = [(1, 7); (1, 8)].
Proof. exact c17_refuted_try. Qed.
Print Assumptions c17_refuted_try.

(* REFUTATION: undirected iteration concurrent with a connect yields an entry twice *)
Theorem c17_refuted_undirected_iter :
  exists (h : heap nat nat nat) (progs : list (list (call nat nat))) (sched : list nat),
         let c := run_n false h progs sched in
         all_done c = true /\
         (exists
            (t : thread nat nat nat) (l l1 : list (nat * nat * nat)) (x : nat * nat * nat) 
          (l2 l3 : list (nat * nat * nat)),
            nth_error (c_threads c) 0 = Some t /\ t_results t = [REdges l] /\ l = l1 ++ x :: l2 ++ x :: l3).
Proof. exact c17_refuted_undirected_iter. Qed.
Print Assumptions c17_refuted_undirected_iter.

(* REFUTATION: four threads, one connect each, over four pairwise shared adjacency lists: all succeed, nothing panics, and the final lists are those of NO sequential order of the four calls (all 24 permutations) *)
Theorem c17_refuted_cycle :
  let c := run_n true heap2 cyc_progs cyc_sched in
       all_done c = true /\
       no_panic c = true /\
       map (t_results (E:=nat)) (c_threads c) = [[RO OkU]; [RO OkU]; [RO OkU]; [RO OkU]] /\
       graph_of c = ([(0, 7); (1, 8)], [(1, 6); (0, 7)], [(1, 9); (0, 6)], [(0, 8); (1, 9)]) /\
       (forall p : list (call nat nat),
        Permutation cyc_calls p -> all_done (run_n true heap2 [p] []) = true /\ serial_graph p <> graph_of c).
Proof. exact c17_refuted_cycle. Qed.
Print Assumptions c17_refuted_cycle.

