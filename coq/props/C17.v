(* C17 — pipeline placeholder; replaced by the real statements *)
From Gdsl.Model Require Import Base NodeOps.
From Gdsl.Proofs Require Import NodeLemmas.

Theorem C17_placeholder_to_nil : forall (E : Type) v, to_ v (@nil (nat * E)) = [].
Proof. exact to_nil. Qed.
Print Assumptions C17_placeholder_to_nil.
