(* C09 — search_cycle returns a genuine cycle through the root iff one exists.
   Model: coq/model/Search.v, entry point search_path with cycle = true (root not pre-visited, target := the
   root's key), kinds KBfs / KPfsMin / KPfsMax (worklist machine) and KDfs (recursive machine), any direction.
   Directed: IsPath root p root with p non-empty = a path of one or more accepted stored edges from the root back
   to it; NoDup of the targets = no intermediate node twice (hence no edge occurrence twice: the root is entered by
   the last edge only). Undirected (d = DAdj): the same statement reads "a closed walk of accepted half-edges". *)
From Gdsl.Model Require Import Spec Callback.
From Gdsl.Proofs Require Import Worklist Bfs Descend SearchGlue CycleUndirected.

(* breadth-/priority-first: a returned cycle starts and ends at the root, consists of accepted stored edges joined end to start, and its targets are pairwise distinct *)
Theorem c09_cycle_sound_bfs_pfs :
  forall (K V E : Type) (keqb : K -> K -> bool),
       KeqbSpec keqb ->
       forall (CB : Type) (cb : CB -> heap K V E -> edge E -> CB * heap K V E * bool)
         (accept : edge E -> bool) (vleb : V -> V -> bool) (h : heap K V E),
       Wf h ->
       KeysInj h ->
       PureCb h cb accept ->
       forall (d : dir) (root : nat),
       root < size h ->
       forall (c0 : CB) (k : kind) (fuel : nat) (t : option K) (st : sst K V E CB) (p : list (edge E)),
       k <> KDfs ->
       search_path keqb cb vleb k d fuel h c0 root t true = (st, RPath p) ->
       IsPath h d accept root p root /\ p <> [] /\ NoDup (map (edst (E:=E)) p).
Proof. exact wlq_cycle_sound. Qed.
Print Assumptions c09_cycle_sound_bfs_pfs.

(* breadth-/priority-first: None only if no path of one or more accepted edges leads from the root back to it *)
Theorem c09_cycle_complete_bfs_pfs :
  forall (K V E : Type) (keqb : K -> K -> bool),
       KeqbSpec keqb ->
       forall (CB : Type) (cb : CB -> heap K V E -> edge E -> CB * heap K V E * bool)
         (accept : edge E -> bool) (vleb : V -> V -> bool) (h : heap K V E),
       Wf h ->
       KeysInj h ->
       PureCb h cb accept ->
       forall (d : dir) (root : nat),
       root < size h ->
       forall (c0 : CB) (k : kind) (fuel : nat) (t : option K) (st : sst K V E CB),
       k <> KDfs ->
       search_path keqb cb vleb k d fuel h c0 root t true = (st, RNone E) -> ~ ReachPlus h d accept root root.
Proof. exact wlq_cycle_complete. Qed.
Print Assumptions c09_cycle_complete_bfs_pfs.

(* depth-first: same soundness *)
Theorem c09_cycle_sound_dfs :
  forall (K V E : Type) (keqb : K -> K -> bool),
       KeqbSpec keqb ->
       forall (CB : Type) (cb : CB -> heap K V E -> edge E -> CB * heap K V E * bool)
         (accept : edge E -> bool) (vleb : V -> V -> bool) (h : heap K V E),
       Wf h ->
       KeysInj h ->
       PureCb h cb accept ->
       forall (d : dir) (root : nat),
       root < size h ->
       forall (c0 : CB) (fuel : nat) (t : option K) (st : sst K V E CB) (p : list (edge E)),
       search_path keqb cb vleb KDfs d fuel h c0 root t true = (st, RPath p) ->
       IsPath h d accept root p root /\ p <> [] /\ NoDup (map (edst (E:=E)) p).
Proof. exact dfs_cycle_sound. Qed.
Print Assumptions c09_cycle_sound_dfs.

(* depth-first: same completeness *)
Theorem c09_cycle_complete_dfs :
  forall (K V E : Type) (keqb : K -> K -> bool),
       KeqbSpec keqb ->
       forall (CB : Type) (cb : CB -> heap K V E -> edge E -> CB * heap K V E * bool)
         (accept : edge E -> bool) (vleb : V -> V -> bool) (h : heap K V E),
       Wf h ->
       KeysInj h ->
       PureCb h cb accept ->
       forall (d : dir) (root : nat),
       root < size h ->
       forall (c0 : CB) (fuel : nat) (t : option K) (st : sst K V E CB),
       search_path keqb cb vleb KDfs d fuel h c0 root t true = (st, RNone E) ->
       ~ ReachPlus h d accept root root.
Proof. exact dfs_cycle_complete. Qed.
Print Assumptions c09_cycle_complete_dfs.

(* the breadth-first cycle has the fewest possible edges *)
Theorem c09_bfs_cycle_shortest :
  forall (K V E : Type) (keqb : K -> K -> bool),
       KeqbSpec keqb ->
       forall (CB : Type) (cb : CB -> heap K V E -> edge E -> CB * heap K V E * bool)
         (accept : edge E -> bool) (vleb : V -> V -> bool) (h : heap K V E),
       Wf h ->
       KeysInj h ->
       PureCb h cb accept ->
       forall (d : dir) (root : nat),
       root < size h ->
       forall (c0 : CB) (fuel : nat) (t : option K) (st : sst K V E CB) (p : list (edge E)),
       search_path keqb cb vleb KBfs d fuel h c0 root t true = (st, RPath p) ->
       forall q : list (edge E), q <> [] -> IsPath h d accept root q root -> length p <= length q.
Proof. exact bfs_cycle_shortest. Qed.
Print Assumptions c09_bfs_cycle_shortest.

(* never the unwrap() panic of backtrack_edge_tree *)
Theorem c09_no_panic_bfs_pfs :
  forall (K V E : Type) (keqb : K -> K -> bool),
       KeqbSpec keqb ->
       forall (CB : Type) (cb : CB -> heap K V E -> edge E -> CB * heap K V E * bool)
         (accept : edge E -> bool) (vleb : V -> V -> bool) (h : heap K V E),
       Wf h ->
       KeysInj h ->
       PureCb h cb accept ->
       forall (d : dir) (root : nat),
       root < size h ->
       forall (c0 : CB) (k : kind) (fuel : nat) (t : option K) (cyc : bool),
       k <> KDfs -> snd (search_path keqb cb vleb k d fuel h c0 root t cyc) <> RPanic E.
Proof. exact wlq_no_panic. Qed.
Print Assumptions c09_no_panic_bfs_pfs.

(* fuel_bound suffices, also in cycle mode (cyc = true): the search terminates *)
Theorem c09_terminates_bfs_pfs :
  forall (K V E : Type) (keqb : K -> K -> bool),
       KeqbSpec keqb ->
       forall (CB : Type) (cb : CB -> heap K V E -> edge E -> CB * heap K V E * bool)
         (accept : edge E -> bool) (vleb : V -> V -> bool) (h : heap K V E),
       Wf h ->
       KeysInj h ->
       PureCb h cb accept ->
       forall (d : dir) (root : nat),
       root < size h ->
       forall (c0 : CB) (k : kind) (fuel : nat) (t : option K) (cyc : bool),
       k <> KDfs ->
       fuel_bound h <= fuel ->
       snd (search_path keqb cb vleb k d fuel h c0 root t cyc) <> RFuel E /\
       snd (search_find keqb cb vleb k d fuel h c0 root t) <> RFuel E.
Proof. exact wlq_terminates. Qed.
Print Assumptions c09_terminates_bfs_pfs.

(* depth-first: same *)
Theorem c09_terminates_dfs :
  forall (K V E : Type) (keqb : K -> K -> bool),
       KeqbSpec keqb ->
       forall (CB : Type) (cb : CB -> heap K V E -> edge E -> CB * heap K V E * bool)
         (accept : edge E -> bool) (vleb : V -> V -> bool) (h : heap K V E),
       Wf h ->
       KeysInj h ->
       PureCb h cb accept ->
       forall (d : dir) (root : nat),
       root < size h ->
       forall (c0 : CB) (fuel : nat) (t : option K) (cyc post : bool),
       fuel_bound h <= fuel ->
       snd (search_path keqb cb vleb KDfs d fuel h c0 root t cyc) <> RFuel E /\
       snd (search_find keqb cb vleb KDfs d fuel h c0 root t) <> RFuel E /\
       snd (order_edges keqb cb d post fuel h c0 root) <> None /\
       snd (order_nodes keqb cb d post fuel h c0 root) <> None.
Proof. exact dfs_terminates. Qed.
Print Assumptions c09_terminates_dfs.

(* undirected, without a filter, on a graph whose half-edges are mirrored (C02): search_cycle of every kind returns a cycle exactly when the root has an incident edge *)
Theorem c09_undirected_cycle_iff_incident :
  forall (K V E : Type) (keqb : K -> K -> bool) (CB : Type)
         (cb : CB -> heap K V E -> edge E -> CB * heap K V E * bool) (vleb : V -> V -> bool),
       KeqbSpec keqb ->
       forall (h : heap K V E) (root : nat) (k : kind) (fuel : nat) (c0 : CB) (t : option K),
       Wf h ->
       KeysInj h ->
       Mirror h ->
       PureCb h cb (accept_all (E:=E)) ->
       root < size h ->
       fuel_bound h <= fuel ->
       (exists p : list (edge E), snd (search_path keqb cb vleb k DAdj fuel h c0 root t true) = RPath p) <->
       adj_of h DAdj root <> [].
Proof. exact undirected_cycle_iff_incident. Qed.
Print Assumptions c09_undirected_cycle_iff_incident.

(* never the unwrap() panic of backtrack_edge_tree (depth-first) *)
Theorem c09_no_panic_dfs :
  forall (K V E : Type) (keqb : K -> K -> bool),
       KeqbSpec keqb ->
       forall (CB : Type) (cb : CB -> heap K V E -> edge E -> CB * heap K V E * bool)
         (accept : edge E -> bool) (vleb : V -> V -> bool) (h : heap K V E),
       Wf h ->
       KeysInj h ->
       PureCb h cb accept ->
       forall (d : dir) (root : nat),
       root < size h ->
       forall (c0 : CB) (fuel : nat) (t : option K) (cyc : bool),
       snd (search_path keqb cb vleb KDfs d fuel h c0 root t cyc) <> RPanic E.
Proof. exact dfs_no_panic. Qed.
Print Assumptions c09_no_panic_dfs.


(* non-vacuity, including the closing self-loop that used to be returned twice (D3) *)
Example c09_nonvacuous :
  let ops : list (op nat nat nat) :=
    [ONew 0 0; ONew 1 0; ONew 2 0; OConnect 0 1 10; OConnect 0 0 11; OConnect 1 2 12; OConnect 2 0 13] in
  let h := fst (run_d Nat.eqb ops) in
  let cb := (fun (c : unit) h' (_ : edge nat) => (c, h', true)) in
  snd (search_path Nat.eqb cb Nat.leb KBfs DOut 100 h tt 0 None true) = RPath [(0, 0, 11)] /\
  snd (search_path Nat.eqb cb Nat.leb KDfs DOut 100 h tt 0 None true) = RPath [(0, 1, 10); (1, 2, 12); (2, 0, 13)] /\
  snd (search_path Nat.eqb cb Nat.leb KBfs DOut 100 h tt 1 None true) = RPath [(1, 2, 12); (2, 0, 13); (0, 1, 10)].
Proof. vm_compute. auto. Qed.
