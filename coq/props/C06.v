(* C06 — Priority-first search expands nodes in priority order.
   Model: coq/model/Search.v: the worklist machine run with an exact functional transcription of Rust's
   std::collections::BinaryHeap (sift_up / sift_down_to_bottom, `<=` of Node resp. Reverse<Node>), kinds KPfsMin / KPfsMax.
   vleb is the node-value type's `<=` (a total preorder, as Rust's Ord guarantees). wl_loop_log is wl_loop instrumented
   to return, for every pop, (popped node, queue right after the pop, tree at that moment); wl_loop_log_erase shows it is
   the same machine. The heap property of the transcription (HeapOrd) is PROVED (coq/proofs/StdHeap.v), not monitored. *)
From Gdsl.Model Require Import Spec Callback SearchFind.
From Gdsl.Proofs Require Import StdHeap Worklist Pfs SearchGlue SearchFindProof.

(* the instrumented loop returns exactly what wl_loop returns *)
Theorem c06_instrumentation_is_erasable :
  forall (K V E : Type) (keqb : K -> K -> bool) (CB : Type)
         (cb : CB -> heap K V E -> edge E -> CB * heap K V E * bool) (Q : Type) (qpush : Q -> nat -> Q)
         (qpop : Q -> option (nat * Q)) (d : dir) (target : option K) (fuel : nat) 
         (st : sst K V E CB) (q : Q),
       fst (wl_loop_log keqb cb qpush qpop d target fuel st q) =
       wl_loop keqb cb qpush qpop d target fuel st q.
Proof. exact wl_loop_log_erase. Qed.
Print Assumptions c06_instrumentation_is_erasable.

(* run_search for the pfs kinds is the (erased) instrumented run the next theorems speak about *)
Theorem c06_run_is_logged_run :
  forall (K V E : Type) (keqb : K -> K -> bool) (vleb : V -> V -> bool) (CB : Type)
         (cb : CB -> heap K V E -> edge E -> CB * heap K V E * bool) (h : heap K V E) 
         (d : dir) (root : nat) (c0 : CB) (maxmode : bool) (t : option K) (cyc : bool) 
         (fuel : nat),
       run_search keqb cb vleb (if maxmode then KPfsMax else KPfsMin) d fuel h c0 root t cyc =
       fst
         (wl_loop_log keqb cb (heap_push (pq_le vleb h maxmode)) (heap_pop (pq_le vleb h maxmode)) d
            (if cyc then keyof h root else t) fuel (init_st h c0 root (negb cyc)) [root]).
Proof. exact pfs_run_log. Qed.
Print Assumptions c06_run_is_logged_run.

(* whenever a node u is popped for expansion, every node still in the frontier has a value >= u's (min) / <= u's (max) *)
Theorem c06_pop_minimal :
  forall (K V E : Type) (keqb : K -> K -> bool),
       KeqbSpec keqb ->
       forall vleb : V -> V -> bool,
       (forall a b : V, vleb a b = true \/ vleb b a = true) /\
       (forall a b c : V, vleb a b = true -> vleb b c = true -> vleb a c = true) ->
       forall (CB : Type) (cb : CB -> heap K V E -> edge E -> CB * heap K V E * bool)
         (accept : edge E -> bool) (h : heap K V E),
       Wf h ->
       KeysInj h ->
       PureCb h cb accept ->
       forall (d : dir) (root : nat),
       root < size h ->
       forall (c0 : CB) (maxmode : bool) (t : option K) (cyc : bool) (fuel : nat)
         (res : sst K V E CB * status) (log : list (log_entry E (list nat))) (u : nat) 
         (q' : list nat) (tree : list (edge E)),
       wl_loop_log keqb cb (heap_push (pq_le vleb h maxmode)) (heap_pop (pq_le vleb h maxmode)) d
         (if cyc then keyof h root else t) fuel (init_st h c0 root (negb cyc)) [root] = (
       res, log) ->
       In (u, q', tree) log ->
       forall y : nat,
       In y q' ->
       (if maxmode then node_le vleb h y u else node_le vleb h u y) = true /\
       (exists vu vy : V,
          valof h u = Some vu /\ valof h y = Some vy /\ (if maxmode then vleb vy vu else vleb vu vy) = true).
Proof. exact pfs_pop_minimal_vals. Qed.
Print Assumptions c06_pop_minimal.

(* the frontier (popped node + queue) is exactly the set of discovered (root or target of a recorded edge) and not yet expanded nodes, without duplicates *)
Theorem c06_frontier_is_discovered_unexpanded :
  forall (K V E : Type) (keqb : K -> K -> bool),
       KeqbSpec keqb ->
       forall vleb : V -> V -> bool,
       (forall a b : V, vleb a b = true \/ vleb b a = true) /\
       (forall a b c : V, vleb a b = true -> vleb b c = true -> vleb a c = true) ->
       forall (CB : Type) (cb : CB -> heap K V E -> edge E -> CB * heap K V E * bool)
         (accept : edge E -> bool) (h : heap K V E),
       Wf h ->
       KeysInj h ->
       PureCb h cb accept ->
       forall (d : dir) (root : nat),
       root < size h ->
       forall (c0 : CB) (maxmode : bool) (t : option K) (cyc : bool) (fuel : nat)
         (res : sst K V E CB * status) (log : list (log_entry E (list nat)))
         (l1 : list (nat * list nat * list (edge E))) (u : nat) (q' : list nat) (tree : list (edge E))
         (l2 : list (nat * list nat * list (edge E))),
       wl_loop_log keqb cb (heap_push (pq_le vleb h maxmode)) (heap_pop (pq_le vleb h maxmode)) d
         (if cyc then keyof h root else t) fuel (init_st h c0 root (negb cyc)) [root] = (
       res, log) ->
       log = l1 ++ (u, q', tree) :: l2 ->
       NoDup (u :: q') /\
       NoDup (root :: map (edst (E:=E)) tree) /\
       (forall y : nat,
        In y (u :: q') <->
        (y = root \/ In y (map (edst (E:=E)) tree)) /\ ~ In y (map (e_node (Q:=list nat)) l1)) /\
       Permutation (u :: q')
         (filter (fun y : nat => negb (existsb (Nat.eqb y) (map (e_node (Q:=list nat)) l1)))
            (root :: map (edst (E:=E)) tree)).
Proof. exact frontier_is_discovered_unexpanded. Qed.
Print Assumptions c06_frontier_is_discovered_unexpanded.

(* C06 read literally: no discovered, not yet expanded node has a strictly smaller (strictly larger for max) value than the node being expanded *)
Theorem c06_no_strictly_better_waiting :
  forall (K V E : Type) (keqb : K -> K -> bool),
       KeqbSpec keqb ->
       forall vleb : V -> V -> bool,
       (forall a b : V, vleb a b = true \/ vleb b a = true) /\
       (forall a b c : V, vleb a b = true -> vleb b c = true -> vleb a c = true) ->
       forall (CB : Type) (cb : CB -> heap K V E -> edge E -> CB * heap K V E * bool)
         (accept : edge E -> bool) (h : heap K V E),
       Wf h ->
       KeysInj h ->
       PureCb h cb accept ->
       forall (d : dir) (root : nat),
       root < size h ->
       forall (c0 : CB) (maxmode : bool) (t : option K) (cyc : bool) (fuel : nat)
         (res : sst K V E CB * status) (log : list (log_entry E (list nat)))
         (l1 : list (nat * list nat * list (edge E))) (u : nat) (q' : list nat) (tree : list (edge E))
         (l2 : list (nat * list nat * list (edge E))),
       wl_loop_log keqb cb (heap_push (pq_le vleb h maxmode)) (heap_pop (pq_le vleb h maxmode)) d
         (if cyc then keyof h root else t) fuel (init_st h c0 root (negb cyc)) [root] = (
       res, log) ->
       log = l1 ++ (u, q', tree) :: l2 ->
       forall (y : nat) (vu vy : V),
       y = root \/ In y (map (edst (E:=E)) tree) ->
       ~ In y (map (e_node (Q:=list nat)) l1) ->
       valof h u = Some vu -> valof h y = Some vy -> (if maxmode then vleb vy vu else vleb vu vy) <> false.
Proof. exact pfs_no_strictly_better_waiting. Qed.
Print Assumptions c06_no_strictly_better_waiting.

(* BinaryHeap::push keeps the heap order *)
Theorem c06_heap_push_order :
  forall (le : nat -> nat -> bool) (l : list nat) (x : nat),
       TotalPre le -> HeapOrd le l -> HeapOrd le (heap_push le l x).
Proof. exact stdheap_push_ord. Qed.
Print Assumptions c06_heap_push_order.

(* BinaryHeap::pop returns a greatest element and keeps the heap order *)
Theorem c06_heap_pop_order :
  forall (le : nat -> nat -> bool) (l : list nat) (x : nat) (l' : list nat),
       TotalPre le ->
       HeapOrd le l ->
       heap_pop le l = Some (x, l') -> HeapOrd le l' /\ (forall y : nat, In y l -> le y x = true).
Proof. exact stdheap_pop_ord. Qed.
Print Assumptions c06_heap_pop_order.

(* push/pop neither lose nor invent elements (multiset specification), for every order test *)
Theorem c06_heap_is_a_queue :
  forall le : nat -> nat -> bool, QSpec (heap_push le) (heap_pop le) (fun q : list nat => q).
Proof. exact stdheap_qspec. Qed.
Print Assumptions c06_heap_is_a_queue.

(* with a target: a returned path is a chain of accepted stored edges from the root to the target *)
Theorem c06_path_sound :
  forall (K V E : Type) (keqb : K -> K -> bool),
       KeqbSpec keqb ->
       forall (vleb : V -> V -> bool) (CB : Type) (cb : CB -> heap K V E -> edge E -> CB * heap K V E * bool)
         (accept : edge E -> bool) (h : heap K V E),
       Wf h ->
       KeysInj h ->
       PureCb h cb accept ->
       forall (d : dir) (root : nat),
       root < size h ->
       forall (c0 : CB) (k : kind) (fuel : nat) (t : K) (st : sst K V E CB) (p : list (edge E)),
       k = KPfsMin \/ k = KPfsMax ->
       keyof h root <> Some t ->
       search_path keqb cb vleb k d fuel h c0 root (Some t) false = (st, RPath p) ->
       exists v : nat,
         keyof h v = Some t /\
         IsPath h d accept root p v /\
         p <> [] /\ NoDup (map (edst (E:=E)) p) /\ ~ In root (map (edst (E:=E)) p).
Proof. exact pfs_path_sound. Qed.
Print Assumptions c06_path_sound.

(* None only if the target is unreachable through accepted edges *)
Theorem c06_path_complete :
  forall (K V E : Type) (keqb : K -> K -> bool),
       KeqbSpec keqb ->
       forall (vleb : V -> V -> bool) (CB : Type) (cb : CB -> heap K V E -> edge E -> CB * heap K V E * bool)
         (accept : edge E -> bool) (h : heap K V E),
       Wf h ->
       KeysInj h ->
       PureCb h cb accept ->
       forall (d : dir) (root : nat),
       root < size h ->
       forall (c0 : CB) (k : kind) (fuel : nat) (t : K) (st : sst K V E CB),
       k = KPfsMin \/ k = KPfsMax ->
       keyof h root <> Some t ->
       search_path keqb cb vleb k d fuel h c0 root (Some t) false = (st, RNone E) ->
       forall v : nat, keyof h v = Some t -> ~ Reach h d accept root v.
Proof. exact pfs_path_complete. Qed.
Print Assumptions c06_path_complete.

(* search() — the SEPARATELY transcribed find loops of the code (model/SearchFind.v: loop_*_find / recurse_*_find; for pfs `search_path().map(last_node)`) — returns the target node exactly when search_path() returns a path, and that node is where the path ends *)
Theorem c06_search_agrees :
  forall (K V E : Type) (keqb : K -> K -> bool),
       KeqbSpec keqb ->
       forall (vleb : V -> V -> bool) (CB : Type) (cb : CB -> heap K V E -> edge E -> CB * heap K V E * bool)
         (accept : edge E -> bool) (h : heap K V E),
       Wf h ->
       KeysInj h ->
       PureCb h cb accept ->
       forall (d : dir) (root : nat),
       root < size h ->
       forall (c0 : CB) (k : kind) (fuel : nat) (t : K),
       k = KPfsMin \/ k = KPfsMax ->
       keyof h root <> Some t ->
       match snd (search_path keqb cb vleb k d fuel h c0 root (Some t) false) with
       | RNone _ => snd (search_find' keqb cb vleb k d fuel h c0 root (Some t)) = RNone E
       | RPath p =>
           exists (v : nat) (p0 : list (edge E)) (w : edge E),
             snd (search_find' keqb cb vleb k d fuel h c0 root (Some t)) = RNode E v /\
             p = p0 ++ [w] /\ edst w = v /\ keyof h v = Some t
       | RFuel _ => snd (search_find' keqb cb vleb k d fuel h c0 root (Some t)) = RFuel E
       | _ => False
       end.
Proof. exact search_find'_agrees_pfs. Qed.
Print Assumptions c06_search_agrees.

(* for EVERY callback (no purity needed), heap, root, target and fuel: the find machine ends with the same verdict, the same heap, the same callback state (hence the same closure trace) and the same visited set as the path machine *)
Theorem c06_find_loops_simulate_path_loops :
  forall (K V E : Type) (keqb : K -> K -> bool) (CB : Type)
         (cb : CB -> heap K V E -> edge E -> CB * heap K V E * bool) (vleb : V -> V -> bool) 
         (k : kind) (d : dir) (fuel : nat) (h : heap K V E) (c : CB) (root : nat) 
         (target : option K),
       let x := search_find' keqb cb vleb k d fuel h c root target in
       let y := run_search keqb cb vleb k d fuel h c root target false in
       snd x = res_of_status E (snd y) /\
       s_heap (fst x) = s_heap (fst y) /\ s_cb (fst x) = s_cb (fst y) /\ s_vis (fst x) = s_vis (fst y).
Proof. exact find_machine_agrees. Qed.
Print Assumptions c06_find_loops_simulate_path_loops.

(* fuel_bound suffices *)
Theorem c06_terminates :
  forall (K V E : Type) (keqb : K -> K -> bool),
       KeqbSpec keqb ->
       forall (vleb : V -> V -> bool) (CB : Type) (cb : CB -> heap K V E -> edge E -> CB * heap K V E * bool)
         (accept : edge E -> bool) (h : heap K V E),
       Wf h ->
       KeysInj h ->
       PureCb h cb accept ->
       forall (d : dir) (root : nat),
       root < size h ->
       forall (c0 : CB) (k : kind) (fuel : nat) (t : option K) (cyc : bool),
       k = KPfsMin \/ k = KPfsMax ->
       fuel_bound h <= fuel ->
       snd (search_path keqb cb vleb k d fuel h c0 root t cyc) <> RFuel E /\
       snd (search_find keqb cb vleb k d fuel h c0 root t) <> RFuel E.
Proof. exact pfs_terminates. Qed.
Print Assumptions c06_terminates.

(* never the unwrap() panic of backtrack_edge_tree (any worklist kind, hence the pfs kinds) *)
Theorem c06_no_panic :
  forall (K V E : Type) (keqb : K -> K -> bool),
       KeqbSpec keqb ->
       forall (CB : Type) (cb : CB -> heap K V E -> edge E -> CB * heap K V E * bool)
         (accept : edge E -> bool) (vleb : V -> V -> bool) (h : heap K V E),
       Wf h ->
       KeysInj h ->
       PureCb h cb accept ->
       forall (d : dir) (root : nat),
       root < size h ->
       forall (c0 : CB) (k : kind) (fuel : nat) (t : option K) (cyc : bool),
       k <> KDfs -> snd (search_path keqb cb vleb k d fuel h c0 root t cyc) <> RPanic E.
Proof. exact wlq_no_panic. Qed.
Print Assumptions c06_no_panic.

(* Ord / PartialOrd of nodes = comparison of their values *)
Theorem c06_node_cmp :
  forall (K V E : Type) (vcmp : V -> V -> comparison) (h : heap K V E) (a b : nat) (x y : V),
       valof h a = Some x -> valof h b = Some y -> node_cmp vcmp h a b = Some (vcmp x y).
Proof. exact node_cmp_spec. Qed.
Print Assumptions c06_node_cmp.

(* node equality = equality of keys *)
Theorem c06_node_eq :
  forall (K V E : Type) (keqb : K -> K -> bool),
       KeqbSpec keqb ->
       forall (h : heap K V E) (a b : nat) (ka kb : K),
       keyof h a = Some ka -> keyof h b = Some kb -> node_eqb keqb h a b = true <-> ka = kb.
Proof. exact node_eqb_spec. Qed.
Print Assumptions c06_node_eq.


Example c06_nonvacuous :
  let ops : list (op nat nat nat) :=
    [ONew 0 5; ONew 1 9; ONew 2 1; ONew 3 1; ONew 4 7; OConnect 0 1 10; OConnect 0 2 11; OConnect 0 3 12; OConnect 2 4 13; OConnect 3 4 14; OConnect 1 4 15] in
  let h := fst (run_d Nat.eqb ops) in
  let cb := @mk_cb nat nat nat (step_d Nat.eqb) false (fun _ _ _ => true) [] in
  map (fun e => fst (fst e)) (rev (c_trace (s_cb (fst (search_path Nat.eqb cb Nat.leb KPfsMin DOut 100 h (cb0 nat) 0 None false)))))
    = [0; 0; 0; 2; 3; 1] /\
  map (fun e => fst (fst e)) (rev (c_trace (s_cb (fst (search_path Nat.eqb cb Nat.leb KPfsMax DOut 100 h (cb0 nat) 0 None false)))))
    = [0; 0; 0; 1; 3; 2].
Proof. vm_compute. auto. Qed.
