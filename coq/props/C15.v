(* C15 — Sync flavours are drop-in replacements in single-threaded code.
   The model has ONE set of definitions per flavour class (directed / undirected): nothing in coq/model distinguishes plain
   from sync. Every correspondence run compares digraph AND sync_digraph (resp. ungraph AND sync_ungraph) with that single
   model, observation by observation; c15_twins_agree is the (trivial) step from there to the property. The theorems of all
   other properties therefore hold for both twins alike. C15's own check runs the union of all case families on both twins,
   diffs the twins directly, and compiles one program text against each twin. The only model content specific to C15 is the
   comparison traits of Edge, where the twins used to differ (D12). *)
From Gdsl.Model Require Import Spec EdgeCmp.
From Gdsl.Proofs Require Import TwinProof.

(* two implementations that both agree with the model on every case agree with each other *)
Theorem c15_twins_agree :
  forall (A B : Type) (plain sync model : A -> B),
       (forall c : A, plain c = model c) ->
       (forall c : A, sync c = model c) -> forall c : A, plain c = sync c.
Proof. exact twins_agree. Qed.
Print Assumptions c15_twins_agree.

(* directed Edge equality is equality of both endpoints by key; the value is not compared *)
Theorem c15_edge_eq_directed :
  forall (K V E : Type) (keqb : K -> K -> bool),
       KeqbSpec keqb ->
       forall (h : heap K V E) (a b : edge E) (ks kt ks' kt' : K),
       keyof h (esrc a) = Some ks ->
       keyof h (edst a) = Some kt ->
       keyof h (esrc b) = Some ks' ->
       keyof h (edst b) = Some kt' -> edge_eqb_d keqb h a b = true <-> ks = ks' /\ kt = kt'.
Proof. exact edge_eqb_d_spec. Qed.
Print Assumptions c15_edge_eq_directed.

(* Edge ordering is the ordering of the edge values (all flavours) *)
Theorem c15_edge_order :
  forall (E : Type) (ecmp : E -> E -> comparison) (a b : edge E),
       edge_cmp ecmp a b = ecmp (eval a) (eval b).
Proof. exact edge_cmp_spec. Qed.
Print Assumptions c15_edge_order.

(* Edge::reverse swaps the endpoints, keeps the value, and is an involution *)
Theorem c15_edge_reverse :
  forall (E : Type) (a : edge E),
       esrc (edge_reverse a) = edst a /\
       edst (edge_reverse a) = esrc a /\ eval (edge_reverse a) = eval a /\ edge_reverse (edge_reverse a) = a.
Proof. exact edge_reverse_spec. Qed.
Print Assumptions c15_edge_reverse.

(* undirected Edge equality is equality of the edge values *)
Theorem c15_edge_eq_undirected :
  forall (E : Type) (ecmp : E -> E -> comparison) (a b : edge E),
       edge_eqb_u ecmp a b = true <-> ecmp (eval a) (eval b) = Eq.
Proof. exact edge_eqb_u_spec. Qed.
Print Assumptions c15_edge_eq_undirected.

