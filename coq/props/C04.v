(* C04 — Breadth-first search finds a shortest path iff one exists.
   Model: coq/model/Search.v (`wl_scan`/`wl_loop` with the FIFO queue, `backtrack`; entry points search_path /
   search_find with kind KBfs; any direction d: DOut, DIn (= transpose()), DAdj (undirected)). `accept` is an
   arbitrary pure filter; PureCb covers Method::Empty, ForEach(recorder) and Filter(pure f).
   The generic theorems are stated for every worklist kind k <> KDfs (bfs and both pfs modes); the queue
   hypothesis of coq/proofs/Worklist.v is discharged by StdHeap.stdheap_qspec in SearchGlue.v. *)
From Gdsl.Model Require Import Spec Callback PathApi SearchFind.
From Gdsl.Proofs Require Import NodeD Glue Worklist Bfs SearchGlue PathApiProof SearchFindProof.

(* a returned path starts at the root, ends at the node carrying the target key, is made of accepted stored edges (with their stored values) joined end to start *)
Theorem c04_path_sound :
  forall (K V E : Type) (keqb : K -> K -> bool),
       KeqbSpec keqb ->
       forall (CB : Type) (cb : CB -> heap K V E -> edge E -> CB * heap K V E * bool)
         (accept : edge E -> bool) (vleb : V -> V -> bool) (h : heap K V E),
       Wf h ->
       KeysInj h ->
       PureCb h cb accept ->
       forall (d : dir) (root : nat),
       root < size h ->
       forall (c0 : CB) (k : kind) (fuel : nat) (t : K) (st : sst K V E CB) (p : list (edge E)),
       k <> KDfs ->
       keyof h root <> Some t ->
       search_path keqb cb vleb k d fuel h c0 root (Some t) false = (st, RPath p) ->
       exists v : nat,
         keyof h v = Some t /\
         IsPath h d accept root p v /\
         p <> [] /\ NoDup (map (edst (E:=E)) p) /\ ~ In root (map (edst (E:=E)) p).
Proof. exact wlq_path_sound. Qed.
Print Assumptions c04_path_sound.

(* None only if no node with the target key is reachable through accepted edges *)
Theorem c04_path_complete :
  forall (K V E : Type) (keqb : K -> K -> bool),
       KeqbSpec keqb ->
       forall (CB : Type) (cb : CB -> heap K V E -> edge E -> CB * heap K V E * bool)
         (accept : edge E -> bool) (vleb : V -> V -> bool) (h : heap K V E),
       Wf h ->
       KeysInj h ->
       PureCb h cb accept ->
       forall (d : dir) (root : nat),
       root < size h ->
       forall (c0 : CB) (k : kind) (fuel : nat) (t : K) (st : sst K V E CB),
       k <> KDfs ->
       keyof h root <> Some t ->
       search_path keqb cb vleb k d fuel h c0 root (Some t) false = (st, RNone E) ->
       forall v : nat, keyof h v = Some t -> ~ Reach h d accept root v.
Proof. exact wlq_path_complete. Qed.
Print Assumptions c04_path_complete.

(* no accepted path to the target has fewer edges than the returned one *)
Theorem c04_path_shortest :
  forall (K V E : Type) (keqb : K -> K -> bool),
       KeqbSpec keqb ->
       forall (CB : Type) (cb : CB -> heap K V E -> edge E -> CB * heap K V E * bool)
         (accept : edge E -> bool) (vleb : V -> V -> bool) (h : heap K V E),
       Wf h ->
       KeysInj h ->
       PureCb h cb accept ->
       forall (d : dir) (root : nat),
       root < size h ->
       forall (c0 : CB) (fuel : nat) (t : K) (st : sst K V E CB) (p : list (edge E)),
       keyof h root <> Some t ->
       search_path keqb cb vleb KBfs d fuel h c0 root (Some t) false = (st, RPath p) ->
       forall (v : nat) (q : list (edge E)),
       keyof h v = Some t -> IsPath h d accept root q v -> length p <= length q.
Proof. exact bfs_path_shortest. Qed.
Print Assumptions c04_path_shortest.

(* search() — the SEPARATELY transcribed find loops of the code (model/SearchFind.v: loop_*_find / recurse_*_find; for pfs `search_path().map(last_node)`) — returns the target node exactly when search_path() returns a path, and that node is where the path ends *)
Theorem c04_search_agrees :
  forall (K V E : Type) (keqb : K -> K -> bool),
       KeqbSpec keqb ->
       forall (CB : Type) (cb : CB -> heap K V E -> edge E -> CB * heap K V E * bool)
         (accept : edge E -> bool) (vleb : V -> V -> bool) (h : heap K V E),
       Wf h ->
       KeysInj h ->
       PureCb h cb accept ->
       forall (d : dir) (root : nat),
       root < size h ->
       forall (c0 : CB) (k : kind) (fuel : nat) (t : K),
       k <> KDfs ->
       keyof h root <> Some t ->
       match snd (search_path keqb cb vleb k d fuel h c0 root (Some t) false) with
       | RNone _ => snd (search_find' keqb cb vleb k d fuel h c0 root (Some t)) = RNone E
       | RPath p =>
           exists (v : nat) (p0 : list (edge E)) (w : edge E),
             snd (search_find' keqb cb vleb k d fuel h c0 root (Some t)) = RNode E v /\
             p = p0 ++ [w] /\ edst w = v /\ keyof h v = Some t
       | RFuel _ => snd (search_find' keqb cb vleb k d fuel h c0 root (Some t)) = RFuel E
       | _ => False
       end.
Proof. exact search_find'_agrees_bfs_pfs. Qed.
Print Assumptions c04_search_agrees.

(* for EVERY callback (no purity needed), heap, root, target and fuel: the find machine ends with the same verdict, the same heap, the same callback state (hence the same closure trace) and the same visited set as the path machine *)
Theorem c04_find_loops_simulate_path_loops :
  forall (K V E : Type) (keqb : K -> K -> bool) (CB : Type)
         (cb : CB -> heap K V E -> edge E -> CB * heap K V E * bool) (vleb : V -> V -> bool) 
         (k : kind) (d : dir) (fuel : nat) (h : heap K V E) (c : CB) (root : nat) 
         (target : option K),
       let x := search_find' keqb cb vleb k d fuel h c root target in
       let y := run_search keqb cb vleb k d fuel h c root target false in
       snd x = res_of_status E (snd y) /\
       s_heap (fst x) = s_heap (fst y) /\ s_cb (fst x) = s_cb (fst y) /\ s_vis (fst x) = s_vis (fst y).
Proof. exact find_machine_agrees. Qed.
Print Assumptions c04_find_loops_simulate_path_loops.

(* fuel_bound suffices: the out-of-fuel outcome cannot occur *)
Theorem c04_terminates :
  forall (K V E : Type) (keqb : K -> K -> bool),
       KeqbSpec keqb ->
       forall (CB : Type) (cb : CB -> heap K V E -> edge E -> CB * heap K V E * bool)
         (accept : edge E -> bool) (vleb : V -> V -> bool) (h : heap K V E),
       Wf h ->
       KeysInj h ->
       PureCb h cb accept ->
       forall (d : dir) (root : nat),
       root < size h ->
       forall (c0 : CB) (k : kind) (fuel : nat) (t : option K) (cyc : bool),
       k <> KDfs ->
       fuel_bound h <= fuel ->
       snd (search_path keqb cb vleb k d fuel h c0 root t cyc) <> RFuel E /\
       snd (search_find keqb cb vleb k d fuel h c0 root t) <> RFuel E.
Proof. exact wlq_terminates. Qed.
Print Assumptions c04_terminates.

(* backtracking never hits the unwrap() on an empty tree *)
Theorem c04_no_panic :
  forall (K V E : Type) (keqb : K -> K -> bool),
       KeqbSpec keqb ->
       forall (CB : Type) (cb : CB -> heap K V E -> edge E -> CB * heap K V E * bool)
         (accept : edge E -> bool) (vleb : V -> V -> bool) (h : heap K V E),
       Wf h ->
       KeysInj h ->
       PureCb h cb accept ->
       forall (d : dir) (root : nat),
       root < size h ->
       forall (c0 : CB) (k : kind) (fuel : nat) (t : option K) (cyc : bool),
       k <> KDfs -> snd (search_path keqb cb vleb k d fuel h c0 root t cyc) <> RPanic E.
Proof. exact wlq_no_panic. Qed.
Print Assumptions c04_no_panic.

(* Path::iter_nodes / to_vec_nodes (a position-walking iterator) yields the source of the first edge followed by every edge's target *)
Theorem c04_path_iter_nodes :
  forall (E : Type) (p : list (edge E)), p_iter_nodes p = path_nodes p.
Proof. exact p_iter_nodes_spec. Qed.
Print Assumptions c04_path_iter_nodes.

(* Path::len is the number of nodes of a non-empty path *)
Theorem c04_path_len :
  forall (E : Type) (p : list (edge E)), p <> [] -> p_len p = length (p_iter_nodes p).
Proof. exact p_len_counts_nodes. Qed.
Print Assumptions c04_path_len.

(* Path::last_node is the target of the last edge (what pfs search() returns) *)
Theorem c04_path_last_node :
  forall (E : Type) (p : list (edge E)) (e : edge E), p_last_node (p ++ [e]) = Some (edst e).
Proof. exact p_last_node_is_end. Qed.
Print Assumptions c04_path_last_node.

(* Path::first_node is the node the path starts at: the source of the first edge, the first element of iter_nodes (with c04_bfs_sound: the root) *)
Theorem c04_path_first_node :
  forall (E : Type) (p : list (edge E)) (e : edge E),
       p_first_node (e :: p) = Some (esrc e) /\ hd_error (p_iter_nodes (e :: p)) = p_first_node (e :: p).
Proof. exact p_first_node_is_start. Qed.
Print Assumptions c04_path_first_node.


Example c04_nonvacuous :
  let ops : list (op nat nat nat) :=
    [ONew 0 0; ONew 1 0; ONew 2 0; ONew 3 0; OConnect 0 1 10; OConnect 0 0 11; OConnect 0 2 12; OConnect 1 2 13; OConnect 2 3 14; OConnect 2 0 15] in
  let h := fst (run_d Nat.eqb ops) in
  let cb := (fun (c : unit) h' (_ : edge nat) => (c, h', true)) in
  snd (search_path Nat.eqb cb Nat.leb KBfs DOut 100 h tt 0 (Some 3) false) = RPath [(0, 2, 12); (2, 3, 14)] /\
  snd (search_path Nat.eqb cb Nat.leb KBfs DIn 100 h tt 3 (Some 1) false) = RPath [(3, 2, 14); (2, 1, 13)] /\
  snd (search_path Nat.eqb cb Nat.leb KBfs DOut 100 h tt 3 (Some 1) false) = RNone nat.
Proof. vm_compute. auto. Qed.

(* the hypotheses shared by the theorems of C04-C10 (Wf, KeysInj, PureCb, root allocated, target not the root's key) are
   PROVED for a concrete history-built heap — Wf and KeysInj through the C01 history theorem, not by inspection — and
   c04_path_sound is APPLIED to the run (its conclusion is obtained from the theorem, not recomputed) *)
Definition ops4 : list (op nat nat nat) :=
    [ONew 0 0; ONew 1 0; ONew 2 0; ONew 3 0; OConnect 0 1 10; OConnect 0 0 11; OConnect 0 2 12; OConnect 1 2 13; OConnect 2 3 14; OConnect 2 0 15].
Lemma keqb_nat : KeqbSpec Nat.eqb. Proof. intros a b. apply Nat.eqb_eq. Qed.
Example c04_theorem_instantiated :
  let h := fst (run_d Nat.eqb ops4) in
  let cb := (fun (c : unit) (h' : heap nat nat nat) (_ : edge nat) => (c, h', true)) in
  (Wf h /\ KeysInj h /\ PureCb h cb (@accept_all nat) /\ 0 < size h /\ keyof h 0 <> Some 3) /\
  exists v, keyof h v = Some 3 /\ IsPath h DOut (@accept_all nat) 0 [(0, 2, 12); (2, 3, 14)] v.
Proof.
  cbv zeta.
  assert (Hfresh : KeysFresh ops4) by (unfold KeysFresh; cbn; repeat constructor; cbn; intuition congruence).
  destruct (run_d_inv keqb_nat Hfresh) as [[Hm [Hwf Hinj]] _].
  assert (Hpure : PureCb (fst (run_d Nat.eqb ops4)) (fun (c : unit) (h' : heap nat nat nat) (_ : edge nat) => (c, h', true)) (@accept_all nat))
    by (intros c e; split; reflexivity).
  assert (Hsz : 0 < size (fst (run_d Nat.eqb ops4))) by (vm_compute; repeat constructor).
  assert (Hk : keyof (fst (run_d Nat.eqb ops4)) 0 <> Some 3) by (vm_compute; congruence).
  split; [exact (conj Hwf (conj Hinj (conj Hpure (conj Hsz Hk))))|].
  destruct (search_path Nat.eqb (fun (c : unit) (h' : heap nat nat nat) (_ : edge nat) => (c, h', true)) Nat.leb KBfs DOut 100 (fst (run_d Nat.eqb ops4)) tt 0 (Some 3) false) as [st r] eqn:Hrun.
  assert (Hr : r = RPath [(0, 2, 12); (2, 3, 14)]).
  { change r with (snd (st, r)). rewrite <- Hrun. vm_compute. reflexivity. }
  subst r.
  destruct (@wlq_path_sound _ _ _ _ keqb_nat _ _ _ Nat.leb _ Hwf Hinj Hpure DOut 0 Hsz tt KBfs 100 3 st _ ltac:(discriminate) Hk Hrun) as [v [Hv [Hp _]]].
  exists v. split; assumption.
Qed.
Print Assumptions c04_theorem_instantiated.
