(* SearchGlue.v — the worklist theorems with the queue hypothesis discharged by the proved
   specification of the BinaryHeap transcription (StdHeap.stdheap_qspec). *)
From Gdsl.Model Require Import Spec Callback.
From Gdsl.Proofs Require Import Worklist Bfs StdHeap.

Definition wlq_path_sound := fun K V E keqb Hk CB cb accept vleb =>
  @wl_path_sound K V E keqb Hk CB cb accept vleb stdheap_qspec.
Definition wlq_path_complete := fun K V E keqb Hk CB cb accept vleb =>
  @wl_path_complete K V E keqb Hk CB cb accept vleb stdheap_qspec.
Definition wlq_cycle_sound := fun K V E keqb Hk CB cb accept vleb =>
  @wl_cycle_sound K V E keqb Hk CB cb accept vleb stdheap_qspec.
Definition wlq_cycle_complete := fun K V E keqb Hk CB cb accept vleb =>
  @wl_cycle_complete K V E keqb Hk CB cb accept vleb stdheap_qspec.
Definition wlq_no_panic := fun K V E keqb Hk CB cb accept vleb =>
  @wl_no_panic K V E keqb Hk CB cb accept vleb stdheap_qspec.
Definition wlq_terminates := fun K V E keqb Hk CB cb accept vleb =>
  @wl_terminates K V E keqb Hk CB cb accept vleb stdheap_qspec.
Definition wlq_find_agrees := fun K V E keqb Hk CB cb accept vleb =>
  @wl_find_agrees K V E keqb Hk CB cb accept vleb stdheap_qspec.
Definition wlq_exhaustive := fun K V E keqb Hk CB cb accept vleb =>
  @wl_exhaustive K V E keqb Hk CB cb accept vleb stdheap_qspec.
Definition wlq_foreach_once := fun K V E keqb Hk vleb =>
  @wl_foreach_once K V E keqb Hk vleb stdheap_qspec.
