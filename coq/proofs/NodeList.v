(* NodeList.v — pure list lemmas about adjacency lists: find_first_p / remove_first_p,
   the per-neighbour view to_, and drop_id (remove the first n entries with a given id). *)
From Gdsl.Model Require Import Base.
From Gdsl.Proofs Require Import NodeLemmas.
From Coq Require Import Lia.

Set Implicit Arguments.

(* id-based predicates *)
Definition idp (v : nat) : nat -> bool := fun w => Nat.eqb w v.
Definition notid {E : Type} (u : nat) : nat * E -> bool := fun p => negb (Nat.eqb (fst p) u).

Section NodeList.
  Variable E : Type.
  Implicit Types l : list (nat * E).

  (* ---------------- find_first_p / remove_first_p, generic predicate ---------------- *)
  Lemma find_first_p_ext (p q : nat -> bool) l :
    (forall x, In x l -> p (fst x) = q (fst x)) -> find_first_p p l = find_first_p q l.
  Proof.
    induction l as [|x r IH]; intros H; cbn [find_first_p]; [reflexivity|].
    rewrite (H x (or_introl eq_refl)). rewrite IH; [reflexivity|].
    intros y Hy. apply H. now right.
  Qed.

  Lemma remove_first_p_ext (p q : nat -> bool) l :
    (forall x, In x l -> p (fst x) = q (fst x)) -> remove_first_p p l = remove_first_p q l.
  Proof.
    induction l as [|x r IH]; intros H; cbn [remove_first_p]; [reflexivity|].
    rewrite (H x (or_introl eq_refl)). rewrite IH; [reflexivity|].
    intros y Hy. apply H. now right.
  Qed.

  Lemma find_first_none (p : nat -> bool) l :
    find_first_p p l = None <-> (forall x, In x l -> p (fst x) = false).
  Proof.
    induction l as [|x r IH]; cbn [find_first_p].
    - split; [intros _ x []|reflexivity].
    - destruct (p (fst x)) eqn:Hp.
      + split; [discriminate|]. intros H. rewrite (H x (or_introl eq_refl)) in Hp. discriminate.
      + rewrite IH. split.
        * intros H y [<-|Hy]; [exact Hp|now apply H].
        * intros H y Hy. apply H. now right.
  Qed.

  Lemma find_first_some (p : nat -> bool) l x :
    find_first_p p l = Some x -> In x l /\ p (fst x) = true.
  Proof.
    induction l as [|y r IH]; cbn [find_first_p]; [discriminate|].
    destruct (p (fst y)) eqn:Hp.
    - intros [= <-]. split; [now left|exact Hp].
    - intros H. destruct (IH H) as [Hin Hpx]. split; [now right|exact Hpx].
  Qed.

  Lemma remove_first_none (p : nat -> bool) l :
    remove_first_p p l = None <-> (forall x, In x l -> p (fst x) = false).
  Proof.
    induction l as [|x r IH]; cbn [remove_first_p].
    - split; [intros _ x []|reflexivity].
    - destruct (p (fst x)) eqn:Hp.
      + split; [discriminate|]. intros H. rewrite (H x (or_introl eq_refl)) in Hp. discriminate.
      + destruct (remove_first_p p r) as [[b r']|] eqn:Hr.
        * split; [discriminate|]. intros H.
          assert (Hn : Some (b, r') = @None (E * list (nat * E))); [|discriminate Hn].
          apply (proj2 IH). intros y Hy. apply H. now right.
        * split; [|reflexivity]. intros _ y [<-|Hy]; [exact Hp|].
          apply (proj1 IH eq_refl). exact Hy.
  Qed.

  Lemma find_none_remove_none (p : nat -> bool) l :
    find_first_p p l = None <-> remove_first_p p l = None.
  Proof. now rewrite find_first_none, remove_first_none. Qed.

  (* ---------------- id-based removal ---------------- *)
  Lemma remove_first_split v l e l' :
    remove_first_p (idp v) l = Some (e, l') ->
    exists l1 l2, l = l1 ++ (v, e) :: l2 /\ l' = l1 ++ l2 /\ (forall x, In x l1 -> fst x <> v).
  Proof.
    revert e l'. induction l as [|x r IH]; intros e l'; cbn [remove_first_p]; [discriminate|].
    unfold idp at 1. destruct (Nat.eqb_spec (fst x) v) as [Heq|Hne].
    - intros [= <- <-]. exists [], r. destruct x as [a b]; cbn in *. subst a.
      repeat split. intros y [].
    - destruct (remove_first_p (idp v) r) as [[b r']|] eqn:Hr; [|discriminate].
      intros [= <- <-]. destruct (IH _ _ eq_refl) as (l1 & l2 & H1 & H2 & H3).
      exists (x :: l1), l2. subst r r'. repeat split.
      intros y [<-|Hy]; [exact Hne|now apply H3].
  Qed.

  Lemma remove_first_spec v l e l' :
    remove_first_p (idp v) l = Some (e, l') <->
    exists l1 l2, l = l1 ++ (v, e) :: l2 /\ l' = l1 ++ l2 /\ (forall x, In x l1 -> fst x <> v).
  Proof.
    split; [apply remove_first_split|].
    intros (l1 & l2 & -> & -> & H). induction l1 as [|x r IH]; cbn [app remove_first_p].
    - unfold idp; cbn [fst snd]. now rewrite Nat.eqb_refl.
    - unfold idp at 1. destruct (Nat.eqb_spec (fst x) v) as [Heq|Hne].
      + exfalso. apply (H x); [now left|exact Heq].
      + rewrite IH; [reflexivity|]. intros y Hy. apply H. now right.
  Qed.

  (* ---------------- the view to_ ---------------- *)
  Lemma to_cons w v (e : E) l :
    to_ w ((v, e) :: l) = if Nat.eqb v w then e :: to_ w l else to_ w l.
  Proof. unfold to_. cbn [filter fst]. destruct (Nat.eqb v w); reflexivity. Qed.

  Lemma to_none v l : (forall x, In x l -> fst x <> v) -> to_ v l = [].
  Proof.
    induction l as [|[a b] r IH]; intros H; [reflexivity|].
    rewrite to_cons. destruct (Nat.eqb_spec a v) as [Heq|Hne].
    - exfalso. apply (H (a, b)); [now left|exact Heq].
    - apply IH. intros y Hy. apply H. now right.
  Qed.

  Lemma to_nil_none v l : to_ v l = [] -> forall x, In x l -> fst x <> v.
  Proof.
    induction l as [|[a b] r IH]; intros H x []; rewrite to_cons in H;
      destruct (Nat.eqb_spec a v) as [Heq|Hne]; try discriminate.
    - subst x. exact Hne.
    - now apply IH.
  Qed.

  Lemma in_to v (e : E) l : In (v, e) l -> In e (to_ v l).
  Proof.
    induction l as [|[a b] r IH]; intros []; rewrite to_cons.
    - injection H as -> ->. rewrite Nat.eqb_refl. now left.
    - destruct (Nat.eqb a v); [right|]; now apply IH.
  Qed.

  Lemma to_in v (e : E) l : In e (to_ v l) -> In (v, e) l.
  Proof.
    induction l as [|[a b] r IH]; [intros []|]. rewrite to_cons.
    destruct (Nat.eqb_spec a v) as [Heq|Hne].
    - subst a. intros [<-|H]; [now left|right; now apply IH].
    - intros H. right. now apply IH.
  Qed.

  Lemma to_nonempty_in v l : to_ v l <> [] <-> exists e, In (v, e) l.
  Proof.
    split.
    - intros H. destruct (to_ v l) as [|e t] eqn:Ht; [congruence|].
      exists e. apply to_in. rewrite Ht. now left.
    - intros [e He] Hn. apply in_to in He. rewrite Hn in He. exact He.
  Qed.

  Lemma to_split_same v (e : E) l1 l2 :
    (forall x, In x l1 -> fst x <> v) ->
    to_ v (l1 ++ (v, e) :: l2) = e :: to_ v (l1 ++ l2).
  Proof.
    intros H. rewrite !to_app, to_cons, Nat.eqb_refl, (to_none _ H). reflexivity.
  Qed.

  Lemma to_split_other v w (e : E) l1 l2 :
    w <> v -> to_ w (l1 ++ (v, e) :: l2) = to_ w (l1 ++ l2).
  Proof.
    intros H. rewrite !to_app, to_cons. destruct (Nat.eqb_spec v w); [congruence|reflexivity].
  Qed.

  Lemma remove_first_exists v l :
    to_ v l <> [] -> exists e l', remove_first_p (idp v) l = Some (e, l').
  Proof.
    intros H. destruct (remove_first_p (idp v) l) as [[e l']|] eqn:Hr; [eauto|].
    exfalso. apply H. apply to_none. intros x Hx.
    apply (proj1 (remove_first_none _ _) Hr) in Hx. unfold idp in Hx.
    now apply Nat.eqb_neq.
  Qed.

  (* is_some (find_first_p (idp v) l) *)
  Lemma find_first_id_some v l :
    find_first_p (idp v) l <> None <-> exists e, In (v, e) l.
  Proof.
    rewrite find_first_none. split.
    - intros H. apply to_nonempty_in. intros Hn. apply H. intros x Hx.
      unfold idp. apply Nat.eqb_neq. eapply to_nil_none; eassumption.
    - intros [e He] H. apply H in He. unfold idp in He. cbn in He.
      rewrite Nat.eqb_refl in He. discriminate.
  Qed.

  (* ---------------- drop_id: remove the first n entries with id u ---------------- *)
  Fixpoint drop_id (u n : nat) l : list (nat * E) :=
    match l with
    | [] => []
    | x :: r => match n with
                | 0 => x :: r
                | S m => if Nat.eqb (fst x) u then drop_id u m r else x :: drop_id u n r
                end
    end.

  Lemma drop_id_0 u l : drop_id u 0 l = l.
  Proof. destruct l; reflexivity. Qed.

  Lemma remove_first_drop u l e l' :
    remove_first_p (idp u) l = Some (e, l') -> l' = drop_id u 1 l.
  Proof.
    revert e l'. induction l as [|x r IH]; intros e l'; cbn [remove_first_p drop_id]; [discriminate|].
    unfold idp at 1. destruct (Nat.eqb (fst x) u).
    - intros [= <- <-]. now rewrite drop_id_0.
    - destruct (remove_first_p (idp u) r) as [[b r']|] eqn:Hr; [|discriminate].
      intros [= <- <-]. f_equal. eapply IH. reflexivity.
  Qed.

  Lemma drop_id_add u n m l : drop_id u n (drop_id u m l) = drop_id u (n + m) l.
  Proof.
    revert n m. induction l as [|x r IH]; intros n m; [reflexivity|].
    destruct m as [|m'].
    - rewrite drop_id_0. now rewrite Nat.add_0_r.
    - rewrite Nat.add_succ_r. cbn [drop_id]. destruct (Nat.eqb (fst x) u) eqn:Hx.
      + apply IH.
      + destruct n as [|n'].
        * reflexivity.
        * cbn [drop_id]. rewrite Hx. f_equal. rewrite IH. f_equal. lia.
  Qed.

  Lemma drop_id_filter u n l : length (to_ u l) <= n -> drop_id u n l = filter (notid u) l.
  Proof.
    revert n. induction l as [|[a b] r IH]; intros n; [reflexivity|].
    rewrite to_cons. cbn [drop_id filter]. unfold notid at 1. cbn [fst].
    destruct (Nat.eqb a u); cbn [negb length]; intros Hn.
    - destruct n as [|m]; [lia|]. apply IH. lia.
    - destruct n as [|m].
      + f_equal. rewrite <- (IH 0 Hn). now rewrite drop_id_0.
      + f_equal. now apply IH.
  Qed.

  Lemma to_drop_other u n w l : w <> u -> to_ w (drop_id u n l) = to_ w l.
  Proof.
    intros Hw. revert n. induction l as [|[a b] r IH]; intros n; [reflexivity|].
    cbn [drop_id fst]. destruct n as [|m]; [reflexivity|].
    destruct (Nat.eqb_spec a u) as [Heq|Hne].
    - rewrite to_cons. destruct (Nat.eqb_spec a w); [congruence|apply IH].
    - rewrite !to_cons. now rewrite IH.
  Qed.

  Lemma to_drop_same_len u n l : length (to_ u (drop_id u n l)) = length (to_ u l) - n.
  Proof.
    revert n. induction l as [|[a b] r IH]; intros n; [reflexivity|].
    cbn [drop_id fst]. destruct n as [|m]; [lia|].
    destruct (Nat.eqb a u) eqn:Ha.
    - rewrite to_cons, Ha. cbn [length]. rewrite IH. lia.
    - rewrite !to_cons, Ha. apply IH.
  Qed.

  Lemma drop_id_in u n l x : In x (drop_id u n l) -> In x l.
  Proof.
    revert n. induction l as [|y r IH]; intros n; [intros []|].
    cbn [drop_id]. destruct n as [|m]; [auto|].
    destruct (Nat.eqb (fst y) u).
    - intros H. right. eapply IH, H.
    - intros [<-|H]; [now left|right; eapply IH, H].
  Qed.

  (* ---------------- filtering out an id ---------------- *)
  Lemma to_filter_other u w l : w <> u -> to_ w (filter (notid u) l) = to_ w l.
  Proof.
    intros Hw. induction l as [|[a b] r IH]; [reflexivity|].
    cbn [filter]. unfold notid at 1. cbn [fst].
    destruct (Nat.eqb_spec a u) as [Heq|Hne]; cbn [negb].
    - rewrite to_cons. destruct (Nat.eqb_spec a w); [congruence|exact IH].
    - rewrite !to_cons. now rewrite IH.
  Qed.

  Lemma to_filter_same u l : to_ u (filter (notid u) l) = [].
  Proof.
    apply to_none. intros x Hx. apply filter_In in Hx. destruct Hx as [_ Hx].
    unfold notid in Hx. apply negb_true_iff in Hx. now apply Nat.eqb_neq.
  Qed.

  Lemma to_filter_len u w l : length (to_ w (filter (notid u) l)) <= length (to_ w l).
  Proof.
    destruct (Nat.eq_dec w u) as [->|Hne].
    - rewrite to_filter_same. cbn. lia.
    - now rewrite to_filter_other.
  Qed.

  Lemma filter_notid_in u l x : In x (filter (notid u) l) -> In x l.
  Proof. intros H. now apply filter_In in H. Qed.

  (* a list all of whose views are empty is empty *)
  Lemma all_to_nil l : (forall w, to_ w l = []) -> l = [].
  Proof.
    destruct l as [|[a b] r]; [reflexivity|]. intros H. specialize (H a).
    rewrite to_cons, Nat.eqb_refl in H. discriminate.
  Qed.
End NodeList.

(* ---------------- skipn / nth_error ---------------- *)
Lemma skipn_nil_nth A (l : list A) pos : skipn pos l = [] -> nth_error l pos = None.
Proof.
  revert pos. induction l as [|x r IH]; intros pos H.
  - now destruct pos.
  - destruct pos as [|p]; [discriminate|]. cbn in *. now apply IH.
Qed.

Lemma skipn_cons_nth A (l : list A) pos x s :
  skipn pos l = x :: s -> nth_error l pos = Some x /\ skipn (S pos) l = s.
Proof.
  revert pos. induction l as [|y r IH]; intros pos H.
  - destruct pos; discriminate.
  - destruct pos as [|p].
    + cbn in H. injection H as -> ->. split; reflexivity.
    + cbn [skipn nth_error] in *. now apply IH.
Qed.
