(* Descend.v — correctness of the recursive traversal machine [descend] (dfs.rs / order.rs)
   for pure callbacks: machine invariants (relation [Run]) and the dfs theorems. *)
From Gdsl.Model Require Import Base NodeOps Search Callback Spec.
From Coq Require Import Lia Permutation.
From Gdsl.Proofs Require Import Backtrack.

Set Implicit Arguments.

(* ------------------------------------------------------------------ *)
(* generic list facts *)
Section ListFacts.
  Variable A : Type.

  Lemma nth_error_skipn_some (l : list A) n x :
    nth_error l n = Some x -> skipn n l = x :: skipn (S n) l.
  Proof.
    revert n. induction l as [|y l IH]; intros [|n] Hn; cbn in *; try discriminate.
    - now inversion Hn.
    - now apply IH.
  Qed.

  Lemma nth_error_skipn_none (l : list A) n : nth_error l n = None -> skipn n l = [].
  Proof.
    revert n. induction l as [|y l IH]; intros [|n] Hn; cbn in *; try discriminate; auto.
  Qed.

  Lemma skipn_incl (l : list A) n : incl (skipn n l) l.
  Proof.
    revert n. induction l as [|y l IH]; intros [|n]; cbn; try apply incl_refl.
    apply incl_tl, IH.
  Qed.

  Lemma app_last_decomp (es0 t1 t2 : list A) (w e : A) :
    es0 ++ [w] = t1 ++ e :: t2 -> t2 = [] \/ In e es0.
  Proof.
    intros H. destruct (@exists_last _ (e :: t2)) as [t2' [z Hz]]; [discriminate|].
    destruct t2 as [|b t2]; [now left|right].
    destruct (@exists_last _ (b :: t2)) as [t3 [z' Hz']]; [discriminate|].
    rewrite Hz' in H.
    assert (H' : es0 ++ [w] = (t1 ++ e :: t3) ++ [z']) by (rewrite H, <- app_assoc; reflexivity).
    apply app_inj_tail in H'. destruct H' as [H' _]. subst es0.
    apply in_or_app. right. now left.
  Qed.
  Lemma perm_swap4 (a b c e : list A) : Permutation ((a ++ b) ++ c ++ e) (c ++ a ++ b ++ e).
  Proof.
    etransitivity; [apply Permutation_app_swap_app|]. now rewrite <- app_assoc.
  Qed.
End ListFacts.

Lemma iota_In start n v : In v (iota start n) <-> start <= v < start + n.
Proof.
  revert start. induction n as [|n IH]; intros start; cbn.
  - lia.
  - rewrite IH. lia.
Qed.

Lemma iota_NoDup start n : NoDup (iota start n).
Proof.
  revert start. induction n as [|n IH]; intros start; cbn; constructor; auto.
  rewrite iota_In. lia.
Qed.

(* ------------------------------------------------------------------ *)
Section Infra.
  Variables K V E : Type.
  Variable keqb : K -> K -> bool.
  Hypothesis Hk : KeqbSpec keqb.
  Variable CB : Type.
  Variable cb : CB -> heap K V E -> edge E -> CB * heap K V E * bool.
  Variable accept : edge E -> bool.
  Variable h : heap K V E.
  Hypothesis Hwf : Wf h.
  Hypothesis Hinj : KeysInj h.
  Hypothesis Hpure : PureCb h cb accept.
  Variable d : dir.

  Notation edge := (edge E).
  Notation good := (good_edge h d accept).
  Notation reach := (Reach h d accept).
  Notation adj := (adj_of h d).

  Definition mke (u : nat) (x : nat * E) : edge := (u, fst x, snd x).

  Lemma esrc_mke u x : esrc (mke u x) = u. Proof. reflexivity. Qed.
  Lemma edst_mke u x : edst (mke u x) = fst x. Proof. reflexivity. Qed.

  (* ---------------- graph facts ---------------- *)
  Lemma good_mke u x : In x (adj u) -> accept (mke u x) = true -> good (mke u x).
  Proof.
    intros Hin Hacc. split; [|exact Hacc]. unfold is_edge. cbn. now destruct x.
  Qed.

  Lemma good_inv e : good e -> exists x, In x (adj (esrc e)) /\ e = mke (esrc e) x /\ accept e = true.
  Proof.
    intros [Hin Hacc]. destruct e as [[a b] c]. exists (b, c). repeat split; auto.
  Qed.

  Lemma adj_valid u x : In x (adj u) -> fst x < size h.
  Proof.
    destruct Hwf as [_ [Ho Hi]]. destruct x as [v e]. cbn [fst].
    destruct d; cbn; intros Hin.
    - eapply Ho; eauto.
    - eapply Hi; eauto.
    - apply in_app_or in Hin. destruct Hin; [eapply Ho|eapply Hi]; eauto.
  Qed.

  Lemma reach_refl a : reach a a.
  Proof. exists []. split; constructor. Qed.

  Lemma reach_edge_l e b : good e -> reach (edst e) b -> reach (esrc e) b.
  Proof.
    intros Hg [p [Hc Hf]]. exists (e :: p). split; constructor; auto.
  Qed.

  Lemma reach_trans a b c : reach a b -> reach b c -> reach a c.
  Proof.
    intros [p [Hc Hf]] Hbc. revert a Hc Hf. induction p as [|e p IH]; intros a Hc Hf.
    - inversion Hc; subst. exact Hbc.
    - inversion Hc; subst. inversion Hf; subst.
      apply reach_edge_l; auto.
  Qed.

  Lemma reach_edge_r a e : reach a (esrc e) -> good e -> reach a (edst e).
  Proof.
    intros Ha Hg. eapply reach_trans; [exact Ha|]. apply reach_edge_l; auto. apply reach_refl.
  Qed.

  Lemma closed_chain (T : list nat) :
    (forall e, good e -> In (esrc e) T -> In (edst e) T) ->
    forall p a b, chain a p b -> Forall good p -> In a T -> In b T.
  Proof.
    intros Hcl. induction p as [|e p IH]; intros a b Hc Hf Ha.
    - inversion Hc; subst; auto.
    - inversion Hc; subst. inversion Hf; subst. eapply IH; eauto.
  Qed.

  Lemma closed_reach (T : list nat) :
    (forall e, good e -> In (esrc e) T -> In (edst e) T) ->
    forall a b, reach a b -> In a T -> In b T.
  Proof. intros Hcl a b [p [Hc Hf]]. eapply closed_chain; eauto. Qed.

  (* ---------------- facts about the specification relation DfsKids ---------------- *)
  Notation Dfs := (DfsKids h d accept).

  Lemma dk_vs Vs u pre pst Vs' : Dfs Vs u pre pst Vs' -> Vs' = rev pre ++ Vs.
  Proof.
    induction 1 as [|Vs u e pre1 pst1 Vs1 pre2 pst2 Vs2 Hg Hs Hn H1 IH1 H2 IH2]; [reflexivity|].
    rewrite IH2, IH1. cbn [rev]. rewrite rev_app_distr, <- !app_assoc. reflexivity.
  Qed.

  Lemma dk_perm Vs u pre pst Vs' : Dfs Vs u pre pst Vs' -> Permutation pre pst.
  Proof.
    induction 1 as [|Vs u e pre1 pst1 Vs1 pre2 pst2 Vs2 Hg Hs Hn H1 IH1 H2 IH2]; [constructor|].
    apply Permutation_cons_app. now apply Permutation_app.
  Qed.

  Lemma dk_nodup Vs u pre pst Vs' : Dfs Vs u pre pst Vs' -> NoDup Vs -> NoDup Vs'.
  Proof.
    induction 1 as [|Vs u e pre1 pst1 Vs1 pre2 pst2 Vs2 Hg Hs Hn H1 IH1 H2 IH2]; auto.
    intros Hnd. apply IH2, IH1. now constructor.
  Qed.

  Lemma dk_incl Vs u pre pst Vs' : Dfs Vs u pre pst Vs' -> incl Vs Vs'.
  Proof.
    intros H. rewrite (dk_vs H). apply incl_appr, incl_refl.
  Qed.

  Lemma dk_reach Vs u pre pst Vs' : Dfs Vs u pre pst Vs' -> forall v, In v pre -> reach u v.
  Proof.
    induction 1 as [|Vs u e pre1 pst1 Vs1 pre2 pst2 Vs2 Hg Hs Hn H1 IH1 H2 IH2]; intros v Hv.
    - destruct Hv.
    - subst u. destruct Hv as [Hv|Hv].
      + subst v. apply reach_edge_l; auto. apply reach_refl.
      + apply in_app_or in Hv. destruct Hv as [Hv|Hv]; auto.
        apply reach_edge_l; auto.
  Qed.

  Lemma dk_closed Vs u pre pst Vs' : Dfs Vs u pre pst Vs' ->
    forall e, good e -> esrc e = u \/ In (esrc e) pre -> In (edst e) Vs'.
  Proof.
    induction 1 as [Vs u Hd|Vs u e pre1 pst1 Vs1 pre2 pst2 Vs2 Hg Hs Hn H1 IH1 H2 IH2]; intros e' Hg' Hsrc.
    - destruct Hsrc as [Hsrc|[]]. auto.
    - destruct Hsrc as [Hsrc|[Hsrc|Hsrc]].
      + apply IH2; auto.
      + apply (dk_incl H2). apply IH1; auto.
      + apply in_app_or in Hsrc. destruct Hsrc as [Hsrc|Hsrc].
        * apply (dk_incl H2). apply IH1; auto.
        * apply IH2; auto.
  Qed.

  (* a whole run from the root *)
  Lemma dk_whole root pre pst Vs' : Dfs [root] root pre pst Vs' ->
    (forall v, In v Vs' <-> reach root v) /\ Permutation Vs' (root :: pre) /\
    Permutation pre pst /\ NoDup (root :: pre).
  Proof.
    intros H. pose proof (dk_vs H) as Hvs.
    assert (Hp : Permutation Vs' (root :: pre)).
    { rewrite Hvs. rewrite <- Permutation_rev. apply Permutation_sym, Permutation_cons_append. }
    split; [|split; [exact Hp|split; [exact (dk_perm H)|]]].
    - intros v. split.
      + intros Hv. apply (Permutation_in _ Hp) in Hv. destruct Hv as [Hv|Hv].
        * subst. apply reach_refl.
        * eapply dk_reach; eauto.
      + intros Hr. eapply closed_reach; [|exact Hr|].
        * intros e Hg Hin. apply (dk_closed H); auto.
          apply (Permutation_in _ Hp) in Hin. destruct Hin; auto.
        * apply (dk_incl H). now left.
    - eapply Permutation_NoDup; [exact Hp|]. apply (dk_nodup H). constructor; [intros []|constructor].
  Qed.

  (* ---------------- visited keys vs visited ids ---------------- *)
  Definition Vis (Vs : list nat) (vis : list K) : Prop := map (keyof h) Vs = map Some vis.

  Lemma valid_key v : v < size h -> exists k, keyof h v = Some k.
  Proof.
    unfold keyof, size. intros Hv. destruct (nth_error (nodes h) v) as [p|] eqn:Hn.
    - eexists; reflexivity.
    - apply nth_error_None in Hn. lia.
  Qed.

  Lemma memb_spec k vis : memb keqb k vis = true <-> In k vis.
  Proof.
    induction vis as [|a vis IH]; cbn.
    - split; [discriminate|tauto].
    - destruct (keqb a k) eqn:Hq.
      + apply Hk in Hq. subst. tauto.
      + rewrite IH. split; auto. intros [Hc|Hc]; auto. subst.
        assert (Hr : keqb k k = true) by now apply Hk. congruence.
  Qed.

  Lemma in_vis_spec Vs vis v : Vis Vs vis -> v < size h -> (in_vis keqb h vis v = true <-> In v Vs).
  Proof.
    intros HV Hv. destruct (valid_key Hv) as [k Hkv]. unfold in_vis. rewrite Hkv, memb_spec. split.
    - intros Hin. assert (H : In (Some k) (map Some vis)) by now apply in_map.
      unfold Vis in HV. rewrite <- HV in H. apply in_map_iff in H. destruct H as [w [Hw Hin']].
      assert (w = v) by (eapply Hinj; eauto). now subst.
    - intros Hin. assert (H : In (keyof h v) (map (keyof h) Vs)) by now apply in_map.
      unfold Vis in HV. rewrite HV, Hkv in H. apply in_map_iff in H. destruct H as [k' [Heq Hin']].
      now inversion Heq; subst.
  Qed.

  Lemma mark_spec Vs vis v : Vis Vs vis -> v < size h -> Vis (v :: Vs) (mark h vis v).
  Proof.
    intros HV Hv. destruct (valid_key Hv) as [k Hkv]. unfold Vis, mark in *. rewrite Hkv. cbn.
    now rewrite Hkv, HV.
  Qed.

  Lemma is_target_spec t v : is_target keqb h (Some t) v = true <-> keyof h v = Some t.
  Proof.
    unfold is_target, has_key. destruct (keyof h v) as [k|]; split; try discriminate.
    - intros Hq. f_equal. now apply Hk.
    - intros Heq. inversion Heq. now apply Hk.
  Qed.

  (* ---------------- the iterator by position ---------------- *)
  Lemma adj_at_nth u pos : adj_at h u pos = nth_error (outs h u ++ ins h u) pos.
  Proof.
    unfold adj_at. destruct (nth_error (outs h u) pos) as [x|] eqn:Hn.
    - symmetry. rewrite nth_error_app1; auto. apply nth_error_Some. congruence.
    - apply nth_error_None in Hn. rewrite nth_error_app2; auto.
  Qed.

  Lemma edge_at_nth u pos : edge_at h d u pos = option_map (mke u) (nth_error (adj u) pos).
  Proof. destruct d; cbn; try reflexivity. rewrite adj_at_nth. reflexivity. Qed.

  (* ---------------- one step of the machine under a pure callback ---------------- *)
  Definition cbstep (c : CB) (e : edge) : CB := fst (fst (cb c h e)).

  Lemma call_cb_pure st e : s_heap st = h ->
    call_cb cb st e = (mkS h (cbstep (s_cb st) e) (s_vis st) (s_tree st), accept e).
  Proof.
    intros Hh. unfold call_cb, cbstep. rewrite Hh. destruct (Hpure (s_cb st) e) as [H1 H2].
    destruct (cb (s_cb st) h e) as [[c1 h1] ok]. cbn in *. subst. reflexivity.
  Qed.

  Lemma descend_step tgt post f st u pos : s_heap st = h ->
    descend keqb cb d tgt post (S f) st u pos =
    match nth_error (adj u) pos with
    | None => (st, Exhausted)
    | Some x =>
       let e := mke u x in
       let c1 := cbstep (s_cb st) e in
       if accept e && negb (in_vis keqb h (s_vis st) (fst x)) then
         let st2 := mkS h c1 (mark h (s_vis st) (fst x)) (if post then s_tree st else s_tree st ++ [e]) in
         if is_target keqb h tgt (fst x) then (st2, Found (fst x))
         else match descend keqb cb d tgt post f st2 (fst x) 0 with
              | (st3, Exhausted) => descend keqb cb d tgt post f (if post then push_tree st3 e else st3) u (S pos)
              | (st3, r) => (st3, r)
              end
       else descend keqb cb d tgt post f (mkS h c1 (s_vis st) (s_tree st)) u (S pos)
    end.
  Proof.
    intros Hh. cbn [descend]. rewrite Hh, edge_at_nth.
    destruct (nth_error (adj u) pos) as [x|]; cbn [option_map]; [|reflexivity].
    rewrite call_cb_pure by exact Hh. destruct post; reflexivity.
  Qed.

  (* ---------------- the run relation: a big-step description of [descend] on visited IDS ----------------
     Run tgt post fuel Vs u l es cs Vs' r : exploring the remaining adjacency entries l of u with visited
     ids Vs records the tree edges es, calls the callback on cs (in order), ends with visited ids Vs' and
     status r. *)
  Inductive Run (tgt : option K) (post : bool) :
    nat -> list nat -> nat -> list (nat * E) -> list edge -> list edge -> list nat -> status -> Prop :=
  | R_fuel : forall Vs u l, Run tgt post 0 Vs u l [] [] Vs OutOfFuel
  | R_nil : forall f Vs u, Run tgt post (S f) Vs u [] [] [] Vs Exhausted
  | R_skip : forall f Vs u x l es cs Vs' r,
      accept (mke u x) = false \/ In (fst x) Vs ->
      Run tgt post f Vs u l es cs Vs' r ->
      Run tgt post (S f) Vs u (x :: l) es (mke u x :: cs) Vs' r
  | R_found : forall f Vs u x l,
      accept (mke u x) = true -> ~ In (fst x) Vs -> is_target keqb h tgt (fst x) = true ->
      Run tgt post (S f) Vs u (x :: l) (if post then [] else [mke u x]) [mke u x] (fst x :: Vs) (Found (fst x))
  | R_stop : forall f Vs u x l es1 cs1 Vs1 r,
      accept (mke u x) = true -> ~ In (fst x) Vs -> is_target keqb h tgt (fst x) = false ->
      Run tgt post f (fst x :: Vs) (fst x) (adj (fst x)) es1 cs1 Vs1 r -> r <> Exhausted ->
      Run tgt post (S f) Vs u (x :: l) ((if post then [] else [mke u x]) ++ es1) (mke u x :: cs1) Vs1 r
  | R_cont : forall f Vs u x l es1 cs1 Vs1 es2 cs2 Vs2 r,
      accept (mke u x) = true -> ~ In (fst x) Vs -> is_target keqb h tgt (fst x) = false ->
      Run tgt post f (fst x :: Vs) (fst x) (adj (fst x)) es1 cs1 Vs1 Exhausted ->
      Run tgt post f Vs1 u l es2 cs2 Vs2 r ->
      Run tgt post (S f) Vs u (x :: l)
          ((if post then es1 ++ [mke u x] else mke u x :: es1) ++ es2) (mke u x :: cs1 ++ cs2) Vs2 r.

  Lemma descend_run tgt post : forall f st u pos Vs st' r,
    s_heap st = h -> Vis Vs (s_vis st) -> u < size h ->
    descend keqb cb d tgt post f st u pos = (st', r) ->
    exists es cs Vs', Run tgt post f Vs u (skipn pos (adj u)) es cs Vs' r /\
      s_heap st' = h /\ Vis Vs' (s_vis st') /\ s_tree st' = s_tree st ++ es /\
      s_cb st' = fold_left cbstep cs (s_cb st).
  Proof.
    induction f as [|f IH]; intros st u pos Vs st' r Hh HV Hu H.
    - cbn in H. inversion H; subst. exists [], [], Vs. rewrite app_nil_r. repeat split; auto. constructor.
    - rewrite descend_step in H by exact Hh.
      destruct (nth_error (adj u) pos) as [x|] eqn:Hn.
      2:{ inversion H; subst. rewrite (nth_error_skipn_none _ _ Hn). exists [], [], Vs.
          rewrite app_nil_r. repeat split; auto. constructor. }
      rewrite (nth_error_skipn_some _ _ Hn).
      assert (Hv : fst x < size h) by (eapply adj_valid, nth_error_In; eauto).
      cbv zeta in H.
      destruct (accept (mke u x)) eqn:Hacc; cbn [andb] in H.
      2:{ apply IH with (Vs := Vs) in H; auto. destruct H as [es [cs [Vs' [HR [H1 [H2 [H3 H4]]]]]]].
          exists es, (mke u x :: cs), Vs'. repeat split; auto. constructor; auto. }
      destruct (in_vis keqb h (s_vis st) (fst x)) eqn:Hiv; cbn [negb] in H.
      { apply IH with (Vs := Vs) in H; auto. destruct H as [es [cs [Vs' [HR [H1 [H2 [H3 H4]]]]]]].
        exists es, (mke u x :: cs), Vs'. repeat split; auto. constructor; auto.
        right. now apply (in_vis_spec HV Hv). }
      assert (Hnin : ~ In (fst x) Vs).
      { intros Hin. apply (in_vis_spec HV Hv) in Hin. congruence. }
      pose proof (mark_spec HV Hv) as HV2.
      destruct (is_target keqb h tgt (fst x)) eqn:Htg.
      { inversion H; subst. exists (if post then [] else [mke u x]), [mke u x], (fst x :: Vs).
        repeat split; auto.
        - now constructor.
        - cbn [s_tree]. destruct post; [now rewrite app_nil_r|reflexivity]. }
      destruct (descend keqb cb d tgt post f _ (fst x) 0) as [st3 r3] eqn:Hd.
      apply IH with (Vs := fst x :: Vs) in Hd; auto.
      destruct Hd as [es1 [cs1 [Vs1 [HR1 [Hh3 [HV3 [Ht3 Hc3]]]]]]]. cbn [s_tree s_cb skipn] in *.
      assert (Hstop : r3 <> Exhausted -> (st3, r3) = (st', r) ->
        exists es cs Vs', Run tgt post (S f) Vs u (x :: skipn (S pos) (adj u)) es cs Vs' r /\
          s_heap st' = h /\ Vis Vs' (s_vis st') /\ s_tree st' = s_tree st ++ es /\
          s_cb st' = fold_left cbstep cs (s_cb st)).
      { intros Hne Heq. inversion Heq; subst.
        exists ((if post then [] else [mke u x]) ++ es1), (mke u x :: cs1), Vs1. repeat split; auto.
        - now constructor.
        - rewrite Ht3. destruct post; cbn; [reflexivity|now rewrite <- app_assoc]. }
      destruct r3; [apply Hstop; [discriminate|exact H]| |apply Hstop; [discriminate|exact H]].
      apply IH with (Vs := Vs1) in H; auto.
      + destruct H as [es2 [cs2 [Vs2 [HR2 [Hh2 [HV2' [Ht2 Hc2]]]]]]].
        exists ((if post then es1 ++ [mke u x] else mke u x :: es1) ++ es2), (mke u x :: cs1 ++ cs2), Vs2.
        repeat split; auto.
        * now apply R_cont with (Vs1 := Vs1).
        * rewrite Ht2. destruct post; cbn [push_tree s_tree]; rewrite Ht3;
            repeat (rewrite <- app_assoc; cbn [app]); reflexivity.
        * rewrite Hc2. cbn [fold_left]. rewrite fold_left_app. destruct post; cbn [push_tree s_cb]; now rewrite Hc3.
      + destruct post; auto.
      + destruct post; auto.
  Qed.

  (* ---------------- properties of runs ---------------- *)
  Lemma run_incl tgt post f Vs u l es cs Vs' r : Run tgt post f Vs u l es cs Vs' r -> incl Vs Vs'.
  Proof.
    induction 1 as [Vs u l|f Vs u|f Vs u x l es cs Vs' r Hs HR IH|f Vs u x l Ha Hn Ht
                   |f Vs u x l es1 cs1 Vs1 r Ha Hn Ht HR IH Hr
                   |f Vs u x l es1 cs1 Vs1 es2 cs2 Vs2 r Ha Hn Ht HR1 IH1 HR2 IH2];
      try apply incl_refl; auto.
    - apply incl_tl, incl_refl.
    - intros a Hin. apply IH. now right.
    - intros a Hin. apply IH2, IH1. now right.
  Qed.

  Lemma run_nodup tgt post f Vs u l es cs Vs' r :
    Run tgt post f Vs u l es cs Vs' r -> NoDup Vs -> NoDup Vs'.
  Proof.
    induction 1 as [Vs u l|f Vs u|f Vs u x l es cs Vs' r Hs HR IH|f Vs u x l Ha Hn Ht
                   |f Vs u x l es1 cs1 Vs1 r Ha Hn Ht HR IH Hr
                   |f Vs u x l es1 cs1 Vs1 es2 cs2 Vs2 r Ha Hn Ht HR1 IH1 HR2 IH2];
      intros Hnd; auto.
    - now constructor.
    - apply IH. now constructor.
    - apply IH2, IH1. now constructor.
  Qed.

  (* record-before mode: the visited ids are the recorded targets, newest first *)
  Lemma run_pre_vs tgt f Vs u l es cs Vs' r :
    Run tgt false f Vs u l es cs Vs' r -> Vs' = rev (map (@edst E) es) ++ Vs.
  Proof.
    induction 1 as [Vs u l|f Vs u|f Vs u x l es cs Vs' r Hs HR IH|f Vs u x l Ha Hn Ht
                   |f Vs u x l es1 cs1 Vs1 r Ha Hn Ht HR IH Hr
                   |f Vs u x l es1 cs1 Vs1 es2 cs2 Vs2 r Ha Hn Ht HR1 IH1 HR2 IH2];
      auto.
    - rewrite IH. cbn. now rewrite <- app_assoc.
    - rewrite IH2, IH1. cbn. rewrite map_app, rev_app_distr. now rewrite <- !app_assoc.
  Qed.

  (* every recorded edge hangs off the start node or off an earlier target *)
  Fixpoint hang (A : list nat) (es : list edge) : Prop :=
    match es with [] => True | e :: r => In (esrc e) A /\ hang (edst e :: A) r end.

  Lemma hang_mono es : forall A B, incl A B -> hang A es -> hang B es.
  Proof.
    induction es as [|e es IH]; cbn; auto. intros A B Hi [H1 H2]. split; auto.
    apply IH with (A := edst e :: A); auto. intros a [Ha|Ha]; [now left|right; auto].
  Qed.

  Lemma hang_app es1 : forall A es2,
    hang A es1 -> hang (rev (map (@edst E) es1) ++ A) es2 -> hang A (es1 ++ es2).
  Proof.
    induction es1 as [|e es1 IH]; cbn; auto. intros A es2 [H1 H2] H3. split; auto.
    apply IH; auto. now rewrite <- app_assoc in H3.
  Qed.

  Lemma hang_spec : forall t1 A e t2,
    hang A (t1 ++ e :: t2) -> In (esrc e) A \/ In (esrc e) (map (@edst E) t1).
  Proof.
    induction t1 as [|a t1 IH]; cbn; intros A e t2 H.
    - tauto.
    - destruct H as [_ H]. apply IH in H. cbn in H. destruct H as [[H|H]|H]; auto.
  Qed.

  Lemma run_hang tgt f Vs u l es cs Vs' r : Run tgt false f Vs u l es cs Vs' r -> hang [u] es.
  Proof.
    induction 1 as [Vs u l|f Vs u|f Vs u x l es cs Vs' r Hs HR IH|f Vs u x l Ha Hn Ht
                   |f Vs u x l es1 cs1 Vs1 r Ha Hn Ht HR IH Hr
                   |f Vs u x l es1 cs1 Vs1 es2 cs2 Vs2 r Ha Hn Ht HR1 IH1 HR2 IH2];
      cbn; auto.
    - split; [now left|]. eapply hang_mono; [|exact IH]. intros a [Ha'|[]]. now left.
    - split; [now left|]. apply hang_app.
      + eapply hang_mono; [|exact IH1]. intros a [Ha'|[]]. now left.
      + eapply hang_mono; [|exact IH2]. intros a [Ha'|[]]. subst. apply in_or_app. right. right. now left.
  Qed.

  (* a target is recorded last and ends the run *)
  Definition nontgt (tgt : option K) (e : edge) : Prop := is_target keqb h tgt (edst e) = false.

  Lemma run_last tgt f Vs u l es cs Vs' r : Run tgt false f Vs u l es cs Vs' r ->
    match r with
    | Found v => exists es0 w, es = es0 ++ [w] /\ edst w = v /\ Forall (nontgt tgt) es0 /\
                               is_target keqb h tgt v = true
    | _ => Forall (nontgt tgt) es
    end.
  Proof.
    induction 1 as [Vs u l|f Vs u|f Vs u x l es cs Vs' r Hs HR IH|f Vs u x l Ha Hn Ht
                   |f Vs u x l es1 cs1 Vs1 r Ha Hn Ht HR IH Hr
                   |f Vs u x l es1 cs1 Vs1 es2 cs2 Vs2 r Ha Hn Ht HR1 IH1 HR2 IH2];
      auto.
    - exists [], (mke u x). repeat split; auto.
    - cbn [app]. destruct r as [v| |].
      + destruct IH as [es0 [w [He [Hw [Hf Hv]]]]]. exists (mke u x :: es0), w. subst es1.
        repeat split; auto.
      + congruence.
      + constructor; auto.
    - cbn [app]. destruct r as [v| |].
      + destruct IH2 as [es0 [w [He [Hw [Hf Hv]]]]]. exists (mke u x :: es1 ++ es0), w. subst es2.
        repeat split; auto.
        * cbn. now rewrite <- app_assoc.
        * constructor; auto. apply Forall_app; auto.
      + constructor; auto. apply Forall_app; auto.
      + constructor; auto. apply Forall_app; auto.
  Qed.

  Lemma run_good tgt post f Vs u l es cs Vs' r :
    Run tgt post f Vs u l es cs Vs' r -> incl l (adj u) -> Forall good es.
  Proof.
    induction 1 as [Vs u l|f Vs u|f Vs u x l es cs Vs' r Hs HR IH|f Vs u x l Ha Hn Ht
                   |f Vs u x l es1 cs1 Vs1 r Ha Hn Ht HR IH Hr
                   |f Vs u x l es1 cs1 Vs1 es2 cs2 Vs2 r Ha Hn Ht HR1 IH1 HR2 IH2];
      intros Hl; auto.
    - apply IH. intros a Hin. apply Hl. now right.
    - assert (Hg : good (mke u x)) by (apply good_mke; auto; apply Hl; now left).
      destruct post; auto.
    - assert (Hg : good (mke u x)) by (apply good_mke; auto; apply Hl; now left).
      apply Forall_app. split; [destruct post; auto|]. apply IH, incl_refl.
    - assert (Hg : good (mke u x)) by (apply good_mke; auto; apply Hl; now left).
      assert (H1 : Forall good es1) by apply IH1, incl_refl.
      assert (H2 : Forall good es2) by (apply IH2; intros a Hin; apply Hl; now right).
      apply Forall_app. split; auto. destruct post; [apply Forall_app|]; auto.
  Qed.

  Lemma run_src_reach tgt post f Vs u l es cs Vs' r :
    Run tgt post f Vs u l es cs Vs' r -> incl l (adj u) -> forall e, In e es -> reach u (esrc e).
  Proof.
    induction 1 as [Vs u l|f Vs u|f Vs u x l es cs Vs' r Hs HR IH|f Vs u x l Ha Hn Ht
                   |f Vs u x l es1 cs1 Vs1 r Ha Hn Ht HR IH Hr
                   |f Vs u x l es1 cs1 Vs1 es2 cs2 Vs2 r Ha Hn Ht HR1 IH1 HR2 IH2];
      intros Hl e He; try (now destruct He).
    - apply IH; auto. intros a Hin. apply Hl. now right.
    - destruct post; [destruct He|]. destruct He as [He|[]]. subst. apply reach_refl.
    - assert (Hg : good (mke u x)) by (apply good_mke; auto; apply Hl; now left).
      apply in_app_or in He. destruct He as [He|He].
      + destruct post; [destruct He|]. destruct He as [He|[]]. subst. apply reach_refl.
      + apply (reach_edge_l Hg). apply IH; auto. apply incl_refl.
    - assert (Hg : good (mke u x)) by (apply good_mke; auto; apply Hl; now left).
      assert (H1 : forall e, In e es1 -> reach u (esrc e)).
      { intros e' He'. apply (reach_edge_l Hg). apply IH1; auto. apply incl_refl. }
      apply in_app_or in He. destruct He as [He|He].
      + destruct post.
        * apply in_app_or in He. destruct He as [He|[He|[]]]; auto. subst. apply reach_refl.
        * destruct He as [He|He]; auto. subst. apply reach_refl.
      + apply IH2; auto. intros a Hin. apply Hl. now right.
  Qed.

  (* an exhausted run is a depth-first traversal in the sense of DfsKids *)
  Definition alle (v : nat) : list edge := map (mke v) (adj v).

  Lemma run_dfs tgt post f Vs u l es cs Vs' r : Run tgt post f Vs u l es cs Vs' r ->
    r = Exhausted -> incl l (adj u) ->
    (forall y, In y (adj u) -> accept (mke u y) = true -> In y l \/ In (fst y) Vs) ->
    exists pre pst, Dfs Vs u pre pst Vs' /\ map (@edst E) es = (if post then pst else pre) /\
                    Permutation cs (map (mke u) l ++ flat_map alle pre).
  Proof.
    induction 1 as [Vs u l|f Vs u|f Vs u x l es cs Vs' r Hs HR IH|f Vs u x l Ha Hn Ht
                   |f Vs u x l es1 cs1 Vs1 r Ha Hn Ht HR IH Hr
                   |f Vs u x l es1 cs1 Vs1 es2 cs2 Vs2 r Ha Hn Ht HR1 IH1 HR2 IH2];
      intros Hex Hl Hcov; try discriminate; try congruence.
    - exists [], []. split; [|split; [now destruct post|constructor]].
      constructor. intros e Hg Hsrc. destruct (good_inv Hg) as [y [Hin [He Hacc]]].
      rewrite Hsrc in *. rewrite He in Hacc. destruct (Hcov y Hin Hacc) as [[]|Hv]. now rewrite He.
    - destruct IH as [pre [pst [HD [Hm Hp]]]]; auto.
      + intros a Hin. apply Hl. now right.
      + intros y Hin Hacc. destruct (Hcov y Hin Hacc) as [[Hy|Hy]|Hy]; auto.
        subst y. destruct Hs as [Hs|Hs]; [congruence|auto].
      + exists pre, pst. repeat split; auto. cbn. now constructor.
    - assert (Hg : good (mke u x)) by (apply good_mke; auto; apply Hl; now left).
      destruct IH1 as [pre1 [pst1 [HD1 [Hm1 Hp1]]]]; auto; [apply incl_refl|].
      destruct IH2 as [pre2 [pst2 [HD2 [Hm2 Hp2]]]]; auto.
      + intros a Hin. apply Hl. now right.
      + intros y Hin Hacc. destruct (Hcov y Hin Hacc) as [[Hy|Hy]|Hy]; auto.
        * subst y. right. apply (run_incl HR1). now left.
        * right. apply (run_incl HR1). now right.
      + exists (fst x :: pre1 ++ pre2), (pst1 ++ fst x :: pst2). split; [|split].
        * apply dk_step with (e := mke u x) (S1 := Vs1); auto.
        * destruct post; cbn; rewrite !map_app; cbn; rewrite Hm1, Hm2; [now rewrite <- app_assoc|reflexivity].
        * cbn. constructor. rewrite flat_map_app.
          etransitivity; [apply Permutation_app; [exact Hp1|exact Hp2]|].
          unfold alle at 3. apply perm_swap4.
  Qed.

  (* ---------------- fuel ---------------- *)
  Fixpoint work (L : list nat) (Vs : list nat) : nat :=
    match L with
    | [] => 0
    | w :: L' => (if in_dec Nat.eq_dec w Vs then 0 else S (length (adj w))) + work L' Vs
    end.

  Lemma work_mono L Vs Vs' : incl Vs Vs' -> work L Vs' <= work L Vs.
  Proof.
    intros Hi. induction L as [|a L IH]; cbn; auto.
    destruct (in_dec Nat.eq_dec a Vs') as [i'|n'], (in_dec Nat.eq_dec a Vs) as [i|n]; try lia.
    exfalso. auto.
  Qed.

  Lemma work_cons L Vs v : NoDup L -> In v L -> ~ In v Vs ->
    work L (v :: Vs) + S (length (adj v)) <= work L Vs.
  Proof.
    induction L as [|a L IH]; intros Hnd Hin Hn; [destruct Hin|].
    inversion Hnd as [|a' L' Ha HL]; subst. cbn [work]. destruct Hin as [Heq|Hin].
    - subst a. destruct (in_dec Nat.eq_dec v (v :: Vs)) as [_|n]; [|exfalso; apply n; now left].
      destruct (in_dec Nat.eq_dec v Vs) as [i|_]; [contradiction|].
      pose proof (@work_mono L Vs (v :: Vs) (incl_tl v (incl_refl Vs))). lia.
    - specialize (IH HL Hin Hn).
      destruct (in_dec Nat.eq_dec a (v :: Vs)) as [i'|n'], (in_dec Nat.eq_dec a Vs) as [i|n]; try lia.
      exfalso. apply n'. now right.
  Qed.

  Definition wk (Vs : list nat) : nat := work (iota 0 (size h)) Vs.

  Lemma run_fuel tgt post f Vs u l es cs Vs' r : Run tgt post f Vs u l es cs Vs' r ->
    incl l (adj u) -> length l + wk Vs < f -> r <> OutOfFuel.
  Proof.
    induction 1 as [Vs u l|f Vs u|f Vs u x l es cs Vs' r Hs HR IH|f Vs u x l Ha Hn Ht
                   |f Vs u x l es1 cs1 Vs1 r Ha Hn Ht HR IH Hr
                   |f Vs u x l es1 cs1 Vs1 es2 cs2 Vs2 r Ha Hn Ht HR1 IH1 HR2 IH2];
      intros Hl Hf; try discriminate; try lia; cbn [length] in Hf.
    - apply IH; [|lia]. intros a Hin. apply Hl. now right.
    - apply IH; [apply incl_refl|].
      assert (Hv : In (fst x) (iota 0 (size h))).
      { apply iota_In. split; [lia|]. cbn. apply adj_valid with (u := u). apply Hl. now left. }
      pose proof (@work_cons (iota 0 (size h)) Vs (fst x) (iota_NoDup 0 (size h)) Hv Hn). unfold wk in *. lia.
    - apply IH2; [intros a Hin; apply Hl; now right|].
      assert (Hi : incl Vs Vs1) by (intros a Hin; apply (run_incl HR1); now right).
      pose proof (@work_mono (iota 0 (size h)) Vs Vs1 Hi). unfold wk in *. lia.
  Qed.

  Definition total (L : list nat) : nat :=
    fold_right (fun u acc => length (outs h u) + length (ins h u) + acc) 0 L.

  Lemma adj_len u : length (adj u) <= length (outs h u) + length (ins h u).
  Proof. destruct d; cbn; rewrite ?app_length; lia. Qed.

  Lemma work_bound L Vs : work L Vs <= length L + total L.
  Proof.
    unfold total. induction L as [|a L IH]; cbn [work fold_right length]; [lia|]. pose proof (adj_len a).
    destruct (in_dec Nat.eq_dec a Vs); lia.
  Qed.

  Lemma total_ge L u : In u L -> length (outs h u) + length (ins h u) <= total L.
  Proof.
    unfold total. induction L as [|a L IH]; intros Hin; [destruct Hin|]. cbn [fold_right]. destruct Hin as [Heq|Hin].
    - subst. lia.
    - specialize (IH Hin). lia.
  Qed.

  Lemma iota_length start n : length (iota start n) = n.
  Proof. revert start. induction n as [|n IH]; intros start; cbn; auto. Qed.

  Lemma fuel_enough Vs u : u < size h -> length (adj u) + wk Vs < fuel_bound h.
  Proof.
    intros Hu. unfold fuel_bound, wk. fold (total (iota 0 (size h))).
    pose proof (work_bound (iota 0 (size h)) Vs) as H1. rewrite iota_length in H1.
    assert (H2 : length (outs h u) + length (ins h u) <= total (iota 0 (size h))).
    { apply total_ge. apply iota_In. lia. }
    pose proof (adj_len u) as H3.
    set (T := total (iota 0 (size h))) in *. set (n := size h) in *.
    assert (H4 : S (S n + T) * 2 <= S (S n + T) * S (S n)) by (apply Nat.mul_le_mono_l; lia).
    lia.
  Qed.

  (* ---------------- the initial call ---------------- *)
  Lemma init_run tgt post f root c0 (vis0 : bool) st r : root < size h ->
    descend keqb cb d tgt post f (init_st h c0 root vis0) root 0 = (st, r) ->
    exists cs Vs', Run tgt post f (if vis0 then [root] else []) root (adj root) (s_tree st) cs Vs' r /\
                   s_heap st = h /\ s_cb st = fold_left cbstep cs c0.
  Proof.
    intros Hroot H.
    apply descend_run with (Vs := if vis0 then [root] else []) in H; auto.
    - destruct H as [es [cs [Vs' [HR [Hh [_ [Ht Hc]]]]]]]. cbn in Ht, Hc. subst es.
      exists cs, Vs'. auto.
    - unfold init_st. cbn [s_vis]. destruct vis0; [|reflexivity].
      apply mark_spec; auto. reflexivity.
  Qed.

  Lemma nodup_app_disj (A : Type) (l1 l2 : list A) a : NoDup (l1 ++ l2) -> In a l1 -> ~ In a l2.
  Proof.
    induction l1 as [|b l1 IH]; intros Hnd Hin; [destruct Hin|].
    cbn in Hnd. inversion Hnd as [|b' l' Hb Hl]; subst. destruct Hin as [Heq|Hin].
    - subst. intros H2. apply Hb. apply in_or_app. now right.
    - now apply IH.
  Qed.

  Lemma nodup_app_l (A : Type) (l1 l2 : list A) : NoDup (l1 ++ l2) -> NoDup l1.
  Proof.
    induction l1 as [|b l1 IH]; intros Hnd; [constructor|].
    cbn in Hnd. inversion Hnd as [|b' l' Hb Hl]; subst. constructor; auto.
    intros Hin. apply Hb. apply in_or_app. now left.
  Qed.

  (* record-before runs from the start of u's adjacency: the recorded edges form a tree *)
  Lemma run_tree_ok tgt f Vs u es cs Vs' r : Run tgt false f Vs u (adj u) es cs Vs' r -> NoDup Vs ->
    TreeOK h d accept u es /\ (forall v, In v (map (@edst E) es) -> ~ In v Vs) /\
    Vs' = rev (map (@edst E) es) ++ Vs.
  Proof.
    intros HR Hnd. pose proof (run_pre_vs HR) as Hvs. pose proof (run_nodup HR Hnd) as Hnd'.
    rewrite Hvs in Hnd'. split; [split; [|split]|split]; auto.
    - apply (run_good HR), incl_refl.
    - apply nodup_app_l in Hnd'. rewrite <- rev_involutive. now apply NoDup_rev.
    - intros t1 e t2 Heq. pose proof (run_hang HR) as Hh. rewrite Heq in Hh.
      apply hang_spec in Hh. destruct Hh as [[Hh|[]]|Hh]; auto.
    - intros v Hv. eapply nodup_app_disj; [exact Hnd'|]. now apply in_rev in Hv.
  Qed.

  Lemma run_dfs_whole tgt post f Vs u es cs Vs' :
    Run tgt post f Vs u (adj u) es cs Vs' Exhausted ->
    exists pre pst, Dfs Vs u pre pst Vs' /\ map (@edst E) es = (if post then pst else pre) /\
                    Permutation cs (flat_map alle (u :: pre)).
  Proof.
    intros HR. destruct (run_dfs HR eq_refl (incl_refl _)) as [pre [pst [HD [Hm Hp]]]].
    - intros y Hin _. now left.
    - exists pre, pst. auto.
  Qed.

End Infra.

(* ------------------------------------------------------------------ *)
Section DfsTheorems.
  Variables K V E : Type.
  Variable keqb : K -> K -> bool.
  Hypothesis Hk : KeqbSpec keqb.
  Variable CB : Type.
  Variable cb : CB -> heap K V E -> edge E -> CB * heap K V E * bool.
  Variable accept : edge E -> bool.
  Variable vleb : V -> V -> bool.
  Variable h : heap K V E.
  Hypothesis Hwf : Wf h.
  Hypothesis Hinj : KeysInj h.
  Hypothesis Hpure : PureCb h cb accept.
  Variable d : dir.
  Variable root : nat.
  Hypothesis Hroot : root < size h.
  Variable c0 : CB.

  Notation SP t cyc fuel := (search_path keqb cb vleb KDfs d fuel h c0 root t cyc).
  Notation SF t fuel := (search_find keqb cb vleb KDfs d fuel h c0 root t).
  Notation OE post fuel := (order_edges keqb cb d post fuel h c0 root).
  Notation ON post fuel := (order_nodes keqb cb d post fuel h c0 root).
  Notation RS t cyc fuel := (run_search keqb cb vleb KDfs d fuel h c0 root t cyc).

  Lemma dfs_run fuel t cyc st r : RS t cyc fuel = (st, r) ->
    exists cs Vs', Run keqb accept h d (if cyc then keyof h root else t) false fuel
                       (if negb cyc then [root] else []) root (adj_of h d root) (s_tree st) cs Vs' r /\
                   s_heap st = h /\ s_cb st = fold_left (cbstep cb h) cs c0.
  Proof. intros H. unfold run_search in H. eapply init_run; eauto. Qed.

  Lemma nodup_init (cyc : bool) : NoDup (if negb cyc then [root] else []).
  Proof. destruct cyc; cbn; repeat constructor. intros []. Qed.

  (* what a successful dfs search delivers *)
  Lemma found_path fuel t cyc st v : RS t cyc fuel = (st, Found v) ->
    exists p p0 w, backtrack keqb (s_heap st) (s_tree st) = Some p /\ p = p0 ++ [w] /\ edst w = v /\
      is_target keqb h (if cyc then keyof h root else t) v = true /\
      IsPath h d accept root p v /\ p <> [] /\ NoDup (map (@edst E) p) /\
      (cyc = false -> ~ In root (map (@edst E) p)).
  Proof.
    intros H. apply dfs_run in H. destruct H as [cs [Vs' [HR [Hh _]]]].
    destruct (run_last HR) as [es0 [w [Heq [Hw [Hnt Htg]]]]].
    destruct (run_tree_ok HR (nodup_init cyc)) as [Hok [Hnew _]].
    assert (HRL : RootLast root (s_tree st)).
    { intros t1 e t2 Ht He. destruct cyc; cbn [negb] in *.
      - rewrite Heq in Ht. destruct (app_last_decomp _ _ _ _ _ Ht) as [H2|H2]; auto.
        rewrite Forall_forall in Hnt. specialize (Hnt _ H2). unfold nontgt in Hnt. rewrite He in Hnt.
        destruct (valid_key h Hroot) as [kr Hkr]. rewrite Hkr in Hnt.
        assert (Hx : is_target keqb h (Some kr) root = true) by now apply is_target_spec.
        congruence.
      - exfalso. apply (Hnew root); [|now left]. rewrite Ht, map_app. apply in_or_app. right. now left. }
    destruct (@backtrack_correct K V E keqb Hk h d accept root (s_tree st) es0 w Hwf Hinj Hroot Hok HRL Heq)
      as [p [Hb [Hp [Hne [Hin [Hnd [p0 Hp0]]]]]]].
    exists p, p0, w. rewrite Hh, <- Hw.
    split; [exact Hb|]. split; [exact Hp0|]. split; [reflexivity|]. split; [now rewrite Hw|].
    split; [exact Hp|]. split; [exact Hne|]. split; [exact Hnd|].
    intros Hc Hr. subst cyc. cbn [negb] in *. apply in_map_iff in Hr. destruct Hr as [e [He Hie]].
    apply (Hnew root); [|now left]. rewrite <- He. apply in_map. auto.
  Qed.

  (* what an exhausted path-mode run delivers *)
  Lemma exhausted_whole tgt post fuel es cs Vs' :
    Run keqb accept h d tgt post fuel [root] root (adj_of h d root) es cs Vs' Exhausted ->
    exists pre pst, DfsKids h d accept [root] root pre pst Vs' /\
      map (@edst E) es = (if post then pst else pre) /\
      (forall v, In v Vs' <-> Reach h d accept root v) /\
      Permutation Vs' (root :: pre) /\ Permutation pre pst /\ NoDup (root :: pre) /\
      Permutation cs (flat_map (alle h d) (root :: pre)).
  Proof.
    intros HR. destruct (run_dfs_whole HR) as [pre [pst [HD [Hm Hp]]]].
    destruct (dk_whole HD) as [H1 [H2 [H3 H4]]]. exists pre, pst. repeat split; auto; apply H1.
  Qed.

  Theorem dfs_exhaustive : forall fuel st, SP None false fuel = (st, RNone E) ->
      s_heap st = h /\ TreeOK h d accept root (s_tree st) /\ ~ In root (map (@edst E) (s_tree st)) /\
      (forall v, Reach h d accept root v <-> v = root \/ In v (map (@edst E) (s_tree st))).
  Proof.
    intros fuel st H. unfold search_path in H.
    destruct (RS None false fuel) as [st1 r1] eqn:Hd.
    destruct r1; [destruct (backtrack _ _); discriminate| |discriminate]. inversion H; subst st1.
    apply dfs_run in Hd. cbn [negb] in Hd. destruct Hd as [cs [Vs' [HR [Hh Hc]]]].
    destruct (run_tree_ok HR) as [Hok [Hnew Hvs]]; [repeat constructor; intros []|].
    destruct (exhausted_whole HR) as [pre [pst [HD [Hm [Hreach [Hperm _]]]]]].
    split; [|split; [|split]]; auto.
    - intros Hin. apply (Hnew _ Hin). now left.
    - intros v. rewrite <- Hreach, Hm. split.
      + intros Hv. apply (Permutation_in _ Hperm) in Hv. destruct Hv; auto.
      + intros Hv. apply (Permutation_in _ (Permutation_sym Hperm)). destruct Hv; [left|right]; auto.
  Qed.

  Theorem dfs_path_sound : forall fuel t st p, keyof h root <> Some t -> SP (Some t) false fuel = (st, RPath p) ->
      exists v, keyof h v = Some t /\ IsPath h d accept root p v /\ p <> [] /\ NoDup (map (@edst E) p) /\
                ~ In root (map (@edst E) p).
  Proof.
    intros fuel t st p _ H. unfold search_path in H.
    destruct (RS (Some t) false fuel) as [st1 r1] eqn:Hd.
    destruct r1 as [v| |]; [|discriminate|discriminate].
    destruct (found_path _ _ _ Hd) as [p' [p0 [w [Hb [Hp0 [Hw [Htg [Hpath [Hne [Hnd Hnr]]]]]]]]]].
    clear Hp0. rewrite Hb in H. inversion H; subst st1 p'. exists v.
    split; [now apply (is_target_spec Hk)|]. split; [exact Hpath|]. auto.
  Qed.

  Theorem dfs_path_complete : forall fuel t st, keyof h root <> Some t -> SP (Some t) false fuel = (st, RNone E) ->
      forall v, keyof h v = Some t -> ~ Reach h d accept root v.
  Proof.
    intros fuel t st Hrt H v Hv Hr. unfold search_path in H.
    destruct (RS (Some t) false fuel) as [st1 r1] eqn:Hd.
    destruct r1; [destruct (backtrack _ _); discriminate| |discriminate]. inversion H; subst st1.
    apply dfs_run in Hd. cbn [negb] in Hd. destruct Hd as [cs [Vs' [HR [Hh Hc]]]].
    pose proof (run_last HR) as Hnt. cbn in Hnt.
    destruct (exhausted_whole HR) as [pre [pst [HD [Hm [Hreach [Hperm _]]]]]].
    apply Hreach in Hr. apply (Permutation_in _ Hperm) in Hr. destruct Hr as [Hr|Hr]; [congruence|].
    rewrite <- Hm in Hr. apply in_map_iff in Hr. destruct Hr as [e [He Hie]].
    rewrite Forall_forall in Hnt. specialize (Hnt _ Hie). unfold nontgt in Hnt. rewrite He in Hnt.
    apply (is_target_spec Hk) in Hv. congruence.
  Qed.

  Theorem dfs_no_panic : forall fuel t cyc, snd (SP t cyc fuel) <> RPanic E.
  Proof.
    intros fuel t cyc. unfold search_path.
    destruct (RS t cyc fuel) as [st1 r1] eqn:Hd.
    destruct r1 as [v| |]; cbn; try discriminate.
    destruct (found_path _ _ _ Hd) as [p' [p0 [w [Hb _]]]]. rewrite Hb. cbn. discriminate.
  Qed.

  Theorem dfs_find_agrees : forall fuel t, keyof h root <> Some t ->
      match snd (SP (Some t) false fuel) with
      | RPath p => exists v p0 w, snd (SF (Some t) fuel) = RNode E v /\ p = p0 ++ [w] /\ edst w = v /\ keyof h v = Some t
      | RNone _ => snd (SF (Some t) fuel) = RNone E
      | RFuel _ => snd (SF (Some t) fuel) = RFuel E
      | _ => False
      end.
  Proof.
    intros fuel t _. unfold search_path, search_find.
    destruct (RS (Some t) false fuel) as [st1 r1] eqn:Hd.
    destruct r1 as [v| |]; cbn; auto.
    destruct (found_path _ _ _ Hd) as [p' [p0 [w [Hb [Hp0 [Hw [Htg _]]]]]]]. rewrite Hb. cbn.
    exists v, p0, w. repeat split; auto. now apply (is_target_spec Hk).
  Qed.

  Theorem dfs_cycle_sound : forall fuel t st p, SP t true fuel = (st, RPath p) ->
      IsPath h d accept root p root /\ p <> [] /\ NoDup (map (@edst E) p).
  Proof.
    intros fuel t st p H. unfold search_path in H.
    destruct (RS t true fuel) as [st1 r1] eqn:Hd.
    destruct r1 as [v| |]; [|discriminate|discriminate].
    destruct (found_path _ _ _ Hd) as [p' [p0 [w [Hb [Hp0 [Hw [Htg [Hpath [Hne [Hnd Hnr]]]]]]]]]].
    clear Hp0. rewrite Hb in H. inversion H; subst st1 p'.
    destruct (valid_key h Hroot) as [kr Hkr]. rewrite Hkr in Htg. apply (is_target_spec Hk) in Htg.
    assert (Hv : v = root) by (eapply Hinj; eauto). rewrite Hv in Hpath. split; [exact Hpath|]. split; auto.
  Qed.

  Theorem dfs_cycle_complete : forall fuel t st, SP t true fuel = (st, RNone E) -> ~ ReachPlus h d accept root root.
  Proof.
    intros fuel t st H [p [Hne [Hc Hf]]]. unfold search_path in H.
    destruct (RS t true fuel) as [st1 r1] eqn:Hd.
    destruct r1; [destruct (backtrack _ _); discriminate| |discriminate]. inversion H; subst st1.
    apply dfs_run in Hd. cbn [negb] in Hd. destruct Hd as [cs [Vs' [HR [Hh _]]]].
    pose proof (run_last HR) as Hnt. cbn in Hnt.
    destruct (run_dfs_whole HR) as [pre [pst [HD [Hm _]]]].
    pose proof (dk_vs HD) as Hvs. rewrite app_nil_r in Hvs. subst Vs'.
    destruct p as [|e p]; [congruence|].
    inversion Hc as [|? ? ? ? Hsrc Hc']. inversion Hf as [|? ? Hg Hf'].
    assert (Hin : In root (rev pre)).
    { apply (@closed_chain _ _ _ accept h d (rev pre)) with (p := p) (a := edst e); auto.
      - intros e' Hg' Hs'. apply (dk_closed HD Hg'). right. now apply in_rev.
      - apply (dk_closed HD); auto. }
    apply in_rev in Hin. rewrite <- Hm in Hin. apply in_map_iff in Hin. destruct Hin as [e' [He' Hie']].
    rewrite Forall_forall in Hnt. specialize (Hnt _ Hie'). unfold nontgt in Hnt. rewrite He' in Hnt.
    destruct (valid_key h Hroot) as [kr Hkr]. rewrite Hkr in Hnt.
    assert (Hx : is_target keqb h (Some kr) root = true) by now apply is_target_spec.
    congruence.
  Qed.

  Lemma rs_fuel fuel t cyc : fuel_bound h <= fuel -> snd (RS t cyc fuel) <> OutOfFuel.
  Proof.
    intros Hf. destruct (RS t cyc fuel) as [st r] eqn:Hd. cbn. apply dfs_run in Hd.
    destruct Hd as [cs [Vs' [HR _]]]. apply (run_fuel Hwf HR (incl_refl _)).
    pose proof (fuel_enough h d (if negb cyc then [root] else []) Hroot). lia.
  Qed.

  Lemma oe_run fuel post st r :
    descend keqb cb d None post fuel (init_st h c0 root true) root 0 = (st, r) ->
    exists cs Vs', Run keqb accept h d None post fuel [root] root (adj_of h d root) (s_tree st) cs Vs' r /\
                   s_heap st = h /\ s_cb st = fold_left (cbstep cb h) cs c0.
  Proof. intros H. eapply (init_run Hk Hwf Hinj Hpure d None post fuel c0 true Hroot H). Qed.

  Lemma oe_fuel fuel post : fuel_bound h <= fuel -> snd (OE post fuel) <> None.
  Proof.
    intros Hf. unfold order_edges.
    destruct (descend keqb cb d None post fuel (init_st h c0 root true) root 0) as [st r] eqn:Hd.
    apply oe_run in Hd. destruct Hd as [cs [Vs' [HR _]]].
    destruct r; cbn; try discriminate. exfalso. apply (run_fuel Hwf HR (incl_refl _)); auto.
    pose proof (fuel_enough h d [root] Hroot). lia.
  Qed.

  Theorem dfs_terminates : forall fuel t cyc post, fuel_bound h <= fuel ->
      snd (SP t cyc fuel) <> RFuel E /\ snd (SF t fuel) <> RFuel E /\ snd (OE post fuel) <> None /\
      snd (ON post fuel) <> None.
  Proof.
    intros fuel t cyc post Hf. split; [|split; [|split]].
    - pose proof (rs_fuel t cyc Hf) as H. unfold search_path.
      destruct (RS t cyc fuel) as [st r]. cbn in H.
      destruct r; [destruct (backtrack _ _)| |]; cbn; congruence.
    - pose proof (rs_fuel t false Hf) as H. unfold search_find.
      destruct (RS t false fuel) as [st r]. cbn in H. destruct r; cbn; congruence.
    - now apply oe_fuel.
    - pose proof (oe_fuel post Hf) as H. unfold order_nodes.
      destruct (OE post fuel) as [st [tr|]]; cbn in *; congruence.
  Qed.

End DfsTheorems.

(* ------------------------------------------------------------------ *)
(* the recorder callback of Callback.v: ForEach(record), no script *)
Section Recorder.
  Variables K V E : Type.
  Variable keqb : K -> K -> bool.
  Hypothesis Hk : KeqbSpec keqb.
  Variable step : heap K V E -> op K V E -> heap K V E * outcome E.
  Variable pred : K -> K -> E -> bool.
  Variable vleb : V -> V -> bool.
  Variable h : heap K V E.
  Hypothesis Hwf : Wf h.
  Hypothesis Hinj : KeysInj h.
  Variable d : dir.
  Variable root : nat.
  Hypothesis Hroot : root < size h.

  Notation rec := (mk_cb step false pred []).

  Lemma recorder_pure : PureCb h rec (fun _ => true).
  Proof. intros c e. split; reflexivity. Qed.

  Lemma recorder_trace cs : forall c,
    c_trace (fold_left (cbstep rec h) cs c) = rev cs ++ c_trace c.
  Proof.
    induction cs as [|e cs IH]; intros c; [reflexivity|].
    cbn [fold_left rev]. rewrite IH, <- app_assoc. reflexivity.
  Qed.

  (* every edge of every reachable node is handed to the closure exactly once *)
  Lemma recorder_once tgt post fuel (st : sst K V E (cbst E)) cs Vs' :
    Run keqb (fun _ => true) h d tgt post fuel [root] root (adj_of h d root) (s_tree st) cs Vs' Exhausted ->
    s_cb st = fold_left (cbstep rec h) cs (cb0 E) ->
    exists R, NoDup R /\ (forall v, In v R <-> Reach h d (fun _ => true) root v) /\
      Permutation (rev (c_trace (s_cb st)))
                  (flat_map (fun u => map (fun x => (u, fst x, snd x)) (adj_of h d u)) R).
  Proof.
    intros HR Hc.
    destruct (exhausted_whole HR) as [pre [pst [HD [Hm [Hreach [Hperm [_ [Hnd Hcs]]]]]]]].
    exists Vs'. split; [|split; [exact Hreach|]].
    - eapply Permutation_NoDup; [apply Permutation_sym; exact Hperm|exact Hnd].
    - rewrite Hc, recorder_trace. cbn [cb0 c_trace]. rewrite app_nil_r, rev_involutive.
      etransitivity; [exact Hcs|].
      change (Permutation (flat_map (alle h d) (root :: pre)) (flat_map (alle h d) Vs')).
      apply Permutation_flat_map, Permutation_sym, Hperm.
  Qed.

  Theorem dfs_foreach_once : forall fuel st,
      search_path keqb rec vleb KDfs d fuel h (cb0 E) root None false = (st, RNone E) ->
      exists R, NoDup R /\ (forall v, In v R <-> Reach h d (fun _ => true) root v) /\
        Permutation (rev (c_trace (s_cb st)))
                    (flat_map (fun u => map (fun x => (u, fst x, snd x)) (adj_of h d u)) R).
  Proof.
    intros fuel st H. unfold search_path in H.
    destruct (run_search keqb rec vleb KDfs d fuel h (cb0 E) root None false) as [st1 r1] eqn:Hd.
    destruct r1; [destruct (backtrack _ _); discriminate| |discriminate]. inversion H; subst st1.
    apply (dfs_run Hk vleb Hwf Hinj recorder_pure d Hroot) in Hd. cbn [negb] in Hd.
    destruct Hd as [cs [Vs' [HR [_ Hc]]]]. eapply recorder_once; eauto.
  Qed.
End Recorder.

Print Assumptions dfs_exhaustive.
Print Assumptions dfs_path_sound.
Print Assumptions dfs_path_complete.
Print Assumptions dfs_no_panic.
Print Assumptions dfs_find_agrees.
Print Assumptions dfs_cycle_sound.
Print Assumptions dfs_cycle_complete.
Print Assumptions dfs_terminates.
Print Assumptions dfs_foreach_once.
