(* MacroProof.v — the graph macros of model/Macro.v: macro_build = rebuild on the listed nodes and
   edges; it panics naming the first missing key, and otherwise denotes exactly the listed graph. *)
From Gdsl.Model Require Import Base NodeOps Container Serde Macro Spec.
From Gdsl.Proofs Require Import NodeLemmas NodeList NodeD ContainerProof SerdeProof.
From Coq Require Import Lia Permutation.

Set Implicit Arguments.

Section MacroProof.
  Variables K V E : Type.
  Variable keqb : K -> K -> bool.
  Hypothesis Hk : KeqbSpec keqb.
  Notation heap := (heap K V E).

  Lemma macro_keys (items : list (item K V E)) :
    map fst (map (@item_node K V E) items) = map (fun it => fst (item_node it)) items.
  Proof. apply map_map. Qed.

  Lemma macro_panic_rebuild (items : list (item K V E)) k :
    macro_build keqb items = MPanic V E k <->
    rebuild keqb (map (@item_node K V E) items) (flat_map (@item_edges K V E) items) = DeMissing V E k.
  Proof.
    unfold macro_build. destruct (rebuild keqb _ _) as [h g|k']; split; try discriminate.
    - intros [= ->]. reflexivity.
    - intros [= ->]. reflexivity.
  Qed.

  Theorem macro_panics_first_missing : forall items k, macro_build keqb items = MPanic V E k <->
    (exists es1 s t e es2, flat_map (@item_edges K V E) items = es1 ++ (s, t, e) :: es2 /\
      (forall s' t' e', In (s', t', e') es1 -> In s' (map (fun it => fst (item_node it)) items) /\ In t' (map (fun it => fst (item_node it)) items)) /\
      ((~ In s (map (fun it => fst (item_node it)) items) /\ k = s) \/
       (In s (map (fun it => fst (item_node it)) items) /\ ~ In t (map (fun it => fst (item_node it)) items) /\ k = t))).
  Proof.
    intros items k. rewrite macro_panic_rebuild, (rebuild_missing_first Hk), macro_keys. reflexivity.
  Qed.
  Lemma kouts_item k (it : item K V E) :
    kouts keqb k (item_edges it) =
    if keqb (fst (item_node it)) k then map (fun te => (Some (fst te), snd te)) (snd it) else [].
  Proof.
    destruct it as [[k0 v0] tes]. unfold item_edges, item_node. cbn [fst snd].
    induction tes as [|[t e] tes IH]; cbn [map].
    - now destruct (keqb k0 k).
    - unfold kouts in *. cbn [flat_map fst snd]. rewrite IH. now destruct (keqb k0 k).
  Qed.

  Lemma item_edges_src (it : item K V E) s t e :
    In (s, t, e) (item_edges it) -> s = fst (item_node it).
  Proof.
    unfold item_edges, item_node. intros Hin. apply in_map_iff in Hin.
    destruct Hin as (te & [= <- _ _] & _). reflexivity.
  Qed.

  Theorem macro_denotes : forall items, NoDup (map (fun it => fst (item_node it)) items) ->
    (forall s t e, In (s, t, e) (flat_map (@item_edges K V E) items) -> In t (map (fun it => fst (item_node it)) items)) ->
    exists h g, macro_build keqb items = MOk h g /\ Inv h /\ GraphOK h g /\
      (forall k, g_contains keqb g k = true <-> In k (map (fun it => fst (item_node it)) items)) /\
      (forall it, In it items -> exists u, g_get keqb g (fst (item_node it)) = Some u /\ valof h u = Some (snd (item_node it)) /\
         map (fun p => (keyof h (fst p), snd p)) (outs h u) = map (fun te => (Some (fst te), snd te)) (snd it)).
  Proof.
    intros items Hnd Hdecl.
    assert (Hd : forall s t e, In (s, t, e) (flat_map (@item_edges K V E) items) ->
                 In s (map fst (map (@item_node K V E) items)) /\ In t (map fst (map (@item_node K V E) items))).
    { intros s t e Hin. rewrite macro_keys. split; [|now apply (Hdecl s t e)].
      apply in_flat_map in Hin. destruct Hin as (it & Hit & Hin). apply item_edges_src in Hin. subst s.
      now apply (in_map (fun it => fst (item_node it))). }
    destruct (rebuild_keyed Hk _ _ Hd) as (h & g & Hr & HI & HG & Hc & Hget).
    exists h, g. split; [unfold macro_build; now rewrite Hr|]. split; [exact HI|]. split; [exact HG|].
    split; [intros k; rewrite Hc, macro_keys; reflexivity|].
    intros it Hit.
    assert (Hkin : In (fst (item_node it)) (map fst (map (@item_node K V E) items))).
    { rewrite macro_keys. now apply (in_map (fun it => fst (item_node it))). }
    apply Hc in Hkin. apply g_contains_get in Hkin. destruct Hkin as [u Hu]. exists u. split; [exact Hu|].
    destruct (Hget _ _ Hu) as ((v & Hv & Hval) & Ho & _). split.
    - rewrite Hval. f_equal. rewrite macro_keys in Hc.
      assert (Hnd' : NoDup (map fst (map (@item_node K V E) items))) by now rewrite macro_keys.
      eapply nodup_fst_inj; [exact Hnd'|exact Hv|]. rewrite <- surjective_pairing. now apply in_map.
    - unfold keyed in Ho. rewrite Ho, kouts_flat_map.
      rewrite (@flat_map_single _ _ _ (fun it0 : item K V E => fst (item_node it0)) _ items it Hnd Hit).
      + now rewrite kouts_item, (keqb_rfl Hk).
      + intros it0 _ Hne. rewrite kouts_item, (keqb_neq Hk); [reflexivity|exact Hne].
  Qed.
End MacroProof.

Print Assumptions macro_panics_first_missing.
Print Assumptions macro_denotes.
