(* MacroProof.v — the graph macros of model/Macro.v: macro_build = rebuild on the listed nodes and
   edges; it panics naming the first missing key, and otherwise denotes exactly the listed graph. *)
From Gdsl.Model Require Import Base NodeOps Container Serde Macro Spec.
From Gdsl.Proofs Require Import NodeLemmas NodeList NodeD ContainerProof SerdeProof.
From Coq Require Import Lia Permutation.

Set Implicit Arguments.

Section MacroProof.
  Variables K V E : Type.
  Variable keqb : K -> K -> bool.
  Hypothesis Hk : KeqbSpec keqb.
  Notation heap := (heap K V E).

  Lemma macro_keys (items : list (item K V E)) :
    map fst (map (@item_node K V E) items) = map (fun it => fst (item_node it)) items.
  Proof. apply map_map. Qed.

  Lemma macro_panic_rebuild (items : list (item K V E)) k :
    macro_build keqb items = MPanic V E k <->
    rebuild keqb (map (@item_node K V E) items) (flat_map (@item_edges K V E) items) = DeMissing V E k.
  Proof.
    unfold macro_build. destruct (rebuild keqb _ _) as [h g|k']; split; try discriminate.
    - intros [= ->]. reflexivity.
    - intros [= ->]. reflexivity.
  Qed.

  Theorem macro_panics_first_missing : forall items k, macro_build keqb items = MPanic V E k <->
    (exists es1 s t e es2, flat_map (@item_edges K V E) items = es1 ++ (s, t, e) :: es2 /\
      (forall s' t' e', In (s', t', e') es1 -> In s' (map (fun it => fst (item_node it)) items) /\ In t' (map (fun it => fst (item_node it)) items)) /\
      ((~ In s (map (fun it => fst (item_node it)) items) /\ k = s) \/
       (In s (map (fun it => fst (item_node it)) items) /\ ~ In t (map (fun it => fst (item_node it)) items) /\ k = t))).
  Proof.
    intros items k. rewrite macro_panic_rebuild, (rebuild_missing_first Hk), macro_keys. reflexivity.
  Qed.
End MacroProof.

Print Assumptions macro_panics_first_missing.
