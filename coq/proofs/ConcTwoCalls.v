(* ConcTwoCalls.v — C17, "some sequential order of the same calls that RESPECTS EACH THREAD'S OWN ORDER": a bounded
   scenario space in which one thread makes TWO calls (the spaces of ConcClassProof.v have one call per thread, so program
   order never mattered there).

   Scenario space (both flavours): two nodes, keys 5 and 3; every initial edge list of length <= 1 over the four ordered
   pairs (5 heaps); thread 0 makes two calls, thread 1 one call, each drawn from ALL calls of Conc.call on the two nodes
   (28 directed, 24 undirected): 5*28^3 = 109760 directed and 5*24^3 = 69120 undirected scenarios; ALL maximal
   interleavings of the critical sections (Conc.explore, fuel 200).
   Statement: every scenario of the space for which [known_class] answers None (31470 directed, 13600 undirected) is
   [scenario_good]: every schedule ends without panic / poison, with all threads done, and with the outcome of a SERIAL
   maximal schedule — one in which a thread is only preempted between two of its calls, hence one that runs thread 0's
   two calls in program order.  The bound is part of the statement; this is not the unbounded property.
   The space is traversed by nested folds (a flat list of 10^5 scenarios overflows the stack of vm_compute). *)
From Gdsl.Model Require Import Base NodeOps Conc ConcClass.
From Gdsl.Proofs Require Import NodeLemmas ConcProof ConcClassProof.
From Coq Require Import List Arith Bool Lia NArith.
Import ListNotations.
Set Warnings "-abstract-large-number".

Definition small_heaps1 (directed : bool) : list (heap nat nat nat) := map (mk_heap directed) edge_lists1.

Definition all21 (directed : bool) (f : heap nat nat nat * list (list (call nat nat)) -> bool) : bool :=
  forallb (fun h =>
    forallb (fun a1 =>
      forallb (fun a2 =>
        forallb (fun b => f (h, [[a1; a2]; [b]])) (small_calls directed))
      (small_calls directed))
    (small_calls directed))
  (small_heaps1 directed).

Definition count21 (directed : bool) (f : heap nat nat nat * list (list (call nat nat)) -> bool) : nat :=
  fold_right (fun h acc =>
    fold_right (fun a1 acc =>
      fold_right (fun a2 acc =>
        fold_right (fun b acc => if f (h, [[a1; a2]; [b]]) then S acc else acc) acc (small_calls directed))
      acc (small_calls directed))
    acc (small_calls directed))
  0 (small_heaps1 directed).

(* how many scenarios of the space lie outside every class: the statement below is about these *)
Example two_calls_outside_count :
  N.of_nat (count21 true (outside true)) = 31470%N /\ N.of_nat (count21 false (outside false)) = 13600%N.
Proof. vm_compute. split; reflexivity. Qed.

Lemma c17_two_calls_outside_classes_good_d : all21 true (outside_good true) = true.
Proof. vm_cast_no_check (eq_refl true). Qed.   (* one evaluation, by the kernel's VM, at Qed *)

Lemma c17_two_calls_outside_classes_good_u : all21 false (outside_good false) = true.
Proof. vm_cast_no_check (eq_refl true). Qed.

Theorem c17_two_calls_outside_classes_good : forall directed, all21 directed (outside_good directed) = true.
Proof. intros []; [exact c17_two_calls_outside_classes_good_d | exact c17_two_calls_outside_classes_good_u]. Qed.

(* spelled out *)
Theorem c17_two_calls_outside_classes_serialisable : forall directed h a1 a2 b sched,
  In h (small_heaps1 directed) -> In a1 (small_calls directed) -> In a2 (small_calls directed) -> In b (small_calls directed) ->
  known_class Nat.eqb directed h [[a1; a2]; [b]] = None ->
  let c0 := init_config Nat.eqb directed h [[a1; a2]; [b]] in
  In sched (explore Nat.eqb directed 200 c0 []) ->
  no_panic (final Nat.eqb directed 200 c0 sched) = true /\
  all_done (final Nat.eqb directed 200 c0 sched) = true /\
  exists s, In s (explore Nat.eqb directed 200 c0 []) /\
            serial_from Nat.eqb directed c0 None false s = true /\
            outcome_eqb Nat.eqb (final Nat.eqb directed 200 c0 s) (final Nat.eqb directed 200 c0 sched) = true.
Proof.
  intros directed h a1 a2 b sched Hh Ha1 Ha2 Hb Hnone c0 Hs.
  pose proof (c17_two_calls_outside_classes_good directed) as H. unfold all21 in H.
  rewrite forallb_forall in H. specialize (H h Hh).
  rewrite forallb_forall in H. specialize (H a1 Ha1).
  rewrite forallb_forall in H. specialize (H a2 Ha2).
  rewrite forallb_forall in H. specialize (H b Hb).
  unfold outside_good in H. cbn beta iota delta [fst snd] in H. rewrite Hnone in H.
  pose proof (scenario_good_spec nat nat nat Nat.eqb Nat.eqb directed 200 h [[a1; a2]; [b]] H sched Hs) as Hgs.
  apply good_schedule_spec in Hgs.
  destruct Hgs as [Hnp [Hd [s [Hins [Hser Hout]]]]].
  split; [exact Hnp|]. split; [exact Hd|].
  exists s. split; [exact Hins|]. split; [exact Hser|exact Hout].
Qed.


Print Assumptions c17_two_calls_outside_classes_good.
Print Assumptions c17_two_calls_outside_classes_serialisable.
