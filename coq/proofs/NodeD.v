(* NodeD.v — correctness of the DIRECTED edge operations of model/NodeOps.v:
   connect, try_connect_d, disconnect_d, isolate_d and histories run_d. *)
From Gdsl.Model Require Import Base NodeOps Spec.
From Gdsl.Proofs Require Import NodeLemmas NodeList.
From Coq Require Import Lia.

Set Implicit Arguments.

Section NodeD.
  Variables K V E : Type.
  Variable keqb : K -> K -> bool.
  Hypothesis Hk : KeqbSpec keqb.
  Notation heap := (heap K V E).
  Implicit Types h : heap.

  (* ---------------- keys ---------------- *)
  Lemma keyof_some h u : u < size h -> exists k, keyof h u = Some k.
  Proof.
    unfold keyof, size. intros Hu. destruct (nth_error (nodes h) u) as [p|] eqn:Hn.
    - exists (fst p). reflexivity.
    - apply nth_error_None in Hn. lia.
  Qed.

  Lemma keyof_lt h u k : keyof h u = Some k -> u < size h.
  Proof.
    unfold keyof, size. intros H. apply nth_error_Some. intros Hn. rewrite Hn in H. discriminate.
  Qed.

  Lemma keqb_refl k : keqb k k = true.
  Proof. now apply Hk. Qed.

  Lemma has_key_id h v k w :
    KeysInj h -> keyof h v = Some k -> w < size h -> has_key keqb h k w = Nat.eqb w v.
  Proof.
    intros HI Hv Hw. unfold has_key. destruct (keyof_some h Hw) as [k' Hk'].
    rewrite Hk'. destruct (Nat.eqb_spec w v) as [->|Hne].
    - rewrite Hv in Hk'. injection Hk' as ->. apply keqb_refl.
    - destruct (keqb k' k) eqn:Hkk; [|reflexivity]. apply Hk in Hkk. subst k'.
      exfalso. apply Hne. eapply HI; eassumption.
  Qed.

  Lemma same_key_id h u w :
    KeysInj h -> u < size h -> w < size h -> same_key keqb h u w = Nat.eqb w u.
  Proof.
    intros HI Hu Hw. unfold same_key. destruct (keyof_some h Hu) as [k Hku].
    rewrite Hku. now apply has_key_id.
  Qed.

  (* on the adjacency lists of a well-formed heap the key predicates are the id predicates *)
  Lemma has_key_outs h u v k x :
    Inv h -> keyof h v = Some k -> In x (outs h u) -> has_key keqb h k (fst x) = idp v (fst x).
  Proof.
    intros (_ & (_ & Ho & _) & HI) Hv Hx. unfold idp. apply has_key_id; auto.
    destruct x as [w e]. eapply Ho, Hx.
  Qed.

  Lemma has_key_ins h u v k x :
    Inv h -> keyof h v = Some k -> In x (ins h u) -> has_key keqb h k (fst x) = idp v (fst x).
  Proof.
    intros (_ & (_ & _ & Hi) & HI) Hv Hx. unfold idp. apply has_key_id; auto.
    destruct x as [w e]. eapply Hi, Hx.
  Qed.

  (* ---------------- connect ---------------- *)
  Lemma connect_outs h u v e w :
    outs (connect h u v e) w = if Nat.eqb w u then outs h u ++ [(v, e)] else outs h w.
  Proof. reflexivity. Qed.

  Lemma connect_ins h u v e w :
    ins (connect h u v e) w = if Nat.eqb w v then ins h v ++ [(u, e)] else ins h w.
  Proof. reflexivity. Qed.

  Lemma connect_spec_ h u v e :
     nodes (connect h u v e) = nodes h /\
     outs (connect h u v e) u = outs h u ++ [(v, e)] /\
     ins (connect h u v e) v = ins h v ++ [(u, e)] /\
     (forall w, w <> u -> outs (connect h u v e) w = outs h w) /\
     (forall w, w <> v -> ins (connect h u v e) w = ins h w).
  Proof.
    split; [reflexivity|]. rewrite !connect_outs, !connect_ins, !Nat.eqb_refl.
    split; [reflexivity|]. split; [reflexivity|]. split; intros w Hw.
    - rewrite connect_outs. destruct (Nat.eqb_spec w u); [congruence|reflexivity].
    - rewrite connect_ins. destruct (Nat.eqb_spec w v); [congruence|reflexivity].
  Qed.

  Lemma connect_mirror h u v e : Mirror h -> Mirror (connect h u v e).
  Proof.
    intros HM a b. rewrite connect_outs, connect_ins.
    destruct (Nat.eqb_spec a u) as [->|Ha]; destruct (Nat.eqb_spec b v) as [->|Hb];
      rewrite ?to_app, ?HM.
    - now rewrite !to_single_same.
    - rewrite to_single_other by congruence. now rewrite app_nil_r.
    - rewrite to_single_other by congruence. now rewrite app_nil_r.
    - reflexivity.
  Qed.

  Lemma connect_wf h u v e : Wf h -> u < size h -> v < size h -> Wf (connect h u v e).
  Proof.
    intros (H0 & Ho & Hi) Hu Hv. unfold Wf. change (size (connect h u v e)) with (size h).
    repeat split.
    - rewrite connect_outs. destruct (Nat.eqb_spec u0 u); [lia|now apply H0].
    - rewrite connect_ins. destruct (Nat.eqb_spec u0 v); [lia|now apply H0].
    - intros a b x. rewrite connect_outs. destruct (Nat.eqb a u).
      + intros Hin. apply in_app_or in Hin. destruct Hin as [Hin|[[= <- _]|[]]]; [eapply Ho, Hin|exact Hv].
      + apply Ho.
    - intros a b x. rewrite connect_ins. destruct (Nat.eqb a v).
      + intros Hin. apply in_app_or in Hin. destruct Hin as [Hin|[[= <- _]|[]]]; [eapply Hi, Hin|exact Hu].
      + apply Hi.
  Qed.

  Lemma connect_inv_ h u v e : Inv h -> u < size h -> v < size h -> Inv (connect h u v e).
  Proof.
    intros (HM & HW & HI) Hu Hv. split; [|split].
    - now apply connect_mirror.
    - now apply connect_wf.
    - exact HI.
  Qed.

  (* ---------------- alloc ---------------- *)
  Lemma keyof_alloc h k x w :
    keyof (alloc h k x) w =
    if Nat.ltb w (size h) then keyof h w else if Nat.eqb w (size h) then Some k else None.
  Proof.
    unfold keyof, alloc, size. cbn [nodes].
    destruct (Nat.ltb_spec w (length (nodes h))) as [Hlt|Hge].
    - now rewrite nth_error_app1.
    - rewrite nth_error_app2 by exact Hge.
      destruct (Nat.eqb_spec w (length (nodes h))) as [->|Hne].
      + now rewrite Nat.sub_diag.
      + destruct (w - length (nodes h)) as [|n] eqn:Hd; [lia|]. cbn. now destruct n.
  Qed.

  Lemma size_alloc h k x : size (alloc h k x) = S (size h).
  Proof. unfold size, alloc. cbn [nodes]. rewrite app_length. cbn. lia. Qed.

  Lemma keyof_ge h w : size h <= w -> keyof h w = None.
  Proof.
    intros H. unfold keyof. replace (nth_error (nodes h) w) with (@None (K * V)); [reflexivity|].
    symmetry. now apply nth_error_None.
  Qed.

  Lemma alloc_inv_ h k x : Inv h -> (forall w, keyof h w <> Some k) -> Inv (alloc h k x).
  Proof.
    intros (HM & (H0 & Ho & Hi) & HI) Hfresh. split; [|split].
    - exact HM.
    - unfold Wf. rewrite size_alloc. repeat split.
      + apply H0. lia.
      + apply H0. lia.
      + intros a b e Hin. change (outs (alloc h k x)) with (outs h) in Hin.
        apply Ho in Hin. lia.
      + intros a b e Hin. change (ins (alloc h k x)) with (ins h) in Hin.
        apply Hi in Hin. lia.
    - intros a b k0. rewrite !keyof_alloc.
      destruct (Nat.ltb_spec a (size h)) as [Ha|Ha]; destruct (Nat.ltb_spec b (size h)) as [Hb|Hb].
      + apply HI.
      + destruct (Nat.eqb_spec b (size h)); [|discriminate].
        intros H1 [= <-]. now apply Hfresh in H1.
      + destruct (Nat.eqb_spec a (size h)); [|discriminate].
        intros [= <-] H1. now apply Hfresh in H1.
      + destruct (Nat.eqb_spec a (size h)); [|discriminate].
        destruct (Nat.eqb_spec b (size h)); [|discriminate]. congruence.
  Qed.

  (* ---------------- is_connected_d / try_connect_d ---------------- *)
  Lemma is_some_true A (o : option A) : is_some o = true <-> o <> None.
  Proof. destruct o; cbn; split; congruence. Qed.

  Lemma is_connected_d_in h u v kv : Inv h -> keyof h v = Some kv ->
     (is_connected_d keqb h u kv = true <-> exists e, In (v, e) (outs h u)).
  Proof.
    intros HInv Hv. unfold is_connected_d, find_outbound.
    rewrite is_some_true.
    rewrite (find_first_p_ext (has_key keqb h kv) (idp v)).
    - apply find_first_id_some.
    - intros x Hx. eapply has_key_outs; eassumption.
  Qed.

  Lemma find_inbound_in h u v ku : Inv h -> keyof h u = Some ku ->
     (find_inbound keqb h v ku <> None <-> exists e, In (u, e) (ins h v)).
  Proof.
    intros HInv Hu. unfold find_inbound.
    rewrite (find_first_p_ext (has_key keqb h ku) (idp u)).
    - apply find_first_id_some.
    - intros x Hx. eapply has_key_ins; eassumption.
  Qed.

  Lemma try_connect_d_spec_ h u v e : Inv h -> u < size h -> v < size h ->
     ((exists e', In (v, e') (outs h u)) /\ try_connect_d keqb h u v e = (h, ErrExists)) \/
     ((forall e', ~ In (v, e') (outs h u)) /\ try_connect_d keqb h u v e = (connect h u v e, OkU)).
  Proof.
    intros HInv Hu Hv. unfold try_connect_d. destruct (keyof_some h Hv) as [kv Hkv]. rewrite Hkv.
    pose proof (@is_connected_d_in h u v kv HInv Hkv) as Hc.
    destruct (is_connected_d keqb h u kv).
    - left. split; [now apply Hc|reflexivity].
    - right. split; [|reflexivity]. intros e' He'.
      assert (false = true) by (apply Hc; eauto). discriminate.
  Qed.

  (* ---------------- disconnect_d ---------------- *)
  (* removing matching first entries on both sides keeps the invariant *)
  Lemma remove_pair_inv h h' u v e l1 l2 m1 m2 :
    Inv h ->
    outs h u = l1 ++ (v, e) :: l2 -> (forall x, In x l1 -> fst x <> v) ->
    ins h v = m1 ++ (u, e) :: m2 -> (forall x, In x m1 -> fst x <> u) ->
    nodes h' = nodes h -> outs h' u = l1 ++ l2 -> ins h' v = m1 ++ m2 ->
    (forall w, w <> u -> outs h' w = outs h w) -> (forall w, w <> v -> ins h' w = ins h w) ->
    Inv h'.
  Proof.
    intros (HM & (H0 & Ho & Hi) & HI) Hou Hl1 Hiv Hm1 Hn Hou' Hiv' Hoo Hio.
    assert (Hsz : size h' = size h) by (unfold size; now rewrite Hn).
    assert (Hsubo : forall a x, In x (outs h' a) -> In x (outs h a)).
    { intros a x. destruct (Nat.eq_dec a u) as [->|Ha].
      - rewrite Hou', Hou. intros Hin. apply in_app_or in Hin. apply in_or_app.
        destruct Hin; [now left|right; now right].
      - now rewrite Hoo. }
    assert (Hsubi : forall a x, In x (ins h' a) -> In x (ins h a)).
    { intros a x. destruct (Nat.eq_dec a v) as [->|Ha].
      - rewrite Hiv', Hiv. intros Hin. apply in_app_or in Hin. apply in_or_app.
        destruct Hin; [now left|right; now right].
      - now rewrite Hio. }
    split; [|split].
    - intros a b. pose proof (HM a b) as Hab.
      destruct (Nat.eq_dec a u) as [->|Ha]; destruct (Nat.eq_dec b v) as [->|Hb].
      + rewrite Hou', Hiv'. rewrite Hou, Hiv in Hab.
        rewrite (to_split_same _ _ _ Hl1), (to_split_same _ _ _ Hm1) in Hab. congruence.
      + rewrite Hou', (Hio _ Hb). rewrite Hou in Hab.
        rewrite to_split_other in Hab by exact Hb. exact Hab.
      + rewrite (Hoo _ Ha), Hiv'. rewrite Hiv in Hab.
        rewrite to_split_other in Hab by exact Ha. exact Hab.
      + now rewrite (Hoo _ Ha), (Hio _ Hb).
    - unfold Wf. rewrite Hsz. repeat split.
      + destruct (H0 _ H) as [Hx _]. destruct (outs h' u0) as [|y r] eqn:Hy; [reflexivity|].
        exfalso. assert (Hin : In y (outs h u0)) by (apply Hsubo; rewrite Hy; now left).
        now rewrite Hx in Hin.
      + destruct (H0 _ H) as [_ Hx]. destruct (ins h' u0) as [|y r] eqn:Hy; [reflexivity|].
        exfalso. assert (Hin : In y (ins h u0)) by (apply Hsubi; rewrite Hy; now left).
        now rewrite Hx in Hin.
      + intros a b x Hin. eapply Ho, Hsubo, Hin.
      + intros a b x Hin. eapply Hi, Hsubi, Hin.
    - intros a b k. unfold keyof. rewrite Hn. apply HI.
  Qed.

  Lemma disconnect_d_spec_ h u k : Inv h -> u < size h ->
     ((forall v e, In (v, e) (outs h u) -> keyof h v <> Some k) /\ disconnect_d keqb h u k = (h, ErrNotFound)) \/
     (exists v e l1 l2 m1 m2 h',
        keyof h v = Some k /\
        outs h u = l1 ++ (v, e) :: l2 /\ (forall x, In x l1 -> fst x <> v) /\
        ins h v = m1 ++ (u, e) :: m2 /\ (forall x, In x m1 -> fst x <> u) /\
        disconnect_d keqb h u k = (h', OkE e) /\
        nodes h' = nodes h /\ outs h' u = l1 ++ l2 /\ ins h' v = m1 ++ m2 /\
        (forall w, w <> u -> outs h' w = outs h w) /\ (forall w, w <> v -> ins h' w = ins h w) /\
        Inv h').
  Proof.
    intros HInv Hu. pose proof HInv as (HM & (H0 & Ho & Hi) & HI).
    unfold disconnect_d, find_outbound.
    destruct (find_first_p (has_key keqb h k) (outs h u)) as [[v e0]|] eqn:Hf.
    - right. apply find_first_some in Hf. destruct Hf as [Hin Hkey]. cbn [fst] in Hkey.
      assert (Hv : v < size h) by (eapply Ho, Hin).
      assert (Hkv : keyof h v = Some k).
      { unfold has_key in Hkey. destruct (keyof h v) as [k'|]; [|discriminate].
        apply Hk in Hkey. now subst. }
      rewrite (remove_first_p_ext (has_key keqb h k) (idp v))
        by (intros x Hx; eapply has_key_outs; eassumption).
      destruct (@remove_first_exists E v (outs h u)) as (e & l' & Hr).
      { apply to_nonempty_in. eauto. }
      rewrite Hr. apply remove_first_split in Hr. destruct Hr as (l1 & l2 & Hou & -> & Hl1).
      cbv zeta.
      change (ins (set_outs h u (l1 ++ l2)) v) with (ins h v).
      change (same_key keqb (set_outs h u (l1 ++ l2)) u) with (same_key keqb h u).
      rewrite (remove_first_p_ext (same_key keqb h u) (idp u)).
      2:{ intros [w x] Hx. unfold idp. cbn [fst]. apply same_key_id; auto. eapply Hi, Hx. }
      pose proof (HM u v) as Huv. rewrite Hou, (to_split_same _ _ _ Hl1) in Huv.
      destruct (@remove_first_exists E u (ins h v)) as (e2 & m' & Hr2).
      { rewrite <- Huv. discriminate. }
      rewrite Hr2. apply remove_first_split in Hr2. destruct Hr2 as (m1 & m2 & Hiv & -> & Hm1).
      rewrite Hiv, (to_split_same _ _ _ Hm1) in Huv. injection Huv as <- Htl.
      exists v, e, l1, l2, m1, m2, (set_ins (set_outs h u (l1 ++ l2)) v (m1 ++ m2)).
      assert (Hoo : forall w, w <> u ->
                outs (set_ins (set_outs h u (l1 ++ l2)) v (m1 ++ m2)) w = outs h w).
      { intros w Hw. cbn [outs set_ins set_outs]. now apply upd_other. }
      assert (Hio : forall w, w <> v ->
                ins (set_ins (set_outs h u (l1 ++ l2)) v (m1 ++ m2)) w = ins h w).
      { intros w Hw. cbn [ins set_ins set_outs]. now apply upd_other. }
      assert (Hou' : outs (set_ins (set_outs h u (l1 ++ l2)) v (m1 ++ m2)) u = l1 ++ l2).
      { cbn [outs set_ins set_outs]. apply upd_same. }
      assert (Hiv' : ins (set_ins (set_outs h u (l1 ++ l2)) v (m1 ++ m2)) v = m1 ++ m2).
      { cbn [ins set_ins set_outs]. apply upd_same. }
      repeat (split; [first [assumption|reflexivity]|]).
      eapply remove_pair_inv with (h := h) (u := u) (v := v); try eassumption. reflexivity.
    - left. split; [|reflexivity]. intros v e Hin Hkv.
      rewrite find_first_none in Hf. apply Hf in Hin. cbn [fst] in Hin.
      unfold has_key in Hin. rewrite Hkv, keqb_refl in Hin. discriminate.
  Qed.

  (* ---------------- isolate_d ---------------- *)
  (* the outbound loop walks the (unchanging) list outs h u from pos; for every target v it
     removes from ins v as many u-entries as there are v-entries in the walked suffix *)
  Lemma iso_out_loop_spec s : forall fuel h u pos,
    KeysInj h -> u < size h ->
    (forall v w e, In (w, e) (ins h v) -> w < size h) ->
    skipn pos (outs h u) = s ->
    length s < fuel ->
    (forall v, length (to_ v s) <= length (to_ u (ins h v))) ->
    exists h', iso_out_loop keqb fuel h u pos = (h', LDone) /\
      nodes h' = nodes h /\ (forall w, outs h' w = outs h w) /\
      (forall v, ins h' v = drop_id u (length (to_ v s)) (ins h v)).
  Proof.
    induction s as [|[v e] s' IH]; intros fuel h u pos HI Hu Hi Hs Hf Hlen;
      (destruct fuel as [|f]; [cbn in Hf; lia|]); cbn [iso_out_loop].
    - rewrite (skipn_nil_nth _ _ Hs). exists h. repeat split; try reflexivity.
      intros v. cbn [to_ filter map length]. now rewrite drop_id_0.
    - apply skipn_cons_nth in Hs. destruct Hs as [Hnth Hs]. rewrite Hnth.
      rewrite (remove_first_p_ext (same_key keqb h u) (idp u)).
      2:{ intros [w x] Hx. unfold idp. cbn [fst]. apply same_key_id; auto. eapply Hi, Hx. }
      pose proof (Hlen v) as Hv. rewrite to_cons, Nat.eqb_refl in Hv. cbn [length] in Hv.
      destruct (@remove_first_exists E u (ins h v)) as (e2 & l' & Hr).
      { intros Hn. rewrite Hn in Hv. cbn in Hv. lia. }
      rewrite Hr. apply remove_first_drop in Hr. subst l'.
      destruct (IH f (set_ins h v (drop_id u 1 (ins h v))) u (S pos)) as (h' & Hrun & Hn & Ho & Hi').
      + exact HI.
      + exact Hu.
      + intros a w x. cbn [ins set_ins]. unfold upd. destruct (Nat.eqb a v).
        * intros Hin. apply drop_id_in in Hin. eapply Hi, Hin.
        * apply Hi.
      + exact Hs.
      + cbn in Hf. lia.
      + intros a. cbn [ins set_ins]. unfold upd. destruct (Nat.eqb_spec a v) as [->|Ha].
        * rewrite to_drop_same_len. lia.
        * pose proof (Hlen a) as Hla. rewrite to_cons in Hla.
          destruct (Nat.eqb_spec v a); [congruence|exact Hla].
      + exists h'. split; [exact Hrun|]. split; [exact Hn|]. split; [exact Ho|].
        intros a. rewrite Hi'. cbn [ins set_ins]. unfold upd. rewrite to_cons.
        destruct (Nat.eqb_spec a v) as [->|Ha].
        * rewrite Nat.eqb_refl. cbn [length]. rewrite drop_id_add. f_equal. lia.
        * destruct (Nat.eqb_spec v a); [congruence|reflexivity].
  Qed.

  Lemma iso_in_loop_spec s : forall fuel h u pos,
    KeysInj h -> u < size h ->
    (forall v w e, In (w, e) (outs h v) -> w < size h) ->
    skipn pos (ins h u) = s ->
    length s < fuel ->
    (forall v, length (to_ v s) <= length (to_ u (outs h v))) ->
    exists h', iso_in_loop keqb fuel h u pos = (h', LDone) /\
      nodes h' = nodes h /\ (forall w, ins h' w = ins h w) /\
      (forall v, outs h' v = drop_id u (length (to_ v s)) (outs h v)).
  Proof.
    induction s as [|[v e] s' IH]; intros fuel h u pos HI Hu Hi Hs Hf Hlen;
      (destruct fuel as [|f]; [cbn in Hf; lia|]); cbn [iso_in_loop].
    - rewrite (skipn_nil_nth _ _ Hs). exists h. repeat split; try reflexivity.
      intros v. cbn [to_ filter map length]. now rewrite drop_id_0.
    - apply skipn_cons_nth in Hs. destruct Hs as [Hnth Hs]. rewrite Hnth.
      rewrite (remove_first_p_ext (same_key keqb h u) (idp u)).
      2:{ intros [w x] Hx. unfold idp. cbn [fst]. apply same_key_id; auto. eapply Hi, Hx. }
      pose proof (Hlen v) as Hv. rewrite to_cons, Nat.eqb_refl in Hv. cbn [length] in Hv.
      destruct (@remove_first_exists E u (outs h v)) as (e2 & l' & Hr).
      { intros Hn. rewrite Hn in Hv. cbn in Hv. lia. }
      rewrite Hr. apply remove_first_drop in Hr. subst l'.
      destruct (IH f (set_outs h v (drop_id u 1 (outs h v))) u (S pos)) as (h' & Hrun & Hn & Ho & Hi').
      + exact HI.
      + exact Hu.
      + intros a w x. cbn [outs set_outs]. unfold upd. destruct (Nat.eqb a v).
        * intros Hin. apply drop_id_in in Hin. eapply Hi, Hin.
        * apply Hi.
      + exact Hs.
      + cbn in Hf. lia.
      + intros a. cbn [outs set_outs]. unfold upd. destruct (Nat.eqb_spec a v) as [->|Ha].
        * rewrite to_drop_same_len. lia.
        * pose proof (Hlen a) as Hla. rewrite to_cons in Hla.
          destruct (Nat.eqb_spec v a); [congruence|exact Hla].
      + exists h'. split; [exact Hrun|]. split; [exact Hn|]. split; [exact Ho|].
        intros a. rewrite Hi'. cbn [outs set_outs]. unfold upd. rewrite to_cons.
        destruct (Nat.eqb_spec a v) as [->|Ha].
        * rewrite Nat.eqb_refl. cbn [length]. rewrite drop_id_add. f_equal. lia.
        * destruct (Nat.eqb_spec v a); [congruence|reflexivity].
  Qed.

  (* a heap whose tables are those of h with node u filtered out everywhere *)
  Lemma isolated_inv h h' u :
    Inv h -> nodes h' = nodes h ->
    (forall w, outs h' w = if Nat.eqb w u then [] else filter (notid u) (outs h w)) ->
    (forall w, ins h' w = if Nat.eqb w u then [] else filter (notid u) (ins h w)) ->
    Inv h'.
  Proof.
    intros (HM & (H0 & Ho & Hi) & HI) Hn Hout Hin.
    assert (Hsz : size h' = size h) by (unfold size; now rewrite Hn).
    split; [|split].
    - intros a b. rewrite Hout, Hin.
      destruct (Nat.eqb_spec a u) as [->|Ha]; destruct (Nat.eqb_spec b u) as [->|Hb].
      + reflexivity.
      + now rewrite to_filter_same.
      + now rewrite to_filter_same.
      + rewrite !to_filter_other by assumption. apply HM.
    - unfold Wf. rewrite Hsz. repeat split.
      + rewrite Hout. destruct (Nat.eqb u0 u); [reflexivity|].
        destruct (H0 _ H) as [-> _]. reflexivity.
      + rewrite Hin. destruct (Nat.eqb u0 u); [reflexivity|].
        destruct (H0 _ H) as [_ ->]. reflexivity.
      + intros a b x. rewrite Hout. destruct (Nat.eqb a u); [intros []|].
        intros Hx. apply filter_notid_in in Hx. eapply Ho, Hx.
      + intros a b x. rewrite Hin. destruct (Nat.eqb a u); [intros []|].
        intros Hx. apply filter_notid_in in Hx. eapply Hi, Hx.
    - intros a b k. unfold keyof. rewrite Hn. apply HI.
  Qed.

  Lemma isolate_d_spec_ h u : Inv h -> u < size h ->
     exists h', isolate_d keqb h u = (h', OkU) /\ nodes h' = nodes h /\
       (forall w, outs h' w = if Nat.eqb w u then [] else filter (notid u) (outs h w)) /\
       (forall w, ins h' w = if Nat.eqb w u then [] else filter (notid u) (ins h w)) /\
       Inv h'.
  Proof.
    intros HInv Hu. pose proof HInv as (HM & (H0 & Ho & Hi) & HI). unfold isolate_d.
    destruct (@iso_out_loop_spec (outs h u) (S (length (outs h u))) h u 0)
      as (h1 & Hrun1 & Hn1 & Ho1 & Hi1); auto.
    { intros v. rewrite (HM u v). lia. }
    rewrite Hrun1.
    assert (Hins1 : forall v, ins h1 v = filter (notid u) (ins h v)).
    { intros v. rewrite Hi1. apply drop_id_filter. rewrite (HM u v). lia. }
    destruct (@iso_in_loop_spec (ins h1 u) (S (length (ins h1 u))) h1 u 0)
      as (h2 & Hrun2 & Hn2 & Hi2 & Ho2); auto.
    { intros a b k. unfold keyof. rewrite Hn1. apply HI. }
    { unfold size. now rewrite Hn1. }
    { intros v w e. rewrite Ho1. unfold size. rewrite Hn1. apply Ho. }
    { intros v. rewrite Ho1, Hins1, (HM v u). apply to_filter_len. }
    rewrite Hrun2.
    assert (Hout' : forall w, outs (clear_both h2 u) w =
                     if Nat.eqb w u then [] else filter (notid u) (outs h w)).
    { intros w. cbn [clear_both outs set_ins set_outs]. unfold upd.
      destruct (Nat.eqb_spec w u) as [->|Hw]; [reflexivity|].
      rewrite Ho2, Ho1, Hins1. apply drop_id_filter.
      rewrite to_filter_other by exact Hw. rewrite (HM w u). lia. }
    assert (Hin' : forall w, ins (clear_both h2 u) w =
                     if Nat.eqb w u then [] else filter (notid u) (ins h w)).
    { intros w. cbn [clear_both ins set_ins set_outs]. unfold upd.
      destruct (Nat.eqb_spec w u) as [->|Hw]; [reflexivity|].
      now rewrite Hi2, Hins1. }
    assert (Hn' : nodes (clear_both h2 u) = nodes h).
    { cbn [clear_both nodes set_ins set_outs]. now rewrite Hn2, Hn1. }
    exists (clear_both h2 u). split; [reflexivity|]. split; [exact Hn'|].
    split; [exact Hout'|]. split; [exact Hin'|].
    eapply isolated_inv; eassumption.
  Qed.

  (* ---------------- steps and histories ---------------- *)
  Lemma valid_lt h u : valid h u = true <-> u < size h.
  Proof. unfold valid. apply Nat.ltb_lt. Qed.

  (* one step: invariant, no panic, and the allocation list only grows by ONew *)
  Lemma step_d_full h o : Inv h ->
    (forall k x, o = ONew k x -> forall w, keyof h w <> Some k) ->
    Inv (fst (step_d keqb h o)) /\ snd (step_d keqb h o) <> Panic /\
    nodes (fst (step_d keqb h o)) =
      match o with ONew k x => nodes h ++ [(k, x)] | _ => nodes h end.
  Proof.
    intros HInv Hfresh. destruct o as [k x|u v e|u v e|u k|u]; cbn [step_d].
    - cbn [fst snd]. split; [|split; [discriminate|reflexivity]].
      apply alloc_inv_; [exact HInv|]. eapply Hfresh. reflexivity.
    - destruct (valid h u) eqn:Hu; [destruct (valid h v) eqn:Hv|]; cbn [andb fst snd];
        try (split; [exact HInv|split; [discriminate|reflexivity]]).
      apply valid_lt in Hu, Hv. split; [|split; [discriminate|reflexivity]].
      now apply connect_inv_.
    - destruct (valid h u) eqn:Hu; [destruct (valid h v) eqn:Hv|]; cbn [andb fst snd];
        try (split; [exact HInv|split; [discriminate|reflexivity]]).
      apply valid_lt in Hu, Hv.
      destruct (try_connect_d_spec_ e HInv Hu Hv) as [[_ ->]|[_ ->]]; cbn [fst snd].
      + split; [exact HInv|split; [discriminate|reflexivity]].
      + split; [|split; [discriminate|reflexivity]]. now apply connect_inv_.
    - destruct (valid h u) eqn:Hu; cbn [fst snd];
        try (split; [exact HInv|split; [discriminate|reflexivity]]).
      apply valid_lt in Hu.
      destruct (disconnect_d_spec_ k HInv Hu)
        as [[_ ->]|(v & e & l1 & l2 & m1 & m2 & h' & _ & _ & _ & _ & _ & -> & Hn & _ & _ & _ & _ & HInv')];
        cbn [fst snd].
      + split; [exact HInv|split; [discriminate|reflexivity]].
      + split; [exact HInv'|split; [discriminate|exact Hn]].
    - destruct (valid h u) eqn:Hu; cbn [fst snd];
        try (split; [exact HInv|split; [discriminate|reflexivity]]).
      apply valid_lt in Hu.
      destruct (isolate_d_spec_ HInv Hu) as (h' & -> & Hn & _ & _ & HInv'). cbn [fst snd].
      split; [exact HInv'|split; [discriminate|exact Hn]].
  Qed.

  Lemma new_keys_tail (o : op K V E) r k : In k (new_keys r) -> In k (new_keys (o :: r)).
  Proof. destruct o; cbn [new_keys]; auto. intros H; now right. Qed.

  Lemma new_keys_nodup_tail (o : op K V E) r : NoDup (new_keys (o :: r)) -> NoDup (new_keys r).
  Proof. destruct o; cbn [new_keys]; auto. intros H. now inversion H. Qed.

  Lemma run_from_d_inv ops : forall h, Inv h -> NoDup (new_keys ops) ->
    (forall k, In k (new_keys ops) -> forall w, keyof h w <> Some k) ->
    Inv (fst (run_from (step_d keqb) h ops)) /\ NoPanic (snd (run_from (step_d keqb) h ops)).
  Proof.
    induction ops as [|o r IH]; intros h HInv Hnd Hfresh; cbn [run_from].
    - split; [exact HInv|constructor].
    - assert (Hfo : forall k x, o = ONew k x -> forall w, keyof h w <> Some k).
      { intros k x ->. apply Hfresh. cbn [new_keys]. now left. }
      destruct (step_d_full HInv Hfo) as (HInv1 & Hnp & Hnodes).
      destruct (step_d keqb h o) as [h1 x] eqn:Hs. cbn [fst snd] in HInv1, Hnp, Hnodes.
      destruct (IH h1 HInv1 (@new_keys_nodup_tail _ _ Hnd)) as [HInv2 Hnp2].
      { intros k Hk' w Hw.
        destruct o as [k0 x0|? ? ?|? ? ?|? ?|?];
          try (unfold keyof in Hw; rewrite Hnodes in Hw;
               exact (Hfresh k (@new_keys_tail _ _ _ Hk') w Hw)).
        assert (Hw' : keyof (alloc h k0 x0) w = Some k)
          by (unfold keyof in Hw; rewrite Hnodes in Hw; exact Hw).
        rewrite keyof_alloc in Hw'. cbn [new_keys] in Hnd, Hfresh. inversion Hnd as [|? ? Hnotin Hnd']; subst.
        destruct (Nat.ltb w (size h)).
        - apply (Hfresh k (or_intror Hk') w Hw').
        - destruct (Nat.eqb w (size h)); [|discriminate]. injection Hw' as ->. contradiction. }
      destruct (run_from (step_d keqb) h1 r) as [h2 xs]. cbn [fst snd] in *.
      split; [exact HInv2|]. constructor; assumption.
  Qed.

  Lemma empty_inv : Inv (@empty_heap K V E).
  Proof.
    split; [|split].
    - intros u v. reflexivity.
    - repeat split; intros; contradiction.
    - intros u v k H. unfold keyof, empty_heap in H. cbn [nodes] in H. now destruct u.
  Qed.

  (* ---------------- the required theorems ---------------- *)
  Theorem connect_spec : forall h u v e,
     nodes (connect h u v e) = nodes h /\
     outs (connect h u v e) u = outs h u ++ [(v, e)] /\
     ins (connect h u v e) v = ins h v ++ [(u, e)] /\
     (forall w, w <> u -> outs (connect h u v e) w = outs h w) /\
     (forall w, w <> v -> ins (connect h u v e) w = ins h w).
  Proof. exact connect_spec_. Qed.

  Theorem connect_inv : forall h u v e, Inv h -> u < size h -> v < size h -> Inv (connect h u v e).
  Proof. exact connect_inv_. Qed.

  Theorem alloc_inv : forall h k x, Inv h -> (forall w, keyof h w <> Some k) -> Inv (alloc h k x).
  Proof. exact alloc_inv_. Qed.

  Theorem is_connected_d_spec : forall h u v kv, Inv h -> u < size h -> keyof h v = Some kv ->
     (is_connected_d keqb h u kv = true <-> exists e, In (v, e) (outs h u)).
  Proof. intros h u v kv HInv _ Hv. now apply is_connected_d_in. Qed.

  Theorem try_connect_d_spec : forall h u v e, Inv h -> u < size h -> v < size h ->
     ((exists e', In (v, e') (outs h u)) /\ try_connect_d keqb h u v e = (h, ErrExists)) \/
     ((forall e', ~ In (v, e') (outs h u)) /\ try_connect_d keqb h u v e = (connect h u v e, OkU)).
  Proof. exact try_connect_d_spec_. Qed.

  Theorem disconnect_d_spec : forall h u k, Inv h -> u < size h ->
     ((forall v e, In (v, e) (outs h u) -> keyof h v <> Some k) /\ disconnect_d keqb h u k = (h, ErrNotFound)) \/
     (exists v e l1 l2 m1 m2 h',
        keyof h v = Some k /\
        outs h u = l1 ++ (v, e) :: l2 /\ (forall x, In x l1 -> fst x <> v) /\
        ins h v = m1 ++ (u, e) :: m2 /\ (forall x, In x m1 -> fst x <> u) /\
        disconnect_d keqb h u k = (h', OkE e) /\
        nodes h' = nodes h /\ outs h' u = l1 ++ l2 /\ ins h' v = m1 ++ m2 /\
        (forall w, w <> u -> outs h' w = outs h w) /\ (forall w, w <> v -> ins h' w = ins h w) /\
        Inv h').
  Proof. exact disconnect_d_spec_. Qed.

  Theorem isolate_d_spec : forall h u, Inv h -> u < size h ->
     exists h', isolate_d keqb h u = (h', OkU) /\ nodes h' = nodes h /\
       (forall w, outs h' w = if Nat.eqb w u then [] else filter (fun p => negb (Nat.eqb (fst p) u)) (outs h w)) /\
       (forall w, ins h' w = if Nat.eqb w u then [] else filter (fun p => negb (Nat.eqb (fst p) u)) (ins h w)) /\
       Inv h'.
  Proof. exact isolate_d_spec_. Qed.

  Theorem step_d_inv : forall h o, Inv h -> (forall k x, o = ONew k x -> forall w, keyof h w <> Some k) ->
     Inv (fst (step_d keqb h o)) /\ snd (step_d keqb h o) <> Panic.
  Proof.
    intros h o HInv Hf. destruct (step_d_full HInv Hf) as (H1 & H2 & _). now split.
  Qed.

  Theorem run_d_inv : forall ops : list (op K V E), KeysFresh ops -> Inv (fst (run_d keqb ops)) /\ NoPanic (snd (run_d keqb ops)).
  Proof.
    intros ops Hfresh. unfold run_d. apply run_from_d_inv.
    - apply empty_inv.
    - exact Hfresh.
    - intros k _ w. unfold keyof, empty_heap. cbn [nodes]. now destruct w.
  Qed.

  Theorem degree_facts : forall h, Inv h -> forall u v,
     length (to_ v (outs h u)) = length (to_ u (ins h v)) /\
     (is_root h v = true <-> forall u, to_ v (outs h u) = []) /\
     (is_leaf h u = true <-> forall v, to_ u (ins h v) = []).
  Proof.
    intros h (HM & _ & _) u v. split; [now rewrite (HM u v)|]. split.
    - unfold is_root, in_degree. rewrite Nat.eqb_eq, length_zero_iff_nil. split.
      + intros Hnil a. now rewrite (HM a v), Hnil.
      + intros H. apply all_to_nil. intros a. now rewrite <- (HM a v).
    - unfold is_leaf, out_degree. rewrite Nat.eqb_eq, length_zero_iff_nil. split.
      + intros Hnil b. now rewrite <- (HM u b), Hnil.
      + intros H. apply all_to_nil. intros b. now rewrite (HM u b).
  Qed.

  Theorem lookup_facts : forall h u v ku kv, Inv h -> keyof h u = Some ku -> keyof h v = Some kv ->
     (is_connected_d keqb h u kv = true <-> find_inbound keqb h v ku <> None).
  Proof.
    intros h u v ku kv HInv Hu Hv.
    rewrite (@is_connected_d_in h u v kv HInv Hv), (@find_inbound_in h u v ku HInv Hu).
    rewrite <- !to_nonempty_in. destruct HInv as (HM & _ & _). now rewrite (HM u v).
  Qed.
End NodeD.

Check connect_spec. Print Assumptions connect_spec.
Check connect_inv. Print Assumptions connect_inv.
Check alloc_inv. Print Assumptions alloc_inv.
Check is_connected_d_spec. Print Assumptions is_connected_d_spec.
Check try_connect_d_spec. Print Assumptions try_connect_d_spec.
Check disconnect_d_spec. Print Assumptions disconnect_d_spec.
Check isolate_d_spec. Print Assumptions isolate_d_spec.
Check step_d_inv. Print Assumptions step_d_inv.
Check run_d_inv. Print Assumptions run_d_inv.
Check degree_facts. Print Assumptions degree_facts.
Check lookup_facts. Print Assumptions lookup_facts.
