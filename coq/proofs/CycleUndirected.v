(* CycleUndirected.v — C09, the undirected parenthetical: "without a filter: [search_cycle returns a result] whenever
   the root has an incident edge".  With the half-edge mirror of C02 (Mirror) every incident edge root--v can be walked
   back, so root -> v -> root is a closed walk of accepted edges; completeness, termination and no-panic of the cycle
   search then give a returned cycle.  Conversely a returned cycle starts with an edge stored at the root. *)
From Gdsl.Model Require Import Spec Callback.
From Gdsl.Proofs Require Import Worklist Bfs Descend SearchGlue.
From Coq Require Import Lia.

Set Implicit Arguments.

Section CycleUndirected.
  Variables K V E : Type.
  Variable keqb : K -> K -> bool.
  Notation heap := (heap K V E).
  Notation edge := (edge E).

  Lemma in_to_ : forall (v : nat) (e : E) (l : list (nat * E)), In (v, e) l -> In e (to_ v l).
  Proof.
    intros v e l Hin. unfold to_. apply in_map_iff. exists (v, e). split; [reflexivity|].
    apply filter_In. split; [exact Hin|]. simpl. apply Nat.eqb_refl.
  Qed.

  Lemma to__in : forall (v : nat) (e : E) (l : list (nat * E)), In e (to_ v l) -> In (v, e) l.
  Proof.
    intros v e l Hin. unfold to_ in Hin. apply in_map_iff in Hin. destruct Hin as [[w e'] [Heq Hf]].
    apply filter_In in Hf. destruct Hf as [Hl Hw]. simpl in Heq, Hw. apply Nat.eqb_eq in Hw. subst. exact Hl.
  Qed.

  (* an incident half-edge of u towards v has a counterpart stored at v towards u, with the same value *)
  Lemma mirror_adj_back : forall (h : heap) (u v : nat) (e : E),
    Mirror h -> In (v, e) (adj_of h DAdj u) -> In (u, e) (adj_of h DAdj v).
  Proof.
    intros h u v e Hm Hin. simpl in *. apply in_app_iff in Hin. apply in_app_iff. destruct Hin as [Ho | Hi].
    - right. apply to__in. rewrite <- (Hm u v). apply in_to_. exact Ho.
    - left. apply to__in. rewrite (Hm v u). apply in_to_. exact Hi.
  Qed.

  Lemma incident_closed_walk : forall (h : heap) (root : nat),
    Mirror h -> adj_of h DAdj root <> [] -> ReachPlus h DAdj (@accept_all E) root root.
  Proof.
    intros h root Hm Hne. destruct (adj_of h DAdj root) as [|[v e] l] eqn:Hadj; [congruence|].
    assert (Hin : In (v, e) (adj_of h DAdj root)) by (rewrite Hadj; left; reflexivity).
    pose proof (@mirror_adj_back h root v e Hm Hin) as Hback.
    exists [(root, v, e); (v, root, e)]. split; [discriminate|]. split.
    - apply chain_cons; [reflexivity|]. apply chain_cons; [reflexivity|]. apply chain_nil.
    - repeat constructor; assumption.
  Qed.

  Section Run.
    Variable CB : Type.
    Variable cb : CB -> heap -> edge -> CB * heap * bool.
    Variable vleb : V -> V -> bool.
    Hypothesis Hkeq : KeqbSpec keqb.

    (* undirected search_cycle without a filter returns a cycle exactly when the root has an incident edge *)
    Theorem undirected_cycle_iff_incident : forall (h : heap) (root : nat) (k : kind) (fuel : nat) (c0 : CB) (t : option K),
      Wf h -> KeysInj h -> Mirror h -> PureCb h cb (@accept_all E) -> root < size h -> fuel_bound h <= fuel ->
      (exists p, snd (search_path keqb cb vleb k DAdj fuel h c0 root t true) = RPath p) <-> adj_of h DAdj root <> [].
    Proof.
      intros h root k fuel c0 t Hwf Hinj Hm Hpure Hroot Hfuel. split.
      - intros [p Hp]. destruct (search_path keqb cb vleb k DAdj fuel h c0 root t true) as [st r] eqn:Hrun.
        simpl in Hp. subst r.
        assert (Hs : IsPath h DAdj (@accept_all E) root p root /\ p <> [] /\ NoDup (map (@edst E) p)).
        { destruct k; [ eapply wlq_cycle_sound with (k := KBfs); eauto; discriminate
                      | eapply dfs_cycle_sound; eauto
                      | eapply wlq_cycle_sound with (k := KPfsMin); eauto; discriminate
                      | eapply wlq_cycle_sound with (k := KPfsMax); eauto; discriminate ]. }
        destruct Hs as [[Hch Hgood] [Hne _]]. destruct p as [|e p]; [congruence|].
        inversion Hch as [|a e' p' b Hsrc Hrest]; subst. inversion Hgood as [|x l Hge _]; subst.
        destruct Hge as [Hedge _]. unfold is_edge in Hedge. intro Hnil. rewrite Hnil in Hedge. exact Hedge.
      - intros Hne. pose proof (@incident_closed_walk h root Hm Hne) as Hreach.
        destruct (search_path keqb cb vleb k DAdj fuel h c0 root t true) as [st r] eqn:Hrun.
        destruct r as [| v | p | |].
        + exfalso. destruct k.
          * eapply (@wlq_cycle_complete K V E keqb Hkeq CB cb (@accept_all E) vleb h Hwf Hinj Hpure DAdj root Hroot c0 KBfs); eauto; discriminate.
          * eapply (@dfs_cycle_complete K V E keqb Hkeq CB cb (@accept_all E) vleb h Hwf Hinj Hpure DAdj root Hroot c0); eauto.
          * eapply (@wlq_cycle_complete K V E keqb Hkeq CB cb (@accept_all E) vleb h Hwf Hinj Hpure DAdj root Hroot c0 KPfsMin); eauto; discriminate.
          * eapply (@wlq_cycle_complete K V E keqb Hkeq CB cb (@accept_all E) vleb h Hwf Hinj Hpure DAdj root Hroot c0 KPfsMax); eauto; discriminate.
        + exfalso. unfold search_path in Hrun. destruct (run_search keqb cb vleb k DAdj fuel h c0 root t true) as [st' s].
          destruct s; [ match type of Hrun with context [match ?b with _ => _ end] => destruct b end | |]; inversion Hrun.
        + exists p. reflexivity.
        + exfalso. destruct k.
          * apply (@wlq_no_panic K V E keqb Hkeq CB cb (@accept_all E) vleb h Hwf Hinj Hpure DAdj root Hroot c0 KBfs fuel t true); [discriminate|]. rewrite Hrun. reflexivity.
          * apply (@dfs_no_panic K V E keqb Hkeq CB cb (@accept_all E) vleb h Hwf Hinj Hpure DAdj root Hroot c0 fuel t true). rewrite Hrun. reflexivity.
          * apply (@wlq_no_panic K V E keqb Hkeq CB cb (@accept_all E) vleb h Hwf Hinj Hpure DAdj root Hroot c0 KPfsMin fuel t true); [discriminate|]. rewrite Hrun. reflexivity.
          * apply (@wlq_no_panic K V E keqb Hkeq CB cb (@accept_all E) vleb h Hwf Hinj Hpure DAdj root Hroot c0 KPfsMax fuel t true); [discriminate|]. rewrite Hrun. reflexivity.
        + exfalso. destruct k.
          * destruct (@wlq_terminates K V E keqb Hkeq CB cb (@accept_all E) vleb h Hwf Hinj Hpure DAdj root Hroot c0 KBfs fuel t true) as [Ht _]; [discriminate|exact Hfuel|]. apply Ht. rewrite Hrun. reflexivity.
          * destruct (@dfs_terminates K V E keqb Hkeq CB cb (@accept_all E) vleb h Hwf Hinj Hpure DAdj root Hroot c0 fuel t true false Hfuel) as [Ht _]. apply Ht. rewrite Hrun. reflexivity.
          * destruct (@wlq_terminates K V E keqb Hkeq CB cb (@accept_all E) vleb h Hwf Hinj Hpure DAdj root Hroot c0 KPfsMin fuel t true) as [Ht _]; [discriminate|exact Hfuel|]. apply Ht. rewrite Hrun. reflexivity.
          * destruct (@wlq_terminates K V E keqb Hkeq CB cb (@accept_all E) vleb h Hwf Hinj Hpure DAdj root Hroot c0 KPfsMax fuel t true) as [Ht _]; [discriminate|exact Hfuel|]. apply Ht. rewrite Hrun. reflexivity.
    Qed.
  End Run.
End CycleUndirected.
