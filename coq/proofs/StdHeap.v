(* StdHeap.v — specification of the BinaryHeap transcription (Search.v, Section StdHeap):
   multiset behaviour (QSpec) for every order test, heap order + greatest-element for total preorders. *)
From Coq Require Import List Arith Bool Lia Permutation.
From Gdsl.Model Require Import Base NodeOps Search Callback Spec.
Import ListNotations.

(* ------------------------------------------------------------------ *)
(* setn / nth                                                          *)
(* ------------------------------------------------------------------ *)

Lemma setn_length : forall l i x, length (setn l i x) = length l.
Proof.
  induction l as [|y r IH]; intros [|i] x; cbn [setn length]; auto.
Qed.

Lemma nth_setn_eq : forall l i x, i < length l -> nth i (setn l i x) 0 = x.
Proof.
  induction l as [|y r IH]; intros [|i] x H; cbn [setn length nth] in *; try lia; auto.
  apply IH; lia.
Qed.

Lemma nth_setn_neq : forall l i j x, j <> i -> nth j (setn l i x) 0 = nth j l 0.
Proof.
  induction l as [|y r IH]; intros [|i] [|j] x H; cbn [setn nth]; try congruence; auto.
Qed.

Lemma nth_setn : forall l i j x, i < length l ->
  nth j (setn l i x) 0 = if j =? i then x else nth j l 0.
Proof.
  intros l i j x H. destruct (j =? i) eqn:E.
  - apply Nat.eqb_eq in E; subst j. apply nth_setn_eq; auto.
  - apply Nat.eqb_neq in E. apply nth_setn_neq; auto.
Qed.

Lemma setn_perm : forall l i x, i < length l ->
  Permutation (nth i l 0 :: setn l i x) (x :: l).
Proof.
  induction l as [|y r IH]; intros [|i] x H; cbn [setn length nth] in *; try lia.
  - apply perm_swap.
  - eapply perm_trans; [apply perm_swap|].
    eapply perm_trans; [apply perm_skip; apply IH; lia|].
    apply perm_swap.
Qed.

(* moving the hole from i to j: the list with the hole filled is the same multiset *)
Lemma setn_swap_perm : forall l i j x, i < length l -> j < length l ->
  Permutation (setn (setn l i (nth j l 0)) j x) (setn l i x).
Proof.
  intros l i j x Hi Hj.
  set (a := nth j l 0). set (l1 := setn l i a).
  assert (Ha : nth j l1 0 = a).
  { unfold l1. rewrite nth_setn by auto. destruct (j =? i); reflexivity. }
  assert (H1 : Permutation (a :: setn l1 j x) (x :: l1)).
  { rewrite <- Ha at 1. apply setn_perm. unfold l1. rewrite setn_length; auto. }
  assert (H2 : Permutation (nth i l 0 :: l1) (a :: l)) by (apply setn_perm; auto).
  assert (H3 : Permutation (nth i l 0 :: setn l i x) (x :: l)) by (apply setn_perm; auto).
  apply Permutation_cons_inv with (a := nth i l 0).
  apply Permutation_cons_inv with (a := a).
  eapply perm_trans; [apply perm_swap|].
  eapply perm_trans; [apply perm_skip; exact H1|].
  eapply perm_trans; [apply perm_swap|].
  eapply perm_trans; [apply perm_skip; exact H2|].
  eapply perm_trans; [apply perm_swap|].
  apply perm_skip. apply Permutation_sym. exact H3.
Qed.

(* ------------------------------------------------------------------ *)
(* parent index arithmetic                                             *)
(* ------------------------------------------------------------------ *)

Lemma div2_bounds : forall n, 2 * Nat.div2 n <= n /\ n <= 2 * Nat.div2 n + 1.
Proof.
  intros n. pose proof (Nat.div2_odd n) as H.
  destruct (Nat.odd n); cbn [Nat.b2n] in H; lia.
Qed.

Lemma parent_lt : forall i, 0 < i -> Nat.div2 (i - 1) < i.
Proof. intros i H. pose proof (div2_bounds (i - 1)). lia. Qed.

Lemma parent_iff : forall i h, 0 < i ->
  (Nat.div2 (i - 1) = h <-> i = 2 * h + 1 \/ i = 2 * h + 2).
Proof.
  intros i h H. pose proof (div2_bounds (i - 1)) as Hb. split.
  - intros E. subst h. lia.
  - intros [E|E]; subst i.
    + replace (2 * h + 1 - 1) with (2 * h) in * by lia. lia.
    + replace (2 * h + 2 - 1) with (2 * h + 1) in * by lia. lia.
Qed.

(* ------------------------------------------------------------------ *)
(* multiset behaviour of the two loops                                 *)
(* ------------------------------------------------------------------ *)

Section Perm.
  Variable le : nat -> nat -> bool.

  Lemma sift_up_perm : forall f data start pos x, pos < length data ->
    Permutation (sift_up le f data start pos x) (setn data pos x).
  Proof.
    induction f as [|f IH]; intros data start pos x Hp; cbn [sift_up].
    - apply Permutation_refl.
    - destruct (start <? pos) eqn:Hlt; [|apply Permutation_refl].
      apply Nat.ltb_lt in Hlt.
      destruct (le x (getn data (Nat.div2 (pos - 1)))) eqn:Hle; [apply Permutation_refl|].
      assert (Hpar : Nat.div2 (pos - 1) < pos) by (apply parent_lt; lia).
      eapply perm_trans.
      + apply IH. rewrite setn_length. lia.
      + unfold getn. apply setn_swap_perm; lia.
  Qed.

  Lemma sift_up_length : forall f data start pos x,
    length (sift_up le f data start pos x) = length data.
  Proof.
    induction f as [|f IH]; intros data start pos x; cbn [sift_up].
    - apply setn_length.
    - destruct (start <? pos); [|apply setn_length].
      destruct (le x (getn data (Nat.div2 (pos - 1)))); [apply setn_length|].
      rewrite IH. apply setn_length.
  Qed.

  Lemma sift_down_perm : forall f data hole d' p' x, hole < length data ->
    sift_down_hole le f data hole = (d', p') ->
    length d' = length data /\ p' < length data /\
    Permutation (setn d' p' x) (setn data hole x).
  Proof.
    induction f as [|f IH]; intros data hole d' p' x Hh E; cbn [sift_down_hole] in E.
    - inversion E; subst. repeat split; auto.
    - destruct (2 * hole + 1 <=? length data - 2) eqn:E1.
      + apply Nat.leb_le in E1.
        remember (if le (getn data (2 * hole + 1)) (getn data (S (2 * hole + 1)))
                  then S (2 * hole + 1) else 2 * hole + 1) as c eqn:Hc.
        assert (Hcl : c < length data) by (destruct (le _ _) in Hc; subst c; lia).
        apply (IH _ _ _ _ x) in E; [|rewrite setn_length; auto].
        rewrite setn_length in E. destruct E as (El & Ep & EP).
        repeat split; auto.
        eapply perm_trans; [exact EP|].
        unfold getn. apply setn_swap_perm; auto.
      + destruct (2 * hole + 1 =? length data - 1) eqn:E2.
        * apply Nat.eqb_eq in E2. inversion E; subst d' p'; clear E.
          rewrite setn_length. repeat split; try lia.
          unfold getn. apply setn_swap_perm; lia.
        * inversion E; subst. repeat split; auto.
  Qed.
End Perm.

(* ------------------------------------------------------------------ *)
(* inversion of heap_pop                                               *)
(* ------------------------------------------------------------------ *)

Lemma heap_pop_none : forall le l, heap_pop le l = None -> l = [].
Proof.
  intros le l H. unfold heap_pop in H.
  destruct (rev l) as [|last rrest] eqn:Er.
  - rewrite <- (rev_involutive l), Er. reflexivity.
  - destruct (rev rrest) as [|top tl]; [discriminate|].
    destruct (sift_down_hole le _ _ 0); discriminate.
Qed.

Lemma heap_pop_some : forall le l x l', heap_pop le l = Some (x, l') ->
  (l = [x] /\ l' = []) \/
  (exists tl last d2 pos,
      l = x :: tl ++ [last] /\
      sift_down_hole le (S (S (length tl))) (last :: tl) 0 = (d2, pos) /\
      l' = sift_up le (S (length d2)) d2 0 pos last).
Proof.
  intros le l x l' H. unfold heap_pop in H.
  destruct (rev l) as [|last rrest] eqn:Er; [discriminate|].
  assert (El : l = rev rrest ++ [last]).
  { rewrite <- (rev_involutive l), Er. reflexivity. }
  destruct (rev rrest) as [|top tl] eqn:Err.
  - inversion H; subst. left. auto.
  - right. cbn [setn length] in H.
    destruct (sift_down_hole le (S (S (length tl))) (last :: tl) 0) as [d2 pos] eqn:Es.
    inversion H; subst. exists tl, last, d2, pos. repeat split; auto.
Qed.

(* ------------------------------------------------------------------ *)
(* (1) QSpec and (3) pop returns element 0                             *)
(* ------------------------------------------------------------------ *)

Lemma heap_push_perm : forall le l x, Permutation (heap_push le l x) (x :: l).
Proof.
  intros le l x. unfold heap_push.
  eapply perm_trans.
  - apply sift_up_perm. rewrite app_length; cbn [length]; lia.
  - assert (E : setn (l ++ [x]) (length l) x = l ++ [x]).
    { clear. induction l as [|y r IH]; cbn [app length setn]; [reflexivity|]. now rewrite IH. }
    rewrite E. apply Permutation_sym, Permutation_cons_append.
Qed.

Lemma setn_same : forall l i, setn l i (nth i l 0) = l.
Proof.
  induction l as [|y r IH]; intros [|i]; cbn [setn nth]; auto. now rewrite IH.
Qed.

Lemma heap_pop_perm : forall le l x l', heap_pop le l = Some (x, l') ->
  Permutation l (x :: l').
Proof.
  intros le l x l' H. apply heap_pop_some in H.
  destruct H as [[E1 E2]|(tl & last & d2 & pos & El & Es & El')].
  - subst. apply Permutation_refl.
  - subst l l'. apply perm_skip.
    apply (sift_down_perm le _ _ _ _ _ last) in Es; [|cbn [length]; lia].
    destruct Es as (Hl & Hp & HP).
    cbn [setn] in HP.
    apply Permutation_sym.
    eapply perm_trans; [apply sift_up_perm; lia|].
    eapply perm_trans; [exact HP|].
    apply Permutation_cons_append.
Qed.

Theorem stdheap_qspec : forall le : nat -> nat -> bool,
  QSpec (heap_push le) (heap_pop le) (fun q : list nat => q).
Proof.
  intros le. constructor.
  - intros q x. apply heap_push_perm.
  - intros q H. apply heap_pop_none in H. exact H.
  - intros q x q' H. apply heap_pop_perm in H. exact H.
Qed.
Print Assumptions stdheap_qspec.

Theorem stdheap_pop_top : forall le l x l', heap_pop le l = Some (x, l') -> x = nth 0 l 0.
Proof.
  intros le l x l' H. apply heap_pop_some in H.
  destruct H as [[E1 E2]|(tl & last & d2 & pos & El & _)]; subst l; reflexivity.
Qed.
Print Assumptions stdheap_pop_top.

(* ------------------------------------------------------------------ *)
(* (2) heap order                                                      *)
(* ------------------------------------------------------------------ *)

Definition TotalPre (le : nat -> nat -> bool) :=
  (forall a b, le a b = true \/ le b a = true) /\
  (forall a b c, le a b = true -> le b c = true -> le a c = true).

Definition HeapOrd (le : nat -> nat -> bool) (l : list nat) :=
  forall i, 0 < i -> i < length l -> le (nth i l 0) (nth (Nat.div2 (i - 1)) l 0) = true.

Section Ord.
  Variable le : nat -> nat -> bool.
  Hypothesis Htot : forall a b, le a b = true \/ le b a = true.
  Hypothesis Htrans : forall a b c, le a b = true -> le b c = true -> le a c = true.

  Local Notation par i := (Nat.div2 (i - 1)).

  Lemma le_false_flip : forall a b, le a b = false -> le b a = true.
  Proof. intros a b H. destruct (Htot a b) as [E|E]; congruence. Qed.

  Lemma le_refl : forall a, le a a = true.
  Proof. intros a. destruct (Htot a a); auto. Qed.

  (* heap order everywhere except around the hole at [pos] (whose stored value is stale);
     the hole's children are below the hole's parent *)
  Definition HoleOrd (data : list nat) (pos : nat) : Prop :=
    pos < length data /\
    (forall i, 0 < i -> i < length data -> i <> pos -> par i <> pos ->
               le (nth i data 0) (nth (par i) data 0) = true) /\
    (forall i, 0 < i -> i < length data -> par i = pos -> 0 < pos ->
               le (nth i data 0) (nth (par pos) data 0) = true).

  Definition KidsLe (data : list nat) (pos x : nat) : Prop :=
    forall i, 0 < i -> i < length data -> par i = pos -> le (nth i data 0) x = true.

  Lemma hole_fill : forall data pos x,
    HoleOrd data pos -> KidsLe data pos x ->
    (0 < pos -> le x (nth (par pos) data 0) = true) ->
    HeapOrd le (setn data pos x).
  Proof.
    intros data pos x (Hp & H2 & H3) Hk Hx i Hi Hl.
    rewrite setn_length in Hl.
    destruct (Nat.eq_dec i pos) as [E|E].
    - subst i. rewrite nth_setn_eq by auto.
      pose proof (parent_lt pos Hi) as Hlt.
      rewrite nth_setn_neq by lia. apply Hx; auto.
    - rewrite (nth_setn_neq data pos i) by auto.
      destruct (Nat.eq_dec (par i) pos) as [E2|E2].
      + rewrite E2. rewrite nth_setn_eq by auto. apply Hk; auto.
      + rewrite nth_setn_neq by auto. apply H2; auto.
  Qed.

  Lemma hole_up_step : forall data pos x,
    HoleOrd data pos -> KidsLe data pos x -> 0 < pos ->
    le x (nth (par pos) data 0) = false ->
    HoleOrd (setn data pos (nth (par pos) data 0)) (par pos) /\
    KidsLe (setn data pos (nth (par pos) data 0)) (par pos) x.
  Proof.
    intros data pos x (Hp & H2 & H3) Hk Hpos Hle.
    pose proof (parent_lt pos Hpos) as Hlt.
    apply le_false_flip in Hle.
    set (p := par pos) in *.
    assert (Hpp : 0 < p -> le (nth p data 0) (nth (par p) data 0) = true).
    { intros H0. pose proof (parent_lt p H0). apply H2; lia. }
    split; [split; [|split]|].
    - rewrite setn_length. lia.
    - intros i Hi Hl Hip Hpip. rewrite setn_length in Hl.
      assert (Hne : i <> pos) by (intros ->; apply Hpip; reflexivity).
      rewrite (nth_setn_neq data pos i) by auto.
      destruct (Nat.eq_dec (par i) pos) as [E|E].
      + rewrite E, nth_setn_eq by auto. apply H3; auto.
      + rewrite nth_setn_neq by auto. apply H2; auto.
    - intros i Hi Hl Hpi H0. rewrite setn_length in Hl.
      pose proof (parent_lt p H0) as Hlt2.
      rewrite (nth_setn_neq data pos (par p)) by lia.
      destruct (Nat.eq_dec i pos) as [E|E].
      + subst i. rewrite nth_setn_eq by auto. apply Hpp; auto.
      + rewrite nth_setn_neq by auto.
        apply Htrans with (b := nth p data 0); [|apply Hpp; auto].
        rewrite <- Hpi. apply H2; auto; lia.
    - intros i Hi Hl Hpi. rewrite setn_length in Hl.
      destruct (Nat.eq_dec i pos) as [E|E].
      + subst i. rewrite nth_setn_eq by auto. exact Hle.
      + rewrite nth_setn_neq by auto.
        apply Htrans with (b := nth p data 0); [|exact Hle].
        rewrite <- Hpi. apply H2; auto; lia.
  Qed.

  Lemma sift_up_ord : forall f data pos x,
    pos < f -> HoleOrd data pos -> KidsLe data pos x ->
    HeapOrd le (sift_up le f data 0 pos x).
  Proof.
    induction f as [|f IH]; intros data pos x Hf Hh Hk; [lia|].
    cbn [sift_up]. destruct (0 <? pos) eqn:Hlt.
    - apply Nat.ltb_lt in Hlt. unfold getn.
      destruct (le x (nth (par pos) data 0)) eqn:Hle.
      + apply hole_fill; auto.
      + destruct (hole_up_step data pos x Hh Hk Hlt Hle) as [Hh' Hk'].
        apply IH; auto. pose proof (parent_lt pos Hlt). lia.
    - apply Nat.ltb_ge in Hlt. apply hole_fill; auto. intros; lia.
  Qed.

  (* the hole moves down to its child c, which dominates the hole's other children *)
  Lemma hole_down_step : forall data hole c,
    HoleOrd data hole -> 0 < c -> c < length data -> par c = hole ->
    (forall i, 0 < i -> i < length data -> par i = hole -> i <> c ->
               le (nth i data 0) (nth c data 0) = true) ->
    HoleOrd (setn data hole (nth c data 0)) c.
  Proof.
    intros data hole c (Hp & H2 & H3) Hc Hcl Hpc Hsib.
    pose proof (parent_lt c Hc) as Hlt. rewrite Hpc in Hlt.
    split; [|split].
    - rewrite setn_length. auto.
    - intros i Hi Hl Hic Hpic. rewrite setn_length in Hl.
      destruct (Nat.eq_dec i hole) as [E|E].
      + subst i. rewrite nth_setn_eq by auto.
        pose proof (parent_lt hole Hi).
        rewrite nth_setn_neq by lia. apply H3; auto.
      + rewrite (nth_setn_neq data hole i) by auto.
        destruct (Nat.eq_dec (par i) hole) as [E2|E2].
        * rewrite E2, nth_setn_eq by auto. apply Hsib; auto.
        * rewrite nth_setn_neq by auto. apply H2; auto.
    - intros i Hi Hl Hpi _. rewrite setn_length in Hl.
      rewrite Hpc. rewrite nth_setn_eq by auto.
      pose proof (parent_lt i Hi).
      rewrite nth_setn_neq by lia.
      rewrite <- Hpi. apply H2; auto; lia.
  Qed.

  Lemma sift_down_ord : forall f data hole d' p',
    length data < f + hole -> HoleOrd data hole ->
    sift_down_hole le f data hole = (d', p') ->
    HoleOrd d' p' /\ length d' = length data /\
    (forall i, 0 < i -> i < length d' -> par i <> p').
  Proof.
    induction f as [|f IH]; intros data hole d' p' Hf Hh E.
    - destruct Hh as (Hp & _). lia.
    - cbn [sift_down_hole] in E.
      assert (Hp : hole < length data) by apply Hh.
      destruct (2 * hole + 1 <=? length data - 2) eqn:E1.
      + apply Nat.leb_le in E1. unfold getn in E.
        remember (if le (nth (2 * hole + 1) data 0) (nth (S (2 * hole + 1)) data 0)
                  then S (2 * hole + 1) else 2 * hole + 1) as c eqn:Hc.
        assert (Hcc : c = 2 * hole + 1 \/ c = 2 * hole + 2)
          by (destruct (le _ _) in Hc; subst c; lia).
        assert (Hstep : HoleOrd (setn data hole (nth c data 0)) c).
        { apply hole_down_step; auto; try lia.
          - apply parent_iff; lia.
          - intros i Hi Hl Hpi Hne. apply parent_iff in Hpi; auto.
            destruct (le (nth (2 * hole + 1) data 0) (nth (S (2 * hole + 1)) data 0)) eqn:Hle.
            + assert (i = 2 * hole + 1) by lia. subst i c. exact Hle.
            + assert (i = S (2 * hole + 1)) by lia. subst i c.
              apply le_false_flip. exact Hle. }
        apply IH in E; auto.
        * rewrite setn_length in E. exact E.
        * rewrite setn_length. lia.
      + apply Nat.leb_gt in E1.
        destruct (2 * hole + 1 =? length data - 1) eqn:E2.
        * apply Nat.eqb_eq in E2. inversion E; subst d' p'; clear E.
          rewrite setn_length. split; [|split]; auto.
          -- unfold getn. apply hole_down_step; auto; try lia.
             ++ apply parent_iff; lia.
             ++ intros i Hi Hl Hpi Hne. apply parent_iff in Hpi; auto. lia.
          -- intros i Hi Hl Hpi. apply parent_iff in Hpi; auto. lia.
        * apply Nat.eqb_neq in E2. inversion E; subst d' p'; clear E.
          split; [|split]; auto.
          intros i Hi Hl Hpi. apply parent_iff in Hpi; auto. lia.
  Qed.

  Lemma heapord_top : forall l, HeapOrd le l ->
    forall i, i < length l -> le (nth i l 0) (nth 0 l 0) = true.
  Proof.
    intros l H i. induction i as [i IH] using lt_wf_ind. intros Hl.
    destruct (Nat.eq_dec i 0) as [E|E].
    - subst i. apply le_refl.
    - assert (Hi : 0 < i) by lia. pose proof (parent_lt i Hi) as Hlt.
      apply Htrans with (b := nth (par i) l 0).
      + apply H; auto.
      + apply IH; lia.
  Qed.

  Lemma push_ord : forall l x, HeapOrd le l -> HeapOrd le (heap_push le l x).
  Proof.
    intros l x H. unfold heap_push. apply sift_up_ord.
    - lia.
    - split; [|split].
      + rewrite app_length; cbn [length]; lia.
      + intros i Hi Hl Hne _. rewrite app_length in Hl; cbn [length] in Hl.
        pose proof (parent_lt i Hi).
        rewrite !app_nth1 by lia. apply H; lia.
      + intros i Hi Hl Hpi _. rewrite app_length in Hl; cbn [length] in Hl.
        pose proof (parent_lt i Hi). lia.
    - intros i Hi Hl Hpi. rewrite app_length in Hl; cbn [length] in Hl.
      pose proof (parent_lt i Hi). lia.
  Qed.

  Lemma pop_ord : forall l x l', HeapOrd le l -> heap_pop le l = Some (x, l') ->
    HeapOrd le l' /\ (forall y, In y l -> le y x = true).
  Proof.
    intros l x l' H Hpop. split.
    - apply heap_pop_some in Hpop.
      destruct Hpop as [[E1 E2]|(tl & last & d2 & pos & El & Es & El')].
      + subst l'. intros i Hi Hl. cbn [length] in Hl. lia.
      + subst l l'.
        apply sift_down_ord in Es.
        * destruct Es as (Hh & Hlen & Hleaf).
          apply sift_up_ord; auto.
          -- destruct Hh as (Hp & _). lia.
          -- intros i Hi Hl Hpi. exfalso. apply (Hleaf i); auto.
        * cbn [length]. lia.
        * split; [|split].
          -- cbn [length]. lia.
          -- intros i Hi Hl Hne Hpne. cbn [length] in Hl.
             assert (Hpi : 0 < par i) by lia.
             pose proof (parent_lt i Hi) as Hlt.
             specialize (H i Hi). cbn [length] in H.
             rewrite app_length in H; cbn [length] in H.
             specialize (H ltac:(lia)).
             destruct i as [|i']; [lia|].
             destruct (par (S i')) as [|q] eqn:Eq; [lia|].
             cbn [nth] in *. rewrite !app_nth1 in H by lia. exact H.
          -- intros; lia.
    - intros y Hy.
      rewrite (stdheap_pop_top _ _ _ _ Hpop).
      destruct (In_nth l y 0 Hy) as (i & Hi & Ei). rewrite <- Ei.
      apply heapord_top; auto.
  Qed.
End Ord.

Theorem stdheap_push_ord : forall le l x,
  TotalPre le -> HeapOrd le l -> HeapOrd le (heap_push le l x).
Proof. intros le l x [Ht Htr] H. apply push_ord; auto. Qed.
Print Assumptions stdheap_push_ord.

Theorem stdheap_pop_ord : forall le l x l',
  TotalPre le -> HeapOrd le l -> heap_pop le l = Some (x, l') ->
  HeapOrd le l' /\ (forall y, In y l -> le y x = true).
Proof. intros le l x l' [Ht Htr] H Hp. eapply pop_ord; eauto. Qed.
Print Assumptions stdheap_pop_ord.

Theorem stdheap_nil_ord : forall le, HeapOrd le [].
Proof. intros le i Hi Hl. cbn [length] in Hl. lia. Qed.
Print Assumptions stdheap_nil_ord.
