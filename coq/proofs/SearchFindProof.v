(* SearchFindProof.v — the separately transcribed FIND loops of `search()` (model/SearchFind.v) agree with
   the PATH loops of `search_path()` (model/Search.v: wl_scan / wl_loop / descend with post = false).

   Simulation relation: "equal except the edge tree", i.e. `erase st_path = st_find` where `erase` forgets
   `s_tree`.  It is proved by the induction the machines themselves use (on fuel), for every direction, every
   queue discipline, every heap and EVERY callback (no purity, no well-formedness: the two loop families perform
   the same heap reads, the same callback calls in the same order, and the same visited-set updates).

   pfs `search()` is coded as search_path().map(|p| p.last_node().unwrap().clone()); for it the theorem says
   that the unwrap never fires and that the node handed out is the one the loop stopped at. *)
From Coq Require Import List Arith Bool Lia.
From Gdsl.Model Require Import Base NodeOps Search PathApi SearchFind Spec Callback.
From Gdsl.Proofs Require Import PathApiProof Worklist Descend SearchGlue Pfs.
Import ListNotations.

Set Implicit Arguments.

Section Sim.
  Variables K V E : Type.
  Variable keqb : K -> K -> bool.
  Variable CB : Type.
  Variable cb : CB -> heap K V E -> edge E -> CB * heap K V E * bool.

  Notation sst := (sst K V E CB).
  Notation fstate := (fstate K V E CB).

  (* forget the edge tree *)
  Definition erase (st : sst) : fstate := mkF (s_heap st) (s_cb st) (s_vis st).

  Lemma erase_heap : forall st, f_heap (erase st) = s_heap st.
  Proof. reflexivity. Qed.
  Lemma erase_vis : forall st, f_vis (erase st) = s_vis st.
  Proof. reflexivity. Qed.
  Lemma erase_cb : forall st, f_cb (erase st) = s_cb st.
  Proof. reflexivity. Qed.

  Lemma call_cb_sim : forall st e,
    call_cb_find cb (erase st) e = (erase (fst (call_cb cb st e)), snd (call_cb cb st e)).
  Proof.
    intros st e. unfold call_cb_find, call_cb. cbn [erase f_cb f_heap f_vis].
    destruct (cb (s_cb st) (s_heap st) e) as [[c1 h1] ok]. reflexivity.
  Qed.

  Lemma visit_sim : forall st v oe, visit_find (erase st) v = erase (discover st v oe).
  Proof. intros st v oe. reflexivity. Qed.

  Lemma erase_push_tree : forall st e, erase (push_tree st e) = erase st.
  Proof. reflexivity. Qed.

  (* ---------------- worklist ---------------- *)
  Section WL.
    Variable Q : Type.
    Variable qpush : Q -> nat -> Q.
    Variable qpop : Q -> option (nat * Q).
    Variable d : dir.
    Variable tgt : option K.

    Lemma wl_scan_sim : forall fuel st q u pos,
      wl_scan_find keqb cb qpush d tgt fuel (erase st) q u pos =
      (erase (fst (fst (wl_scan keqb cb qpush d tgt fuel st q u pos))),
       snd (fst (wl_scan keqb cb qpush d tgt fuel st q u pos)),
       snd (wl_scan keqb cb qpush d tgt fuel st q u pos)).
    Proof.
      induction fuel as [|f IH]; intros st q u pos.
      - reflexivity.
      - cbn [wl_scan wl_scan_find]. rewrite erase_heap.
        destruct (edge_at (s_heap st) d u pos) as [e|]; [|reflexivity].
        rewrite call_cb_sim. destruct (call_cb cb st e) as [st1 ok] eqn:Hc. cbn [fst snd].
        destruct ok; cbn [andb].
        + rewrite erase_heap, erase_vis.
          destruct (in_vis keqb (s_heap st1) (s_vis st1) (edst e)); cbn [negb].
          * apply IH.
          * rewrite (visit_sim st1 (edst e) (Some e)). rewrite erase_heap.
            destruct (is_target keqb (s_heap (discover st1 (edst e) (Some e))) tgt (edst e)).
            -- reflexivity.
            -- apply IH.
        + apply IH.
    Qed.

    Lemma wl_loop_sim : forall fuel st q,
      wl_loop_find keqb cb qpush qpop d tgt fuel (erase st) q =
      (erase (fst (wl_loop keqb cb qpush qpop d tgt fuel st q)),
       snd (wl_loop keqb cb qpush qpop d tgt fuel st q)).
    Proof.
      induction fuel as [|f IH]; intros st q.
      - reflexivity.
      - cbn [wl_loop wl_loop_find].
        destruct (qpop q) as [[u q']|]; [|reflexivity].
        rewrite wl_scan_sim.
        destruct (wl_scan keqb cb qpush d tgt (S f) st q' u 0) as [[st1 q1] r] eqn:Hs.
        cbn [fst snd]. destruct r; try reflexivity. apply IH.
    Qed.

    (* a run that stops at a target has just appended the edge it arrived by *)
    Lemma wl_scan_found_tree : forall fuel st q u pos st' q' v,
      wl_scan keqb cb qpush d tgt fuel st q u pos = (st', q', Found v) ->
      exists t0 e, s_tree st' = t0 ++ [e] /\ edst e = v.
    Proof.
      induction fuel as [|f IH]; intros st q u pos st' q' v H.
      - discriminate.
      - cbn [wl_scan] in H.
        destruct (edge_at (s_heap st) d u pos) as [e|]; [|discriminate].
        destruct (call_cb cb st e) as [st1 ok].
        destruct (ok && negb (in_vis keqb (s_heap st1) (s_vis st1) (edst e))).
        + destruct (is_target keqb (s_heap (discover st1 (edst e) (Some e))) tgt (edst e)).
          * inversion H; subst. exists (s_tree st1), e. split; reflexivity.
          * eapply IH; eassumption.
        + eapply IH; eassumption.
    Qed.

    Lemma wl_loop_found_tree : forall fuel st q st' v,
      wl_loop keqb cb qpush qpop d tgt fuel st q = (st', Found v) ->
      exists t0 e, s_tree st' = t0 ++ [e] /\ edst e = v.
    Proof.
      induction fuel as [|f IH]; intros st q st' v H.
      - discriminate.
      - cbn [wl_loop] in H.
        destruct (qpop q) as [[u q']|]; [|discriminate].
        destruct (wl_scan keqb cb qpush d tgt (S f) st q' u 0) as [[st1 q1] r] eqn:Hs.
        destruct r as [w| |].
        + inversion H; subst. eapply wl_scan_found_tree; eassumption.
        + eapply IH; eassumption.
        + discriminate.
    Qed.
  End WL.

  (* ---------------- dfs ---------------- *)
  Lemma descend_sim : forall d tgt fuel st u pos,
    descend_find keqb cb d tgt fuel (erase st) u pos =
    (erase (fst (descend keqb cb d tgt false fuel st u pos)),
     snd (descend keqb cb d tgt false fuel st u pos)).
  Proof.
    intros d tgt. induction fuel as [|f IH]; intros st u pos.
    - reflexivity.
    - cbn [descend descend_find]. rewrite erase_heap.
      destruct (edge_at (s_heap st) d u pos) as [e|]; [|reflexivity].
      rewrite call_cb_sim. destruct (call_cb cb st e) as [st1 ok] eqn:Hc. cbn [fst snd].
      destruct ok; cbn [andb].
      + rewrite erase_heap, erase_vis.
        destruct (in_vis keqb (s_heap st1) (s_vis st1) (edst e)); cbn [negb].
        * apply IH.
        * rewrite (visit_sim st1 (edst e) (Some e)). rewrite erase_heap.
          destruct (is_target keqb (s_heap (discover st1 (edst e) (Some e))) tgt (edst e)).
          -- reflexivity.
          -- rewrite IH.
             destruct (descend keqb cb d tgt false f (discover st1 (edst e) (Some e)) (edst e) 0)
               as [st3 r] eqn:Hd.
             cbn [fst snd]. destruct r; try reflexivity. apply IH.
      + apply IH.
  Qed.

  Lemma descend_found_tree : forall d tgt fuel st u pos st' v,
    descend keqb cb d tgt false fuel st u pos = (st', Found v) ->
    exists t0 e, s_tree st' = t0 ++ [e] /\ edst e = v.
  Proof.
    intros d tgt. induction fuel as [|f IH]; intros st u pos st' v H.
    - discriminate.
    - cbn [descend] in H.
      destruct (edge_at (s_heap st) d u pos) as [e|]; [|discriminate].
      destruct (call_cb cb st e) as [st1 ok].
      destruct (ok && negb (in_vis keqb (s_heap st1) (s_vis st1) (edst e))).
      + destruct (is_target keqb (s_heap (discover st1 (edst e) (Some e))) tgt (edst e)).
        * inversion H; subst. exists (s_tree st1), e. split; reflexivity.
        * destruct (descend keqb cb d tgt false f (discover st1 (edst e) (Some e)) (edst e) 0)
            as [st3 r] eqn:Hd.
          destruct r as [w| |].
          -- inversion H; subst. eapply IH; eassumption.
          -- eapply IH; eassumption.
          -- discriminate.
      + eapply IH; eassumption.
  Qed.

  (* ---------------- path.rs: the path built from a tree ends with the tree's last edge ---------------- *)
  Lemma bt_scan_tail : forall (h : heap K V E) rest cur acc,
    exists p0, bt_scan keqb h cur acc rest = p0 ++ acc.
  Proof.
    intros h. induction rest as [|e r IH]; intros cur acc.
    - exists []. reflexivity.
    - cbn [bt_scan]. destruct (same_key_id keqb h (esrc cur) (edst e)).
      + destruct (IH e (e :: acc)) as [p0 Hp]. exists (p0 ++ [e]).
        rewrite Hp, <- app_assoc. reflexivity.
      + apply IH.
  Qed.

  Lemma backtrack_snoc : forall (h : heap K V E) t0 e,
    exists p0, backtrack keqb h (t0 ++ [e]) = Some (p0 ++ [e]).
  Proof.
    intros h t0 e. unfold backtrack. rewrite rev_app_distr. cbn [rev app].
    destruct (bt_scan_tail h (rev t0) e [e]) as [p0 Hp]. exists p0. now rewrite Hp.
  Qed.

  (* ---------------- entry points ---------------- *)
  Variable vleb : V -> V -> bool.

  Lemma erase_init : forall h c root,
    init_find h c root = erase (init_st h c root true).
  Proof. reflexivity. Qed.

  Lemma search_find_run : forall k d fuel h c root target,
    search_find keqb cb vleb k d fuel h c root target =
    (fst (run_search keqb cb vleb k d fuel h c root target false),
     res_of_status E (snd (run_search keqb cb vleb k d fuel h c root target false))).
  Proof.
    intros. unfold search_find.
    destruct (run_search keqb cb vleb k d fuel h c root target false) as [st r].
    destruct r; reflexivity.
  Qed.

  Lemma run_search_found_tree : forall k d fuel h c root target cyc st v,
    run_search keqb cb vleb k d fuel h c root target cyc = (st, Found v) ->
    exists t0 e, s_tree st = t0 ++ [e] /\ edst e = v.
  Proof.
    intros k d fuel h c root target cyc st v H. unfold run_search in H.
    destruct k; first [eapply wl_loop_found_tree; eassumption | eapply descend_found_tree; eassumption].
  Qed.

  (* Path::from_edge_tree on the tree of a successful run: no unwrap() panic, and the path ends at the found node *)
  Lemma found_backtrack : forall k d fuel h c root target cyc st v,
    run_search keqb cb vleb k d fuel h c root target cyc = (st, Found v) ->
    exists p, backtrack keqb (s_heap st) (s_tree st) = Some p /\ p_last_node p = Some v.
  Proof.
    intros k d fuel h c root target cyc st v H.
    destruct (run_search_found_tree _ _ _ _ _ _ _ _ H) as [t0 [e [Ht He]]].
    destruct (backtrack_snoc (s_heap st) t0 e) as [p0 Hb].
    exists (p0 ++ [e]). rewrite Ht. split; [exact Hb|]. rewrite p_last_node_is_end. now subst v.
  Qed.

  Lemma pfs_find_sim : forall k d fuel h c root target,
    k = KPfsMin \/ k = KPfsMax ->
    map_last_node (search_path keqb cb vleb k d fuel h c root target false) =
    (fst (run_search keqb cb vleb k d fuel h c root target false),
     res_of_status E (snd (run_search keqb cb vleb k d fuel h c root target false))).
  Proof.
    intros k d fuel h c root target Hk. unfold search_path.
    destruct (run_search keqb cb vleb k d fuel h c root target false) as [st r] eqn:Hr.
    destruct r as [v| |]; try reflexivity.
    destruct (found_backtrack _ _ _ _ _ _ _ _ Hr) as [p [Hb Hl]]. rewrite Hb.
    cbn [map_last_node]. rewrite Hl. reflexivity.
  Qed.

  (* THE SIMULATION.  For every kind, direction, fuel, heap, callback, root and target the find machine
     ends with the same result, the same heap, the same callback state and the same visited set as the
     path machine (run_search .. false). *)
  Theorem find_machine_agrees : forall k d fuel h c root target,
    let x := search_find' keqb cb vleb k d fuel h c root target in
    let y := run_search keqb cb vleb k d fuel h c root target false in
    snd x = res_of_status E (snd y) /\
    s_heap (fst x) = s_heap (fst y) /\ s_cb (fst x) = s_cb (fst y) /\ s_vis (fst x) = s_vis (fst y).
  Proof.
    intros k d fuel h c root target. cbv zeta.
    destruct k.
    - (* bfs *)
      unfold search_find', run_search. rewrite erase_init, wl_loop_sim. cbn [negb].
      destruct (wl_loop keqb cb (@fifo_push) (@fifo_pop) d target fuel (init_st h c root true) [root])
        as [st r].
      cbn. auto.
    - (* dfs *)
      unfold search_find', run_search. rewrite erase_init, descend_sim. cbn [negb].
      destruct (descend keqb cb d target false fuel (init_st h c root true) root 0) as [st r].
      cbn. auto.
    - unfold search_find'. rewrite pfs_find_sim by auto. cbn [fst snd]. auto.
    - unfold search_find'. rewrite pfs_find_sim by auto. cbn [fst snd]. auto.
  Qed.

  (* the same, outcome by outcome *)
  Corollary find_machine_result : forall k d fuel h c root target,
    let r' := snd (search_find' keqb cb vleb k d fuel h c root target) in
    let r := snd (run_search keqb cb vleb k d fuel h c root target false) in
    (forall v, r' = RNode E v <-> r = Found v) /\
    (r' = RNone E <-> r = Exhausted) /\
    (r' = RFuel E <-> r = OutOfFuel) /\
    r' <> RPanic E /\ (forall p, r' <> RPath p).
  Proof.
    intros k d fuel h c root target. cbv zeta.
    destruct (find_machine_agrees k d fuel h c root target) as [Hr _]. rewrite Hr.
    destruct (snd (run_search keqb cb vleb k d fuel h c root target false)) as [w| |]; cbn [res_of_status];
      repeat split; intros; try discriminate; try congruence.
  Qed.

  (* the find machine against the model's old `search_find` (which unfolds the path machine) *)
  Corollary search_find'_search_find : forall k d fuel h c root target,
    let x := search_find' keqb cb vleb k d fuel h c root target in
    let y := search_find keqb cb vleb k d fuel h c root target in
    snd x = snd y /\
    s_heap (fst x) = s_heap (fst y) /\ s_cb (fst x) = s_cb (fst y) /\ s_vis (fst x) = s_vis (fst y).
  Proof.
    intros k d fuel h c root target. cbv zeta. rewrite search_find_run. cbn [fst snd].
    apply find_machine_agrees.
  Qed.

  (* and against search_path: same final heap, callback state (the trace the harness compares) and visited set *)
  Corollary search_find'_search_path_state : forall k d fuel h c root target,
    let x := search_find' keqb cb vleb k d fuel h c root target in
    let y := search_path keqb cb vleb k d fuel h c root target false in
    s_heap (fst x) = s_heap (fst y) /\ s_cb (fst x) = s_cb (fst y) /\ s_vis (fst x) = s_vis (fst y).
  Proof.
    intros k d fuel h c root target. cbv zeta.
    destruct (find_machine_agrees k d fuel h c root target) as [_ Hs].
    assert (Hy : fst (search_path keqb cb vleb k d fuel h c root target false) =
                 fst (run_search keqb cb vleb k d fuel h c root target false)).
    { unfold search_path.
      destruct (run_search keqb cb vleb k d fuel h c root target false) as [st r].
      destruct r; try reflexivity. destruct (backtrack keqb (s_heap st) (s_tree st)); reflexivity. }
    rewrite Hy. exact Hs.
  Qed.
End Sim.

(* ---------------- the pinned shapes (props/C04.v, C05.v, C06.v) with the find machine ---------------- *)

(* c04_search_agrees (bfs) and c06_search_agrees (pfs; k = KPfsMin \/ k = KPfsMax implies k <> KDfs) *)
Theorem search_find'_agrees_bfs_pfs :
  forall (K V E : Type) (keqb : K -> K -> bool),
       KeqbSpec keqb ->
       forall (CB : Type) (cb : CB -> heap K V E -> edge E -> CB * heap K V E * bool)
         (accept : edge E -> bool) (vleb : V -> V -> bool) (h : heap K V E),
       Wf h ->
       KeysInj h ->
       PureCb h cb accept ->
       forall (d : dir) (root : nat),
       root < size h ->
       forall (c0 : CB) (k : kind) (fuel : nat) (t : K),
       k <> KDfs ->
       keyof h root <> Some t ->
       match snd (search_path keqb cb vleb k d fuel h c0 root (Some t) false) with
       | RNone _ => snd (search_find' keqb cb vleb k d fuel h c0 root (Some t)) = RNone E
       | RPath p =>
           exists (v : nat) (p0 : list (edge E)) (w : edge E),
             snd (search_find' keqb cb vleb k d fuel h c0 root (Some t)) = RNode E v /\
             p = p0 ++ [w] /\ edst w = v /\ keyof h v = Some t
       | RFuel _ => snd (search_find' keqb cb vleb k d fuel h c0 root (Some t)) = RFuel E
       | _ => False
       end.
Proof.
  intros K V E keqb Hk CB cb accept vleb h Hwf Hinj Hpure d root Hroot c0 k fuel t Hkd Hrt.
  destruct (search_find'_search_find keqb cb vleb k d fuel h c0 root (Some t)) as [Hs _].
  rewrite Hs.
  exact (@wlq_find_agrees K V E keqb Hk CB cb accept vleb h Hwf Hinj Hpure d root Hroot c0 k fuel t Hkd Hrt).
Qed.

(* c06_search_agrees, in its own argument order *)
Theorem search_find'_agrees_pfs :
  forall (K V E : Type) (keqb : K -> K -> bool),
       KeqbSpec keqb ->
       forall (vleb : V -> V -> bool) (CB : Type) (cb : CB -> heap K V E -> edge E -> CB * heap K V E * bool)
         (accept : edge E -> bool) (h : heap K V E),
       Wf h ->
       KeysInj h ->
       PureCb h cb accept ->
       forall (d : dir) (root : nat),
       root < size h ->
       forall (c0 : CB) (k : kind) (fuel : nat) (t : K),
       k = KPfsMin \/ k = KPfsMax ->
       keyof h root <> Some t ->
       match snd (search_path keqb cb vleb k d fuel h c0 root (Some t) false) with
       | RNone _ => snd (search_find' keqb cb vleb k d fuel h c0 root (Some t)) = RNone E
       | RPath p =>
           exists (v : nat) (p0 : list (edge E)) (w : edge E),
             snd (search_find' keqb cb vleb k d fuel h c0 root (Some t)) = RNode E v /\
             p = p0 ++ [w] /\ edst w = v /\ keyof h v = Some t
       | RFuel _ => snd (search_find' keqb cb vleb k d fuel h c0 root (Some t)) = RFuel E
       | _ => False
       end.
Proof.
  intros K V E keqb Hk vleb CB cb accept h Hwf Hinj Hpure d root Hroot c0 k fuel t Hkk Hrt.
  apply (@search_find'_agrees_bfs_pfs K V E keqb Hk CB cb accept vleb h Hwf Hinj Hpure d root Hroot c0 k fuel t);
    [destruct Hkk; subst k; discriminate | exact Hrt].
Qed.

(* c05_search_agrees (dfs) *)
Theorem search_find'_agrees_dfs :
  forall (K V E : Type) (keqb : K -> K -> bool),
       KeqbSpec keqb ->
       forall (CB : Type) (cb : CB -> heap K V E -> edge E -> CB * heap K V E * bool)
         (accept : edge E -> bool) (vleb : V -> V -> bool) (h : heap K V E),
       Wf h ->
       KeysInj h ->
       PureCb h cb accept ->
       forall (d : dir) (root : nat),
       root < size h ->
       forall (c0 : CB) (fuel : nat) (t : K),
       keyof h root <> Some t ->
       match snd (search_path keqb cb vleb KDfs d fuel h c0 root (Some t) false) with
       | RNone _ => snd (search_find' keqb cb vleb KDfs d fuel h c0 root (Some t)) = RNone E
       | RPath p =>
           exists (v : nat) (p0 : list (edge E)) (w : edge E),
             snd (search_find' keqb cb vleb KDfs d fuel h c0 root (Some t)) = RNode E v /\
             p = p0 ++ [w] /\ edst w = v /\ keyof h v = Some t
       | RFuel _ => snd (search_find' keqb cb vleb KDfs d fuel h c0 root (Some t)) = RFuel E
       | _ => False
       end.
Proof.
  intros K V E keqb Hk CB cb accept vleb h Hwf Hinj Hpure d root Hroot c0 fuel t Hrt.
  destruct (search_find'_search_find keqb cb vleb KDfs d fuel h c0 root (Some t)) as [Hs _].
  rewrite Hs.
  exact (@dfs_find_agrees K V E keqb Hk CB cb accept vleb h Hwf Hinj Hpure d root Hroot c0 fuel t Hrt).
Qed.

(* the unconditional form of the same fact (no Wf / KeysInj / PureCb / root hypotheses, any target option, any
   callback): search_path returns a path exactly when search returns a node, that node is Path::last_node of
   the path, None and out-of-fuel coincide, and search_path never hits the unwrap() on an empty tree. *)
Theorem search_find'_vs_search_path :
  forall (K V E : Type) (keqb : K -> K -> bool)
         (CB : Type) (cb : CB -> heap K V E -> edge E -> CB * heap K V E * bool) (vleb : V -> V -> bool)
         (k : kind) (d : dir) (fuel : nat) (h : heap K V E) (c0 : CB) (root : nat) (target : option K),
  match snd (search_path keqb cb vleb k d fuel h c0 root target false) with
  | RNone _ => snd (search_find' keqb cb vleb k d fuel h c0 root target) = RNone E
  | RPath p => exists v, snd (search_find' keqb cb vleb k d fuel h c0 root target) = RNode E v /\
                         p_last_node p = Some v
  | RFuel _ => snd (search_find' keqb cb vleb k d fuel h c0 root target) = RFuel E
  | _ => False
  end.
Proof.
  intros K V E keqb CB cb vleb k d fuel h c0 root target.
  destruct (find_machine_agrees keqb cb vleb k d fuel h c0 root target) as [Hr _]. rewrite Hr.
  unfold search_path.
  destruct (run_search keqb cb vleb k d fuel h c0 root target false) as [st r] eqn:Hrun.
  destruct r as [v| |]; cbn [snd res_of_status]; try reflexivity.
  destruct (found_backtrack _ _ _ _ _ _ _ _ _ _ _ Hrun) as [p [Hb Hl]]. rewrite Hb. cbn [snd].
  exists v. split; [reflexivity | exact Hl].
Qed.

(* non-vacuity / sanity: the find machine runs on its own (graph of c04_nonvacuous) *)
Example search_find'_nonvacuous :
  let ops : list (op nat nat nat) :=
    [ONew 0 0; ONew 1 0; ONew 2 0; ONew 3 0; OConnect 0 1 10; OConnect 0 0 11; OConnect 0 2 12; OConnect 1 2 13; OConnect 2 3 14; OConnect 2 0 15] in
  let h := fst (run_d Nat.eqb ops) in
  let cb := (fun (c : list (edge nat)) h' (e : edge nat) => (c ++ [e], h', true)) in
  forall k,
  snd (search_find' Nat.eqb cb Nat.leb k DOut 100 h [] 0 (Some 3)) = RNode nat 3 /\
  snd (search_find' Nat.eqb cb Nat.leb k DIn 100 h [] 3 (Some 1)) = RNode nat 1 /\
  snd (search_find' Nat.eqb cb Nat.leb k DOut 100 h [] 3 (Some 1)) = RNone nat /\
  snd (search_find' Nat.eqb cb Nat.leb k DAdj 100 h [] 3 (Some 1)) = RNode nat 1 /\
  snd (search_find' Nat.eqb cb Nat.leb k DOut 2 h [] 0 (Some 3)) = RFuel nat /\
  s_cb (fst (search_find' Nat.eqb cb Nat.leb k DOut 100 h [] 0 (Some 3))) =
  s_cb (fst (search_path Nat.eqb cb Nat.leb k DOut 100 h [] 0 (Some 3) false)).
Proof. intros ops h cb k; destruct k; vm_compute; repeat split; reflexivity. Qed.

Print Assumptions find_machine_agrees.
Print Assumptions find_machine_result.
Print Assumptions search_find'_search_find.
Print Assumptions search_find'_search_path_state.
Print Assumptions search_find'_agrees_bfs_pfs.
Print Assumptions search_find'_agrees_pfs.
Print Assumptions search_find'_agrees_dfs.
Print Assumptions search_find'_vs_search_path.
