(* Pfs.v — priority-first search (pfs.rs): the worklist machine of Search.v run with the
   BinaryHeap queue (KPfsMin / KPfsMax).

   1. the order handed to the heap, pq_le: what is true of it (and what is not),
   2. the Worklist.v theorems with their Hheap premise discharged (the pfs_ theorems),
   3. C06: at every pop the popped node is minimal (min mode) / maximal (max mode) among all
      nodes that are discovered and not yet expanded (pfs_pop_minimal, frontier_is_discovered_unexpanded),
   4. the comparison part of C06 (node_cmp_spec, node_eqb_spec). *)
From Coq Require Import List Arith Bool Lia Permutation.
From Gdsl.Model Require Import Base NodeOps Search Callback Spec.
From Gdsl.Proofs Require Import StdHeap Worklist.
Import ListNotations.

Set Implicit Arguments.

(* ------------------------------------------------------------------ *)
(* The heap transcription only ever compares elements of the queue     *)
(* (and the default 0 of [nth]): two order tests that agree on a set   *)
(* containing those give the same pushes and pops.                     *)
(* ------------------------------------------------------------------ *)
Section Ext.
  Variables le le' : nat -> nat -> bool.
  Variable P : nat -> Prop.
  Hypothesis Hagree : forall a b, P a -> P b -> le a b = le' a b.
  Hypothesis P0 : P 0.

  Lemma getn_P data i : Forall P data -> P (getn data i).
  Proof.
    intros Hd. unfold getn. destruct (nth_in_or_default i data 0) as [Hin| ->]; [|exact P0].
    rewrite Forall_forall in Hd. now apply Hd.
  Qed.

  Lemma setn_P : forall data i x, Forall P data -> P x -> Forall P (setn data i x).
  Proof.
    induction data as [|y r IH]; intros i x Hd Hx; cbn [setn]; [constructor|].
    inversion Hd as [|? ? Hy Hr]; subst.
    destruct i as [|j]; constructor; auto.
  Qed.

  Lemma sift_up_ext : forall f data start pos x, Forall P data -> P x ->
    sift_up le f data start pos x = sift_up le' f data start pos x.
  Proof.
    induction f as [|f IH]; intros data start pos x Hd Hx; cbn [sift_up]; [reflexivity|].
    destruct (Nat.ltb start pos); [|reflexivity].
    rewrite (Hagree Hx (getn_P (Nat.div2 (pos - 1)) Hd)).
    destruct (le' x (getn data (Nat.div2 (pos - 1)))); [reflexivity|].
    apply IH; [|exact Hx]. apply setn_P; [exact Hd|]. now apply getn_P.
  Qed.

  Lemma sift_down_ext : forall f data hole, Forall P data ->
    sift_down_hole le f data hole = sift_down_hole le' f data hole /\
    Forall P (fst (sift_down_hole le' f data hole)).
  Proof.
    induction f as [|f IH]; intros data hole Hd; cbn [sift_down_hole].
    - split; [reflexivity|exact Hd].
    - cbv zeta. destruct (Nat.leb (2 * hole + 1) (length data - 2)).
      + rewrite (Hagree (getn_P (2 * hole + 1) Hd) (getn_P (S (2 * hole + 1)) Hd)).
        apply IH. apply setn_P; [exact Hd|]. now apply getn_P.
      + destruct (Nat.eqb (2 * hole + 1) (length data - 1)).
        * split; [reflexivity|]. cbn [fst]. apply setn_P; [exact Hd|]. now apply getn_P.
        * split; [reflexivity|exact Hd].
  Qed.

  Lemma heap_push_ext l x : Forall P l -> P x -> heap_push le l x = heap_push le' l x.
  Proof.
    intros Hl Hx. unfold heap_push. apply sift_up_ext; [|exact Hx].
    apply Forall_app. split; [exact Hl|]. constructor; [exact Hx|constructor].
  Qed.

  Lemma heap_pop_ext l : Forall P l -> heap_pop le l = heap_pop le' l.
  Proof.
    intros Hl. unfold heap_pop. apply Forall_rev in Hl.
    destruct (rev l) as [|last rrest]; [reflexivity|].
    inversion Hl as [|? ? Hlast Hrr]; subst. apply Forall_rev in Hrr. cbv zeta.
    destruct (rev rrest) as [|top rest] eqn:Hrest; [reflexivity|].
    assert (Hd1 : Forall P (setn (top :: rest) 0 last)) by (apply setn_P; assumption).
    destruct (sift_down_ext (S (length (setn (top :: rest) 0 last))) 0 Hd1) as [He Hp].
    rewrite He.
    destruct (sift_down_hole le' (S (length (setn (top :: rest) 0 last)))
                (setn (top :: rest) 0 last) 0) as [data2 pos].
    cbn [fst] in Hp. rewrite (sift_up_ext (S (length data2)) 0 pos Hp Hlast). reflexivity.
  Qed.
End Ext.

(* ------------------------------------------------------------------ *)
(* The instrumented loop                                                *)
(* ------------------------------------------------------------------ *)
Section Log.
  Variables K V E : Type.
  Variable keqb : K -> K -> bool.
  Variable CB : Type.
  Variable cb : CB -> heap K V E -> edge E -> CB * heap K V E * bool.
  Variable Q : Type.
  Variable qpush : Q -> nat -> Q.
  Variable qpop : Q -> option (nat * Q).
  Variable d : dir.
  Variable target : option K.

  (* one entry per outer-loop iteration: the popped node, the queue right after the pop,
     and the edge tree recorded so far (ghost: it names the discovered nodes) *)
  Definition log_entry : Type := (nat * Q * list (edge E))%type.
  Definition e_node (e : log_entry) : nat := fst (fst e).
  Definition e_queue (e : log_entry) : Q := snd (fst e).
  Definition e_tree (e : log_entry) : list (edge E) := snd e.

  (* wl_loop, additionally returning the log *)
  Fixpoint wl_loop_log (fuel : nat) (st : sst K V E CB) (q : Q)
    : sst K V E CB * status * list log_entry :=
    match fuel with
    | 0 => (st, OutOfFuel, [])
    | S f =>
        match qpop q with
        | None => (st, Exhausted, [])
        | Some (u, q') =>
            match wl_scan keqb cb qpush d target fuel st q' u 0 with
            | (st1, q1, Exhausted) =>
                match wl_loop_log f st1 q1 with
                | (res, log) => (res, (u, q', s_tree st) :: log)
                end
            | (st1, _, r) => (st1, r, [(u, q', s_tree st)])
            end
        end
    end.

  (* (a) erasure *)
  Theorem wl_loop_log_erase : forall fuel st q,
    fst (wl_loop_log fuel st q) = wl_loop keqb cb qpush qpop d target fuel st q.
  Proof.
    induction fuel as [|f IH]; intros st q; [reflexivity|].
    cbn [wl_loop_log wl_loop]. destruct (qpop q) as [[u q']|]; [|reflexivity].
    destruct (wl_scan keqb cb qpush d target (S f) st q' u 0) as [[st1 q1] r].
    destruct r; try reflexivity.
    rewrite <- IH. destruct (wl_loop_log f st1 q1) as [res log]. reflexivity.
  Qed.
End Log.

(* ------------------------------------------------------------------ *)
(* The loop with the heap queue: heap order is an invariant            *)
(* ------------------------------------------------------------------ *)
Section PfsLoop.
  Variables K V E : Type.
  Variable keqb : K -> K -> bool.
  Hypothesis Hk : KeqbSpec keqb.
  Variable CB : Type.
  Variable cb : CB -> heap K V E -> edge E -> CB * heap K V E * bool.
  Variable accept : edge E -> bool.
  Variable h : heap K V E.
  Hypothesis Hwf : Wf h.
  Hypothesis Hinj : KeysInj h.
  Hypothesis Hpure : PureCb h cb accept.
  Variable d : dir.
  Variable tgt : option K.
  Variable cyc : bool.
  Variable root : nat.
  Hypothesis Hroot : root < size h.
  Hypothesis Htgt : cyc = true -> tgt = keyof h root.
  (* le: the order test the machine runs with; le': a total preorder that agrees with it on
     allocated ids (the only ids that ever enter the queue) *)
  Variables le le' : nat -> nat -> bool.
  Hypothesis Hle' : TotalPre le'.
  Hypothesis Hagree : forall a b, a < size h -> b < size h -> le a b = le' a b.

  Notation valid := (fun a : nat => a < size h).
  Notation GLp := (GL keqb accept h d tgt idq cyc root).
  Notation GSp := (GS keqb accept h d tgt idq cyc root).
  Notation entry := (log_entry E (list nat)).

  Lemma HQle : QSpec (heap_push le) (heap_pop le) idq.
  Proof. exact (stdheap_qspec le). Qed.

  Lemma valid0 : valid 0.
  Proof. cbv beta. lia. Qed.

  Lemma GP_valid R P vis tree : GP keqb accept h d tgt cyc root R P vis tree -> Forall valid P.
  Proof.
    intros HG. apply Forall_forall. intros v Hv.
    eapply (seen_valid Hwf Hroot); [exact (gp_core HG)|]. apply (gp_seen HG). right. exact Hv.
  Qed.

  Lemma GL_valid R (st : sst K V E CB) q : GLp R st q -> Forall valid q.
  Proof. intros [_ HG]. exact (GP_valid HG). Qed.

  Lemma GS_valid R (st : sst K V E CB) q u pos : GSp R st q u pos -> Forall valid (u :: q).
  Proof. intros [_ [HG _]]. exact (GP_valid HG). Qed.

  (* one scan: the invariant and heap order survive *)
  Lemma pfs_scan R u0 : forall sf (st : sst K V E CB) q pos st' q' r,
    GSp R st q u0 pos -> HeapOrd le' q ->
    wl_scan keqb cb (heap_push le) d tgt sf st q u0 pos = (st', q', r) ->
    r = Exhausted -> GLp (R ++ [u0]) st' q' /\ HeapOrd le' q'.
  Proof.
    intros sf st q pos st' q' r HG HO Hrun Hr.
    pose proof (@scan_rule K V E keqb CB cb accept h Hwf Hinj Hpure d tgt (list nat) (heap_push le)
                  (fun _ _ st q u pos => u = u0 /\ GSp R st q u pos /\ HeapOrd le' q)
                  (fun _ st q => GLp (R ++ [u0]) st q /\ HeapOrd le' q)
                  (fun _ _ => True) True) as H.
    specialize (fun a b c e f g => H a b c e f g sf 0 st q u0 pos st' q' r).
    subst r. apply H; clear H; [| | | | | |auto|exact Hrun].
    - intros lf sf0 st0 q0 u pos0 [_ [[Hh _] _]]. exact Hh.
    - intros lf sf0 st0 q0 u pos0 x [Hu [HG0 HO0]] Hn Hf. split; [exact Hu|]. split; [|exact HO0].
      eapply GS_skip; eauto.
    - intros lf sf0 st0 q0 u pos0 x [Hu [HG0 HO0]] Hn Hf Ht. split; [exact Hu|].
      pose proof (GS_valid HG0) as Hv. inversion Hv as [|? ? _ Hvq]; subst.
      assert (Hx : valid (fst x)).
      { eapply (adj_valid Hwf). eapply nth_error_In. exact Hn. }
      split.
      + eapply (GS_disc Hk cb Hwf Hinj HQle Hroot Htgt); eauto.
      + rewrite (@heap_push_ext le le' valid Hagree valid0 q0 (fst x) Hvq Hx).
        apply stdheap_push_ord; assumption.
    - intros; exact I.
    - intros lf sf0 st0 q0 u pos0 [Hu [HG0 HO0]] Hn. subst u. split; [|exact HO0].
      eapply GS_end; eauto.
    - intros; exact I.
  Qed.

  (* what is recorded at a pop, given the nodes R expanded before it *)
  Definition EntryOK (R : list nat) (e : entry) : Prop :=
    (forall y, In y (e_queue e) -> le y (e_node e) = true) /\
    (forall y, In y (e_node e :: e_queue e) -> y < size h) /\
    NoDup (e_node e :: e_queue e) /\
    NoDup (root :: map (@edst E) (e_tree e)) /\
    (forall y, In y (e_node e :: e_queue e) <->
               (y = root \/ In y (map (@edst E) (e_tree e))) /\ ~ In y R).

  Fixpoint LogOK (R : list nat) (log : list entry) : Prop :=
    match log with
    | [] => True
    | e :: rest => EntryOK R e /\ LogOK (R ++ [e_node e]) rest
    end.

  Lemma pop_entry R (st : sst K V E CB) q u q' :
    GLp R st q -> HeapOrd le' q -> heap_pop le q = Some (u, q') ->
    EntryOK R (u, q', s_tree st) /\ HeapOrd le' q'.
  Proof.
    intros HGL HO Hpop. pose proof (GL_valid HGL) as Hv. destruct HGL as [_ HG].
    unfold idq in HG.
    pose proof Hpop as Hpop'. rewrite (@heap_pop_ext le le' valid Hagree valid0 q Hv) in Hpop'.
    destruct (stdheap_pop_ord le' q u q' Hle' HO Hpop') as [HO' Hmax].
    pose proof (heap_pop_perm le q u q' Hpop) as Hperm.
    rewrite Forall_forall in Hv.
    assert (Hin : forall y, In y (u :: q') -> In y q).
    { intros y Hy. eapply Permutation_in; [apply Permutation_sym; exact Hperm|exact Hy]. }
    pose proof (gp_nodup HG) as Hnd. apply NoDup_app_iff in Hnd. destruct Hnd as [_ [Hndq Hdisj]].
    pose proof (gp_core HG) as Hc.
    split; [|exact HO']. unfold EntryOK, e_node, e_queue, e_tree. cbn [fst snd].
    split; [|split; [|split; [|split]]].
    - intros y Hy. assert (Hyq : In y q) by (apply Hin; now right).
      rewrite Hagree; [now apply Hmax|now apply Hv|]. apply Hv, Hin. now left.
    - intros y Hy. apply Hv, Hin, Hy.
    - eapply Permutation_NoDup; [exact Hperm|exact Hndq].
    - constructor; [exact (c_root Hc)|]. destruct (c_tree Hc) as [_ [Hn _]]. exact Hn.
    - intros y. split.
      + intros Hy. apply Hin in Hy. split.
        * apply (gp_seen HG). now right.
        * intros HyR. exact (Hdisj y HyR Hy).
      + intros [Hs HnR]. apply (gp_seen HG) in Hs. destruct Hs as [Hs|Hs]; [contradiction|].
        eapply Permutation_in; [exact Hperm|exact Hs].
  Qed.

  Lemma log_inv : forall f R (st : sst K V E CB) q res log,
    GLp R st q -> HeapOrd le' q ->
    wl_loop_log keqb cb (heap_push le) (heap_pop le) d tgt f st q = (res, log) ->
    LogOK R log.
  Proof.
    induction f as [|f IH]; intros R st q res log HG HO Hrun.
    - cbn in Hrun. inversion Hrun; subst. exact I.
    - cbn [wl_loop_log] in Hrun. destruct (heap_pop le q) as [[u q']|] eqn:Hpop.
      + destruct (pop_entry HG HO Hpop) as [He HO'].
        pose proof (GL_pop HQle Hroot HG Hpop) as HGS.
        destruct (wl_scan keqb cb (heap_push le) d tgt (S f) st q' u 0) as [[st1 q1] r] eqn:Hs.
        destruct r.
        * inversion Hrun; subst. split; [exact He|exact I].
        * destruct (pfs_scan _ HGS HO' Hs eq_refl) as [HG1 HO1].
          destruct (wl_loop_log keqb cb (heap_push le) (heap_pop le) d tgt f st1 q1)
            as [res1 log1] eqn:Hl.
          inversion Hrun; subst. split; [exact He|]. eapply IH; eauto.
        * inversion Hrun; subst. split; [exact He|exact I].
      + inversion Hrun; subst. exact I.
  Qed.

  Lemma LogOK_split : forall l1 R e l2, LogOK R (l1 ++ e :: l2) ->
    EntryOK (R ++ map (@e_node E (list nat)) l1) e.
  Proof.
    induction l1 as [|a l1 IH]; intros R e l2 H; cbn [app map] in *.
    - rewrite app_nil_r. exact (proj1 H).
    - destruct H as [_ H]. apply IH in H. rewrite <- app_assoc in H. exact H.
  Qed.

  (* the run from the initial state *)
  Variable c0 : CB.
  Variable t : option K.
  Hypothesis Htgt_eq : tgt = (if cyc then keyof h root else t).

  Lemma run_entries fuel res log l1 e l2 :
    wl_loop_log keqb cb (heap_push le) (heap_pop le) d tgt fuel
      (init_st h c0 root (negb cyc)) [root] = (res, log) ->
    log = l1 ++ e :: l2 -> EntryOK (map (@e_node E (list nat)) l1) e.
  Proof.
    intros Hrun Hlog. subst log.
    change (map (@e_node E (list nat)) l1) with ([] ++ map (@e_node E (list nat)) l1).
    eapply LogOK_split. eapply log_inv; [| |exact Hrun].
    - rewrite Htgt_eq. exact (init_GL Hk accept Hinj d Hroot c0 t cyc).
    - intros i Hi Hl. cbn [length] in Hl. lia.
  Qed.
End PfsLoop.

(* ------------------------------------------------------------------ *)
(* pq_le is NOT transitive across unallocated ids: node_le answers      *)
(* `true` whenever one side is unallocated.                             *)
(* ------------------------------------------------------------------ *)
Definition pfs_cex_heap : heap nat nat nat := mkHeap [(0, 1); (1, 0)] (fun _ => []) (fun _ => []).

Theorem pq_le_total_pre_false :
  ((forall a b, Nat.leb a b = true \/ Nat.leb b a = true) /\
   (forall a b c, Nat.leb a b = true -> Nat.leb b c = true -> Nat.leb a c = true)) /\
  ~ TotalPre (pq_le Nat.leb pfs_cex_heap true).
Proof.
  split.
  - split.
    + intros a b. destruct (Nat.leb_spec a b) as [H|H]; [left; reflexivity|right].
      apply Nat.leb_le. lia.
    + intros a b c H1 H2. apply Nat.leb_le in H1, H2. apply Nat.leb_le. lia.
  - intros [_ Htr]. specialize (Htr 0 5 1 eq_refl eq_refl). discriminate Htr.
Qed.

(* ------------------------------------------------------------------ *)
Section Pfs.
  Variables K V E : Type.
  Variable keqb : K -> K -> bool.
  Hypothesis Hk : KeqbSpec keqb.
  Variable vleb : V -> V -> bool.
  Hypothesis Hvle : (forall a b, vleb a b = true \/ vleb b a = true) /\
                    (forall a b c, vleb a b = true -> vleb b c = true -> vleb a c = true).
  Variable vcmp : V -> V -> comparison.

  (* ---------------- 1. the order ---------------- *)
  Lemma valof_valid (h : heap K V E) a : a < size h -> exists x, valof h a = Some x.
  Proof.
    intros Ha. unfold valof, size in *. destruct (nth_error (nodes h) a) eqn:Hn.
    - eexists; reflexivity.
    - apply nth_error_None in Hn. lia.
  Qed.

  Lemma valof_invalid (h : heap K V E) a : ~ a < size h -> valof h a = None.
  Proof.
    intros Ha. unfold valof, size in *. destruct (nth_error (nodes h) a) eqn:Hn; [|reflexivity].
    exfalso. apply Ha. apply nth_error_Some. congruence.
  Qed.

  Lemma node_le_total (h : heap K V E) a b : node_le vleb h a b = true \/ node_le vleb h b a = true.
  Proof.
    unfold node_le. destruct (valof h a), (valof h b); auto. apply (proj1 Hvle).
  Qed.

  Lemma node_le_trans (h : heap K V E) a b c : b < size h ->
    node_le vleb h a b = true -> node_le vleb h b c = true -> node_le vleb h a c = true.
  Proof.
    intros Hb. destruct (valof_valid h Hb) as [y Hy]. unfold node_le. rewrite Hy.
    destruct (valof h a), (valof h c); auto. apply (proj2 Hvle).
  Qed.

  (* the strongest true variant of pq_le_total_pre (see pq_le_total_pre_false): total everywhere,
     transitive through every ALLOCATED middle element *)
  Theorem pq_le_total_pre_valid : forall (h : heap K V E) maxmode,
    (forall a b, pq_le vleb h maxmode a b = true \/ pq_le vleb h maxmode b a = true) /\
    (forall a b c, b < size h -> pq_le vleb h maxmode a b = true ->
                   pq_le vleb h maxmode b c = true -> pq_le vleb h maxmode a c = true).
  Proof.
    intros h maxmode. unfold pq_le. destruct maxmode; split.
    - intros a b. apply node_le_total.
    - intros a b c Hb. now apply node_le_trans.
    - intros a b. apply node_le_total.
    - intros a b c Hb H1 H2. eapply node_le_trans; eauto.
  Qed.

  (* a total preorder on ALL ids that coincides with pq_le on allocated ids: unallocated ids are
     compared as if they were id 0 *)
  Definition clamp (h : heap K V E) (a : nat) : nat := if Nat.ltb a (size h) then a else 0.
  Definition pq_le_c (h : heap K V E) (maxmode : bool) (a b : nat) : bool :=
    pq_le vleb h maxmode (clamp h a) (clamp h b).

  Lemma clamp_valid (h : heap K V E) a : 0 < size h -> clamp h a < size h.
  Proof.
    intros H0. unfold clamp. destruct (Nat.ltb a (size h)) eqn:Hl; [|exact H0].
    now apply Nat.ltb_lt.
  Qed.

  Theorem pq_le_c_total_pre : forall (h : heap K V E) maxmode, TotalPre (pq_le_c h maxmode).
  Proof.
    intros h maxmode. destruct (pq_le_total_pre_valid h maxmode) as [Ht Htr]. split.
    - intros a b. apply Ht.
    - intros a b c H1 H2. unfold pq_le_c in *.
      destruct (Nat.eq_dec (size h) 0) as [Hz|Hnz].
      + unfold pq_le, node_le. rewrite (@valof_invalid h (clamp h a)) by lia.
        destruct maxmode; [reflexivity|]. destruct (valof h (clamp h c)); reflexivity.
      + eapply Htr; [|exact H1|exact H2]. apply clamp_valid. lia.
  Qed.

  Theorem pq_le_c_agree : forall (h : heap K V E) maxmode a b, a < size h -> b < size h ->
    pq_le vleb h maxmode a b = pq_le_c h maxmode a b.
  Proof.
    intros h maxmode a b Ha Hb. unfold pq_le_c, clamp.
    apply Nat.ltb_lt in Ha, Hb. rewrite Ha, Hb. reflexivity.
  Qed.

  (* ---------------- 2. the Worklist theorems, Hheap discharged ---------------- *)
  Lemma pfs_not_dfs k : k = KPfsMin \/ k = KPfsMax -> k <> KDfs.
  Proof. intros [->| ->]; discriminate. Qed.

  Ltac wrap L :=
    eapply L; first [eassumption | exact stdheap_qspec | (apply pfs_not_dfs; eassumption)].

  Section Wrap.
    Variable CB : Type.
    Variable cb : CB -> heap K V E -> edge E -> CB * heap K V E * bool.
    Variable accept : edge E -> bool.
    Variable h : heap K V E.
    Hypothesis Hwf : Wf h.
    Hypothesis Hinj : KeysInj h.
    Hypothesis Hpure : PureCb h cb accept.
    Variable d : dir.
    Variable root : nat.
    Hypothesis Hroot : root < size h.
    Variable c0 : CB.

    Notation SP k t cyc fuel := (search_path keqb cb vleb k d fuel h c0 root t cyc).
    Notation SF k t fuel := (search_find keqb cb vleb k d fuel h c0 root t).

    Theorem pfs_exhaustive : forall k fuel st, k = KPfsMin \/ k = KPfsMax ->
      SP k None false fuel = (st, RNone E) ->
      s_heap st = h /\ TreeOK h d accept root (s_tree st) /\ ~ In root (map (@edst E) (s_tree st)) /\
      (forall v, Reach h d accept root v <-> v = root \/ In v (map (@edst E) (s_tree st))).
    Proof. intros k fuel st Hkk. wrap wl_exhaustive. Qed.

    Theorem pfs_path_sound : forall k fuel t st p, k = KPfsMin \/ k = KPfsMax ->
      keyof h root <> Some t ->
      SP k (Some t) false fuel = (st, RPath p) ->
      exists v, keyof h v = Some t /\ IsPath h d accept root p v /\ p <> [] /\
                NoDup (map (@edst E) p) /\ ~ In root (map (@edst E) p).
    Proof. intros k fuel t st p Hkk. wrap wl_path_sound. Qed.

    Theorem pfs_path_complete : forall k fuel t st, k = KPfsMin \/ k = KPfsMax ->
      keyof h root <> Some t ->
      SP k (Some t) false fuel = (st, RNone E) ->
      forall v, keyof h v = Some t -> ~ Reach h d accept root v.
    Proof. intros k fuel t st Hkk. wrap wl_path_complete. Qed.

    Theorem pfs_no_panic : forall k fuel t cyc, k = KPfsMin \/ k = KPfsMax ->
      snd (SP k t cyc fuel) <> RPanic E.
    Proof. intros k fuel t cyc Hkk. wrap wl_no_panic. Qed.

    Theorem pfs_terminates : forall k fuel t cyc, k = KPfsMin \/ k = KPfsMax ->
      fuel_bound h <= fuel ->
      snd (SP k t cyc fuel) <> RFuel E /\ snd (SF k t fuel) <> RFuel E.
    Proof. intros k fuel t cyc Hkk. wrap wl_terminates. Qed.

    Theorem pfs_find_agrees : forall k fuel t, k = KPfsMin \/ k = KPfsMax ->
      keyof h root <> Some t ->
      match snd (SP k (Some t) false fuel) with
      | RPath p => exists v p0 w, snd (SF k (Some t) fuel) = RNode E v /\ p = p0 ++ [w] /\
                                  edst w = v /\ keyof h v = Some t
      | RNone _ => snd (SF k (Some t) fuel) = RNone E
      | RFuel _ => snd (SF k (Some t) fuel) = RFuel E
      | _ => False
      end.
    Proof. intros k fuel t Hkk. wrap wl_find_agrees. Qed.

    Theorem pfs_cycle_sound : forall k fuel t st p, k = KPfsMin \/ k = KPfsMax ->
      SP k t true fuel = (st, RPath p) ->
      IsPath h d accept root p root /\ p <> [] /\ NoDup (map (@edst E) p).
    Proof. intros k fuel t st p Hkk. wrap wl_cycle_sound. Qed.

    Theorem pfs_cycle_complete : forall k fuel t st, k = KPfsMin \/ k = KPfsMax ->
      SP k t true fuel = (st, RNone E) ->
      ~ ReachPlus h d accept root root.
    Proof. intros k fuel t st Hkk. wrap wl_cycle_complete. Qed.
  End Wrap.

  Theorem pfs_foreach_once :
    forall (step : heap K V E -> op K V E -> heap K V E * outcome E) (pred : K -> K -> E -> bool)
           (h : heap K V E), Wf h -> KeysInj h ->
    forall (d : dir) (root : nat), root < size h ->
    forall k fuel st, k = KPfsMin \/ k = KPfsMax ->
    search_path keqb (mk_cb step false pred []) vleb k d fuel h (cb0 E) root None false = (st, RNone E) ->
    exists R, NoDup R /\ (forall v, In v R <-> Reach h d (fun _ => true) root v) /\
      Permutation (rev (c_trace (s_cb st)))
                  (flat_map (fun u => map (fun x => (u, fst x, snd x)) (adj_of h d u)) R).
  Proof.
    intros step pred h Hwf Hinj d root Hroot k fuel st Hkk. wrap wl_foreach_once.
  Qed.

  (* ---------------- 3. the priority property ---------------- *)
  Section Prio.
    Variable CB : Type.
    Variable cb : CB -> heap K V E -> edge E -> CB * heap K V E * bool.
    Variable accept : edge E -> bool.
    Variable h : heap K V E.
    Hypothesis Hwf : Wf h.
    Hypothesis Hinj : KeysInj h.
    Hypothesis Hpure : PureCb h cb accept.
    Variable d : dir.
    Variable root : nat.
    Hypothesis Hroot : root < size h.
    Variable c0 : CB.
    Variable maxmode : bool.
    Variable t : option K.
    Variable cyc : bool.

    Notation ple := (pq_le vleb h maxmode).
    Notation tgt := (if cyc then keyof h root else t).
    Notation popped := (@e_node E (list nat)).
    (* the run of run_search, instrumented *)
    Notation RUNLOG fuel :=
      (wl_loop_log keqb cb (heap_push ple) (heap_pop ple) d tgt fuel
         (init_st h c0 root (negb cyc)) [root]).

    (* the instrumented run is the run of the entry point *)
    Theorem pfs_run_log : forall fuel,
      run_search keqb cb vleb (if maxmode then KPfsMax else KPfsMin) d fuel h c0 root t cyc =
      fst (RUNLOG fuel).
    Proof.
      intros fuel. rewrite wl_loop_log_erase. unfold run_search. destruct maxmode; reflexivity.
    Qed.

    Lemma pfs_entries fuel res log l1 e l2 :
      RUNLOG fuel = (res, log) -> log = l1 ++ e :: l2 ->
      EntryOK h root ple (map popped l1) e.
    Proof.
      intros Hrun Hlog.
      assert (Htg : cyc = true -> tgt = keyof h root) by (intros ->; reflexivity).
      eapply run_entries with (le' := pq_le_c h maxmode) (t := t);
        first [eassumption | apply pq_le_c_total_pre | apply pq_le_c_agree | reflexivity].
    Qed.

    (* (b) *)
    Theorem pfs_pop_minimal : forall fuel res log u q' tree,
      RUNLOG fuel = (res, log) -> In (u, q', tree) log ->
      forall y, In y q' -> pq_le vleb h maxmode y u = true.
    Proof.
      intros fuel res log u q' tree Hrun Hin y Hy.
      apply in_split in Hin. destruct Hin as [l1 [l2 Hlog]].
      destruct (@pfs_entries _ _ _ _ _ _ Hrun Hlog) as [Hmin _]. exact (Hmin y Hy).
    Qed.

    Theorem pfs_pop_minimal_vals : forall fuel res log u q' tree,
      RUNLOG fuel = (res, log) -> In (u, q', tree) log ->
      forall y, In y q' ->
      (if maxmode then node_le vleb h y u else node_le vleb h u y) = true /\
      exists vu vy, valof h u = Some vu /\ valof h y = Some vy /\
                    (if maxmode then vleb vy vu else vleb vu vy) = true.
    Proof.
      intros fuel res log u q' tree Hrun Hin y Hy.
      pose proof (@pfs_pop_minimal _ _ _ _ _ _ Hrun Hin y Hy) as Hle.
      apply in_split in Hin. destruct Hin as [l1 [l2 Hlog]].
      destruct (@pfs_entries _ _ _ _ _ _ Hrun Hlog) as [_ [Hval _]].
      unfold e_node, e_queue in Hval. cbn [fst snd] in Hval.
      destruct (valof_valid h (Hval u (or_introl eq_refl))) as [vu Hvu].
      destruct (valof_valid h (Hval y (or_intror Hy))) as [vy Hvy].
      unfold pq_le in Hle. split; [exact Hle|]. exists vu, vy. split; [exact Hvu|split; [exact Hvy|]].
      unfold node_le in Hle. destruct maxmode; rewrite Hvu, Hvy in Hle; exact Hle.
    Qed.

    (* (c) at the pop recorded by entry (u, q', tree), after the pops recorded in l1:
       u :: q' lists, without repetition, exactly the discovered nodes (root and the targets of
       the recorded tree edges) that have not been popped before *)
    Theorem frontier_is_discovered_unexpanded : forall fuel res log l1 u q' tree l2,
      RUNLOG fuel = (res, log) -> log = l1 ++ (u, q', tree) :: l2 ->
      NoDup (u :: q') /\
      NoDup (root :: map (@edst E) tree) /\
      (forall y, In y (u :: q') <->
                 (y = root \/ In y (map (@edst E) tree)) /\ ~ In y (map popped l1)) /\
      Permutation (u :: q')
        (filter (fun y => negb (existsb (Nat.eqb y) (map popped l1))) (root :: map (@edst E) tree)).
    Proof.
      intros fuel res log l1 u q' tree l2 Hrun Hlog.
      destruct (@pfs_entries _ _ _ _ _ _ Hrun Hlog) as [_ [_ [Hnd [Hndt Hiff]]]].
      unfold e_node, e_queue, e_tree in *. cbn [fst snd] in *.
      split; [exact Hnd|split; [exact Hndt|split; [exact Hiff|]]].
      apply NoDup_Permutation; [exact Hnd|apply NoDup_filter; exact Hndt|].
      intros y. rewrite Hiff, filter_In. cbn [In].
      assert (Hex : negb (existsb (Nat.eqb y) (map popped l1)) = true <-> ~ In y (map popped l1)).
      { rewrite negb_true_iff, <- not_true_iff_false, existsb_exists. split.
        - intros Hn Hy. apply Hn. exists y. split; [exact Hy|apply Nat.eqb_refl].
        - intros Hn [z [Hz Hq]]. apply Nat.eqb_eq in Hq. subst z. exact (Hn Hz). }
      rewrite Hex. intuition congruence.
    Qed.

    (* (b) + (c): the node being expanded is minimal (min mode) / maximal (max mode) among ALL
       discovered, not yet expanded nodes *)
    Theorem pfs_pop_minimal_frontier : forall fuel res log l1 u q' tree l2,
      RUNLOG fuel = (res, log) -> log = l1 ++ (u, q', tree) :: l2 ->
      forall y, (y = root \/ In y (map (@edst E) tree)) -> ~ In y (map popped l1) ->
      pq_le vleb h maxmode y u = true /\
      exists vu vy, valof h u = Some vu /\ valof h y = Some vy /\
                    (if maxmode then vleb vy vu else vleb vu vy) = true.
    Proof.
      intros fuel res log l1 u q' tree l2 Hrun Hlog y Hd Hnp.
      destruct (@pfs_entries _ _ _ _ _ _ Hrun Hlog) as [Hmin [Hval [_ [_ Hiff]]]].
      unfold e_node, e_queue, e_tree in *. cbn [fst snd] in *.
      assert (Hy : In y (u :: q')) by (apply Hiff; split; assumption).
      assert (Hle : pq_le vleb h maxmode y u = true).
      { destruct Hy as [<-|Hy]; [|exact (Hmin y Hy)].
        destruct (proj1 (pq_le_total_pre_valid h maxmode) u u); assumption. }
      split; [exact Hle|].
      destruct (valof_valid h (Hval u (or_introl eq_refl))) as [vu Hvu].
      destruct (valof_valid h (Hval y Hy)) as [vy Hvy].
      exists vu, vy. split; [exact Hvu|split; [exact Hvy|]].
      unfold pq_le, node_le in Hle. destruct maxmode; rewrite Hvu, Hvy in Hle; exact Hle.
    Qed.

    (* C06 read literally: when u starts being expanded, no discovered, not yet expanded node y
       is strictly better than u (min mode: val y < val u, i.e. not val u <= val y;
       max mode: val y > val u, i.e. not val y <= val u) *)
    Theorem pfs_no_strictly_better_waiting : forall fuel res log l1 u q' tree l2,
      RUNLOG fuel = (res, log) -> log = l1 ++ (u, q', tree) :: l2 ->
      forall y vu vy, (y = root \/ In y (map (@edst E) tree)) -> ~ In y (map popped l1) ->
      valof h u = Some vu -> valof h y = Some vy ->
      (if maxmode then vleb vy vu else vleb vu vy) <> false.
    Proof.
      intros fuel res log l1 u q' tree l2 Hrun Hlog y vu vy Hd Hnp Hu Hy.
      destruct (@pfs_pop_minimal_frontier _ _ _ _ _ _ _ _ Hrun Hlog y Hd Hnp)
        as [_ [vu' [vy' [Hu' [Hy' Hle]]]]].
      rewrite Hu in Hu'. rewrite Hy in Hy'. inversion Hu'; inversion Hy'; subst.
      rewrite Hle. discriminate.
    Qed.
  End Prio.

  (* ---------------- 4. Node's comparison traits ---------------- *)
  Theorem node_cmp_spec : forall (h : heap K V E) a b x y,
    valof h a = Some x -> valof h b = Some y -> node_cmp vcmp h a b = Some (vcmp x y).
  Proof. intros h a b x y Ha Hb. unfold node_cmp. rewrite Ha, Hb. reflexivity. Qed.

  Theorem node_eqb_spec : forall (h : heap K V E) a b ka kb,
    keyof h a = Some ka -> keyof h b = Some kb -> (node_eqb keqb h a b = true <-> ka = kb).
  Proof.
    intros h a b ka kb Ha Hb. unfold node_eqb, same_key, has_key. rewrite Ha, Hb.
    rewrite (Hk kb ka). split; congruence.
  Qed.
End Pfs.

Print Assumptions pq_le_total_pre_false.
Print Assumptions pq_le_total_pre_valid.
Print Assumptions pq_le_c_total_pre.
Print Assumptions pq_le_c_agree.
Print Assumptions pfs_exhaustive.
Print Assumptions pfs_path_sound.
Print Assumptions pfs_path_complete.
Print Assumptions pfs_find_agrees.
Print Assumptions pfs_terminates.
Print Assumptions pfs_no_panic.
Print Assumptions pfs_cycle_sound.
Print Assumptions pfs_cycle_complete.
Print Assumptions pfs_foreach_once.
Print Assumptions wl_loop_log_erase.
Print Assumptions pfs_run_log.
Print Assumptions pfs_pop_minimal.
Print Assumptions pfs_pop_minimal_vals.
Print Assumptions frontier_is_discovered_unexpanded.
Print Assumptions pfs_pop_minimal_frontier.
Print Assumptions pfs_no_strictly_better_waiting.
Print Assumptions node_cmp_spec.
Print Assumptions node_eqb_spec.
