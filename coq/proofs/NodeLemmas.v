(* NodeLemmas.v — list-level and heap-level lemmas about the edge operations *)
From Gdsl.Model Require Import Base NodeOps.
From Coq Require Import Lia.

Set Implicit Arguments.

Lemma upd_same {A} (f : nat -> A) u x : upd f u x u = x.
Proof. unfold upd. now rewrite Nat.eqb_refl. Qed.

Lemma upd_other {A} (f : nat -> A) u x w : w <> u -> upd f u x w = f w.
Proof. unfold upd. intros H. destruct (Nat.eqb_spec w u); congruence. Qed.

Section ToLemmas.
  Variable E : Type.
  Implicit Types l : list (nat * E).

  Lemma to_app v l1 l2 : to_ v (l1 ++ l2) = to_ v l1 ++ to_ v l2.
  Proof. unfold to_. now rewrite filter_app, map_app. Qed.

  Lemma to_single_same v (e : E) : to_ v [(v, e)] = [e].
  Proof. unfold to_. simpl. now rewrite Nat.eqb_refl. Qed.

  Lemma to_single_other v w (e : E) : w <> v -> to_ v [(w, e)] = [].
  Proof. unfold to_. simpl. intros H. destruct (Nat.eqb_spec w v); [congruence|reflexivity]. Qed.

  Lemma to_nil v : to_ v (@nil (nat * E)) = [].
  Proof. reflexivity. Qed.
End ToLemmas.
