(* NodeU.v — correctness of the UNDIRECTED edge operations of model/NodeOps.v:
   connect, try_connect_u, disconnect_u, isolate_u and histories run_u. *)
From Gdsl.Model Require Import Base NodeOps Spec.
From Gdsl.Proofs Require Import NodeLemmas NodeListU.
From Coq Require Import Lia Permutation.

Section NodeU.
  Variables K V E : Type.
  Variable keqb : K -> K -> bool.
  Hypothesis Hk : KeqbSpec keqb.
  Notation heap := (heap K V E).
  Implicit Types h : heap.

  (* ------------------------------------------------------------------ *)
  (* keys versus ids                                                     *)
  (* ------------------------------------------------------------------ *)
  Lemma keyof_lt h w : w < size h -> exists k, keyof h w = Some k.
  Proof.
    unfold size, keyof. intros H.
    destruct (nth_error (nodes h) w) as [[k x]|] eqn:Hn.
    - exists k. reflexivity.
    - apply nth_error_None in Hn. lia.
  Qed.

  Lemma keyof_some_lt h w k : keyof h w = Some k -> w < size h.
  Proof.
    unfold size, keyof. intros H. apply nth_error_Some.
    destruct (nth_error (nodes h) w); [discriminate|discriminate].
  Qed.

  Lemma has_key_id h v k w :
    KeysInj h -> keyof h v = Some k -> w < size h -> has_key keqb h k w = Nat.eqb w v.
  Proof.
    intros HI Hv Hw. unfold has_key. destruct (keyof_lt h w Hw) as [k' Hk']. rewrite Hk'.
    destruct (Nat.eqb_spec w v) as [->|Hne].
    - apply Hk. congruence.
    - destruct (keqb k' k) eqn:Hq; [|reflexivity].
      apply Hk in Hq. subst k'. exfalso. apply Hne. eapply HI; eassumption.
  Qed.

  Lemma same_key_id h u w :
    KeysInj h -> u < size h -> w < size h -> same_key keqb h u w = Nat.eqb w u.
  Proof.
    intros HI Hu Hw. unfold same_key. destruct (keyof_lt h u Hu) as [k Hku]. rewrite Hku.
    now apply has_key_id.
  Qed.

  Definition all_lt h (l : list (nat * E)) : Prop := forall x, In x l -> fst x < size h.

  Lemma wf_outs_lt h u : Wf h -> all_lt h (outs h u).
  Proof. intros (_ & H & _) [v e] Hx. cbn. eapply H; eassumption. Qed.

  Lemma wf_ins_lt h u : Wf h -> all_lt h (ins h u).
  Proof. intros (_ & _ & H) [v e] Hx. cbn. eapply H; eassumption. Qed.

  Lemma rm_has_key h v k l :
    KeysInj h -> keyof h v = Some k -> all_lt h l ->
    remove_first_p (has_key keqb h k) l = remove_first_p (ideq v) l.
  Proof.
    intros HI Hv Hl. apply remove_first_p_ext. intros x Hx. unfold ideq.
    apply has_key_id; auto.
  Qed.

  Lemma ff_has_key h v k l :
    KeysInj h -> keyof h v = Some k -> all_lt h l ->
    find_first_p (has_key keqb h k) l = find_first_p (ideq v) l.
  Proof.
    intros HI Hv Hl. apply find_first_p_ext. intros x Hx. unfold ideq.
    apply has_key_id; auto.
  Qed.

  Lemma rm_same_key h u l :
    KeysInj h -> u < size h -> all_lt h l ->
    remove_first_p (same_key keqb h u) l = remove_first_p (ideq u) l.
  Proof.
    intros HI Hu Hl. apply remove_first_p_ext. intros x Hx. unfold ideq.
    apply same_key_id; auto.
  Qed.

  (* ------------------------------------------------------------------ *)
  (* invariants under pointwise-described heap changes                   *)
  (* ------------------------------------------------------------------ *)
  Lemma size_nodes h h' : nodes h' = nodes h -> size h' = size h.
  Proof. unfold size. now intros ->. Qed.

  Lemma keyof_nodes h h' w : nodes h' = nodes h -> keyof h' w = keyof h w.
  Proof. unfold keyof. now intros ->. Qed.

  Lemma keysinj_nodes h h' : nodes h' = nodes h -> KeysInj h -> KeysInj h'.
  Proof.
    intros Hn HI u v k. rewrite !(fun w => keyof_nodes h h' w Hn). apply HI.
  Qed.

  Lemma wf_sub h h' :
    Wf h -> nodes h' = nodes h ->
    (forall w x, In x (outs h' w) -> In x (outs h w)) ->
    (forall w x, In x (ins h' w) -> In x (ins h w)) ->
    Wf h'.
  Proof.
    intros (H1 & H2 & H3) Hn Ho Hi. rewrite <- (size_nodes h h' Hn) in *.
    split; [|split].
    - intros u Hu. destruct (H1 u Hu) as [Ha Hb]. split.
      + destruct (outs h' u) as [|x r] eqn:Hx; [reflexivity|].
        exfalso. specialize (Ho u x). rewrite Hx, Ha in Ho. apply Ho. now left.
      + destruct (ins h' u) as [|x r] eqn:Hx; [reflexivity|].
        exfalso. specialize (Hi u x). rewrite Hx, Hb in Hi. apply Hi. now left.
    - intros u v e Hin. eapply H2. apply Ho. eassumption.
    - intros u v e Hin. eapply H3. apply Hi. eassumption.
  Qed.

  (* removing the first half-edge a->b from outs a and its partner from ins b *)
  Lemma mirror_remove h h' a b m1 m2 l1 l2 e e' :
    Mirror h ->
    outs h a = m1 ++ (b, e) :: m2 -> (forall x, In x m1 -> fst x <> b) ->
    ins h b = l1 ++ (a, e') :: l2 -> (forall x, In x l1 -> fst x <> a) ->
    (forall w, outs h' w = if Nat.eqb w a then m1 ++ m2 else outs h w) ->
    (forall w, ins h' w = if Nat.eqb w b then l1 ++ l2 else ins h w) ->
    Mirror h' /\ e = e'.
  Proof.
    intros HM Ho Hm1 Hi Hl1 Ho' Hi'.
    assert (Hab := HM a b). rewrite Ho, Hi in Hab.
    rewrite to_split_same in Hab by exact Hm1. rewrite to_split_same in Hab by exact Hl1.
    inversion Hab as [[He Hrest]]. split; [|reflexivity].
    intros x y. rewrite Ho', Hi'.
    destruct (Nat.eqb_spec x a) as [->|Hxa]; destruct (Nat.eqb_spec y b) as [->|Hyb].
    - exact Hrest.
    - rewrite <- (HM a y), Ho. symmetry. apply to_split_other. exact Hyb.
    - rewrite (HM x b), Hi. apply to_split_other. exact Hxa.
    - apply HM.
  Qed.

  (* ------------------------------------------------------------------ *)
  (* connect / alloc                                                     *)
  (* ------------------------------------------------------------------ *)
  Lemma connect_outs h u v e w :
    outs (connect h u v e) w = if Nat.eqb w u then outs h u ++ [(v, e)] else outs h w.
  Proof. reflexivity. Qed.

  Lemma connect_ins h u v e w :
    ins (connect h u v e) w = if Nat.eqb w v then ins h v ++ [(u, e)] else ins h w.
  Proof. reflexivity. Qed.

  Lemma connect_mirror h u v e : Mirror h -> Mirror (connect h u v e).
  Proof.
    intros HM a b. rewrite connect_outs, connect_ins.
    destruct (Nat.eqb_spec a u) as [->|Ha]; destruct (Nat.eqb_spec b v) as [->|Hb].
    - rewrite !to_app, !to_single_same. now rewrite HM.
    - rewrite to_app, to_single_other by congruence. rewrite app_nil_r. apply HM.
    - rewrite to_app, to_single_other by congruence. rewrite app_nil_r. apply HM.
    - apply HM.
  Qed.

  Lemma connect_wf h u v e : Wf h -> u < size h -> v < size h -> Wf (connect h u v e).
  Proof.
    intros (H1 & H2 & H3) Hu Hv. split; [|split].
    - intros w Hw. change (size (connect h u v e)) with (size h) in Hw.
      rewrite connect_outs, connect_ins.
      destruct (Nat.eqb_spec w u); [lia|]. destruct (Nat.eqb_spec w v); [lia|]. now apply H1.
    - intros a b x. rewrite connect_outs. change (size (connect h u v e)) with (size h).
      destruct (Nat.eqb_spec a u) as [->|Ha].
      + intros Hin. apply in_app_or in Hin. destruct Hin as [Hin|[Hin|[]]].
        * eapply H2; eassumption.
        * inversion Hin; subst. exact Hv.
      + apply H2.
    - intros a b x. rewrite connect_ins. change (size (connect h u v e)) with (size h).
      destruct (Nat.eqb_spec a v) as [->|Ha].
      + intros Hin. apply in_app_or in Hin. destruct Hin as [Hin|[Hin|[]]].
        * eapply H3; eassumption.
        * inversion Hin; subst. exact Hu.
      + apply H3.
  Qed.

  Lemma keyof_alloc h k x w :
    keyof (alloc h k x) w =
    if Nat.ltb w (size h) then keyof h w else if Nat.eqb w (size h) then Some k else None.
  Proof.
    unfold keyof, alloc, size. cbn [nodes].
    destruct (Nat.ltb_spec w (length (nodes h))) as [Hlt|Hge].
    - now rewrite nth_error_app1.
    - rewrite nth_error_app2 by exact Hge.
      destruct (Nat.eqb_spec w (length (nodes h))) as [->|Hne].
      + now rewrite Nat.sub_diag.
      + destruct (w - length (nodes h)) as [|n] eqn:Hd; [lia|]. cbn. now destruct n.
  Qed.

  Lemma size_alloc h k x : size (alloc h k x) = S (size h).
  Proof. unfold size, alloc. cbn [nodes]. rewrite app_length. cbn. lia. Qed.

  (* ------------------------------------------------------------------ *)
  (* queries                                                             *)
  (* ------------------------------------------------------------------ *)
  Lemma find_adjacent_app h u k :
    find_adjacent keqb h u k = find_first_p (has_key keqb h k) (adj_u h u).
  Proof. unfold find_adjacent, find_outbound, find_inbound, adj_u. now rewrite find_first_app. Qed.

  Lemma adj_u_lt h u : Wf h -> all_lt h (adj_u h u).
  Proof.
    intros HW x Hx. unfold adj_u in Hx. apply in_app_or in Hx.
    destruct Hx; [eapply wf_outs_lt|eapply wf_ins_lt]; eassumption.
  Qed.

  Lemma find_adjacent_id h u v k :
    Wf h -> KeysInj h -> keyof h v = Some k ->
    find_adjacent keqb h u k = find_first_p (ideq v) (adj_u h u).
  Proof.
    intros HW HI Hv. rewrite find_adjacent_app. apply ff_has_key; auto. now apply adj_u_lt.
  Qed.

  Lemma find_first_is_some v (l : list (nat * E)) :
    is_some (find_first_p (ideq v) l) = true <-> exists e, In (v, e) l.
  Proof.
    destruct (find_first_p (ideq v) l) as [x|] eqn:Hf; cbn [is_some].
    - apply find_first_some in Hf. destruct Hf as [Hx Hin]. destruct x as [a e]. cbn in Hx. subst a.
      split; [intros _; now exists e|reflexivity].
    - apply find_first_none in Hf. split; [discriminate|].
      intros Hex. apply to_nonnil_iff in Hex. congruence.
  Qed.

  Lemma is_connected_u_id h u v kv :
    Wf h -> KeysInj h -> keyof h v = Some kv ->
    (is_connected_u keqb h u kv = true <-> exists e, In (v, e) (adj_u h u)).
  Proof.
    intros HW HI Hv. unfold is_connected_u. rewrite (find_adjacent_id h u v kv HW HI Hv).
    apply find_first_is_some.
  Qed.

  (* ------------------------------------------------------------------ *)
  (* disconnect_u                                                        *)
  (* ------------------------------------------------------------------ *)
  Lemma upd_if (A : Type) (f : nat -> A) u x w : upd f u x w = if Nat.eqb w u then x else f w.
  Proof. reflexivity. Qed.

  (* the pair (outs a loses first b-entry, ins b loses first a-entry) keeps Inv *)
  Lemma inv_remove h h' a b m1 m2 l1 l2 e e' :
    Inv h -> nodes h' = nodes h ->
    outs h a = m1 ++ (b, e) :: m2 -> (forall x, In x m1 -> fst x <> b) ->
    ins h b = l1 ++ (a, e') :: l2 -> (forall x, In x l1 -> fst x <> a) ->
    (forall w, outs h' w = if Nat.eqb w a then m1 ++ m2 else outs h w) ->
    (forall w, ins h' w = if Nat.eqb w b then l1 ++ l2 else ins h w) ->
    Inv h'.
  Proof.
    intros (HM & HW & HI) Hn Ho Hm1 Hi Hl1 Ho' Hi'. split; [|split].
    - eapply mirror_remove; eassumption.
    - apply (wf_sub h h' HW Hn).
      + intros w x. rewrite Ho'. destruct (Nat.eqb_spec w a) as [->|_]; [|auto].
        rewrite Ho. apply incl_split_remove.
      + intros w x. rewrite Hi'. destruct (Nat.eqb_spec w b) as [->|_]; [|auto].
        rewrite Hi. apply incl_split_remove.
    - exact (keysinj_nodes h h' Hn HI).
  Qed.

  Lemma disconnect_u_notfound h u k :
    Inv h -> find_adjacent keqb h u k = None ->
    forall v e, In (v, e) (adj_u h u) -> keyof h v <> Some k.
  Proof.
    intros (HM & HW & HI) Hf v e Hin Hv.
    rewrite (find_adjacent_id h u v k HW HI Hv) in Hf.
    apply find_first_none in Hf. rewrite to_nil_iff in Hf. apply (Hf (v, e) Hin). reflexivity.
  Qed.

  Lemma find_adjacent_found h u k v e0 :
    Inv h -> find_adjacent keqb h u k = Some (v, e0) ->
    keyof h v = Some k /\ In (v, e0) (adj_u h u).
  Proof.
    intros (HM & HW & HI) Hf. rewrite find_adjacent_app in Hf.
    apply find_first_p_some in Hf. destruct Hf as [Hp Hin]. split; [|exact Hin].
    cbn [fst] in Hp. unfold has_key in Hp. destruct (keyof h v) as [k'|]; [|discriminate].
    apply Hk in Hp. now subst.
  Qed.

  (* branch 1: an inbound half from v exists at u *)
  Lemma disconnect_u_in h u k v e0 e l' :
    Inv h -> u < size h -> keyof h v = Some k ->
    find_adjacent keqb h u k = Some (v, e0) ->
    remove_first_p (ideq v) (ins h u) = Some (e, l') ->
    exists h', disconnect_u keqb h u k = (h', OkE e) /\ nodes h' = nodes h /\ Inv h' /\
      exists l1 l2 m1 m2, ins h u = l1 ++ (v, e) :: l2 /\ (forall x, In x l1 -> fst x <> v) /\
        outs h v = m1 ++ (u, e) :: m2 /\ (forall x, In x m1 -> fst x <> u) /\
        ins h' u = l1 ++ l2 /\ outs h' v = m1 ++ m2 /\
        (forall w, w <> u -> ins h' w = ins h w) /\ (forall w, w <> v -> outs h' w = outs h w).
  Proof.
    intros HInv Hu Hv Hf Hr. pose proof HInv as (HM & HW & HI).
    apply remove_first_some in Hr. destruct Hr as (l1 & l2 & Hi & -> & Hl1).
    assert (Hmir := HM v u). rewrite Hi in Hmir. rewrite to_split_same in Hmir by exact Hl1.
    apply to_head_remove in Hmir. destruct Hmir as (m1 & m2 & Ho & Hm1 & _).
    exists (set_outs (set_ins h u (l1 ++ l2)) v (m1 ++ m2)).
    assert (Hd : disconnect_u keqb h u k = (set_outs (set_ins h u (l1 ++ l2)) v (m1 ++ m2), OkE e)).
    { unfold disconnect_u. rewrite Hf.
      rewrite (rm_has_key h v k (ins h u) HI Hv (wf_ins_lt h u HW)).
      rewrite Hi. rewrite remove_first_split by exact Hl1.
      cbv zeta.
      rewrite (rm_same_key (set_ins h u (l1 ++ l2)) u (outs (set_ins h u (l1 ++ l2)) v)
                 HI Hu (wf_outs_lt h v HW)).
      cbn [outs set_ins]. rewrite Ho. rewrite remove_first_split by exact Hm1. reflexivity. }
    split; [exact Hd|]. split; [reflexivity|].
    assert (Ho' : forall w, outs (set_outs (set_ins h u (l1 ++ l2)) v (m1 ++ m2)) w
                            = if Nat.eqb w v then m1 ++ m2 else outs h w) by reflexivity.
    assert (Hi' : forall w, ins (set_outs (set_ins h u (l1 ++ l2)) v (m1 ++ m2)) w
                            = if Nat.eqb w u then l1 ++ l2 else ins h w) by reflexivity.
    split.
    { exact (inv_remove h (set_outs (set_ins h u (l1 ++ l2)) v (m1 ++ m2)) v u m1 m2 l1 l2 e e HInv eq_refl Ho Hm1 Hi Hl1 Ho' Hi'). }
    exists l1, l2, m1, m2. repeat split; try assumption.
    - rewrite Hi'. now rewrite Nat.eqb_refl.
    - rewrite Ho'. now rewrite Nat.eqb_refl.
    - intros w Hw. rewrite Hi'. destruct (Nat.eqb_spec w u); [congruence|reflexivity].
    - intros w Hw. rewrite Ho'. destruct (Nat.eqb_spec w v); [congruence|reflexivity].
  Qed.

  (* branch 2: no inbound half from v at u; the outbound one is removed *)
  Lemma disconnect_u_out h u k v e0 :
    Inv h -> u < size h -> keyof h v = Some k ->
    find_adjacent keqb h u k = Some (v, e0) ->
    remove_first_p (ideq v) (ins h u) = None ->
    exists e h', disconnect_u keqb h u k = (h', OkE e) /\ nodes h' = nodes h /\ Inv h' /\
      (forall x, In x (ins h u) -> fst x <> v) /\
      exists l1 l2 m1 m2, outs h u = l1 ++ (v, e) :: l2 /\ (forall x, In x l1 -> fst x <> v) /\
        ins h v = m1 ++ (u, e) :: m2 /\ (forall x, In x m1 -> fst x <> u) /\
        outs h' u = l1 ++ l2 /\ ins h' v = m1 ++ m2 /\
        (forall w, w <> u -> outs h' w = outs h w) /\ (forall w, w <> v -> ins h' w = ins h w).
  Proof.
    intros HInv Hu Hv Hf Hr. pose proof HInv as (HM & HW & HI).
    pose proof Hr as Hnone. apply remove_first_none in Hnone.
    assert (Hne : to_ v (outs h u) <> []).
    { destruct (find_adjacent_found h u k v e0 HInv Hf) as [_ Hin].
      unfold adj_u in Hin. apply in_app_or in Hin. destruct Hin as [Hin|Hin].
      - apply to_nonnil_iff. now exists e0.
      - exfalso. rewrite to_nil_iff in Hnone. apply (Hnone (v, e0) Hin). reflexivity. }
    destruct (to_ v (outs h u)) as [|e t] eqn:Hto; [congruence|]. clear Hne.
    pose proof Hto as Hsplit.
    apply to_head_remove in Hsplit. destruct Hsplit as (l1 & l2 & Ho & Hl1 & _).
    assert (Hmir := HM u v). rewrite Hto in Hmir. symmetry in Hmir.
    apply to_head_remove in Hmir. destruct Hmir as (m1 & m2 & Hi & Hm1 & _).
    exists e, (set_ins (set_outs h u (l1 ++ l2)) v (m1 ++ m2)).
    assert (Hd : disconnect_u keqb h u k = (set_ins (set_outs h u (l1 ++ l2)) v (m1 ++ m2), OkE e)).
    { unfold disconnect_u. rewrite Hf.
      rewrite (rm_has_key h v k (ins h u) HI Hv (wf_ins_lt h u HW)). rewrite Hr.
      rewrite (rm_has_key h v k (outs h u) HI Hv (wf_outs_lt h u HW)).
      rewrite Ho. rewrite remove_first_split by exact Hl1.
      cbv zeta.
      rewrite (rm_same_key (set_outs h u (l1 ++ l2)) u (ins (set_outs h u (l1 ++ l2)) v)
                 HI Hu (wf_ins_lt h v HW)).
      cbn [ins set_outs]. rewrite Hi. rewrite remove_first_split by exact Hm1. reflexivity. }
    split; [exact Hd|]. split; [reflexivity|].
    assert (Ho' : forall w, outs (set_ins (set_outs h u (l1 ++ l2)) v (m1 ++ m2)) w
                            = if Nat.eqb w u then l1 ++ l2 else outs h w) by reflexivity.
    assert (Hi' : forall w, ins (set_ins (set_outs h u (l1 ++ l2)) v (m1 ++ m2)) w
                            = if Nat.eqb w v then m1 ++ m2 else ins h w) by reflexivity.
    split.
    { exact (inv_remove h (set_ins (set_outs h u (l1 ++ l2)) v (m1 ++ m2)) u v l1 l2 m1 m2 e e HInv eq_refl Ho Hl1 Hi Hm1 Ho' Hi'). }
    split. { now apply to_nil_iff. }
    exists l1, l2, m1, m2. repeat split; try assumption.
    - rewrite Ho'. now rewrite Nat.eqb_refl.
    - rewrite Hi'. now rewrite Nat.eqb_refl.
    - intros w Hw. rewrite Ho'. destruct (Nat.eqb_spec w u); [congruence|reflexivity].
    - intros w Hw. rewrite Hi'. destruct (Nat.eqb_spec w v); [congruence|reflexivity].
  Qed.

  (* ------------------------------------------------------------------ *)
  (* isolate_u                                                           *)
  (* ------------------------------------------------------------------ *)
  Lemma iso_adj_loop_S f h u pos :
    iso_adj_loop keqb (S f) h u pos =
    match adj_at h u pos with
    | None => (h, LDone)
    | Some (v, _) =>
        match remove_first_p (same_key keqb h u) (ins h v) with
        | Some (_, l') => iso_adj_loop keqb f (set_ins h v l') u (S pos)
        | None =>
            match remove_first_p (same_key keqb h u) (outs h v) with
            | Some (_, l') => iso_adj_loop keqb f (set_outs h v l') u (S pos)
            | None => (h, LPanic)
            end
        end
    end.
  Proof. reflexivity. Qed.

  Lemma adj_at_out h u pos x : nth_error (outs h u) pos = Some x -> adj_at h u pos = Some x.
  Proof. unfold adj_at. now intros ->. Qed.

  Lemma adj_at_in h u j : adj_at h u (length (outs h u) + j) = nth_error (ins h u) j.
  Proof.
    unfold adj_at.
    assert (Hn : nth_error (outs h u) (length (outs h u) + j) = None) by (apply nth_error_None; lia).
    rewrite Hn. f_equal. lia.
  Qed.

  (* phase 1: the walk is inside [outs h u]; entry (v,_) removes the first u-entry of [ins v] *)
  Definition P1 h u pos : Prop := forall v, to_ v (skipn pos (outs h u)) = to_ u (ins h v).

  Lemma phase1 u : forall n h pos fuel,
    Wf h -> KeysInj h -> u < size h -> P1 h u pos -> pos + n = length (outs h u) ->
    exists h1, iso_adj_loop keqb (n + fuel) h u pos = iso_adj_loop keqb fuel h1 u (length (outs h u)) /\
      nodes h1 = nodes h /\ (forall w, outs h1 w = outs h w) /\
      (forall w, filter (nu (E:=E) u) (ins h1 w) = filter (nu u) (ins h w)) /\
      (forall w, to_ u (ins h1 w) = []) /\ Wf h1.
  Proof.
    induction n as [|n IH]; intros h pos fuel HW HI Hu HP Hlen.
    - exists h. replace pos with (length (outs h u)) in * by lia.
      split; [reflexivity|]. split; [reflexivity|]. split; [reflexivity|]. split; [reflexivity|].
      split; [|exact HW]. intros w. rewrite <- (HP w). now rewrite skipn_all.
    - destruct (nth_error (outs h u) pos) as [[v e0]|] eqn:Hnth;
        [|apply nth_error_None in Hnth; lia].
      pose proof (skipn_nth _ _ Hnth) as Hsk.
      assert (Hv := HP v). rewrite Hsk, to_cons in Hv. cbn [fst snd] in Hv.
      rewrite Nat.eqb_refl in Hv. symmetry in Hv.
      apply to_head_remove in Hv. destruct Hv as (l1 & l2 & Hi & Hl1 & Hrest).
      set (h' := set_ins h v (l1 ++ l2)).
      assert (Hi' : forall w, ins h' w = if Nat.eqb w v then l1 ++ l2 else ins h w) by reflexivity.
      assert (HW' : Wf h').
      { apply (wf_sub h h' HW eq_refl); [auto|].
        intros w x. rewrite Hi'. destruct (Nat.eqb_spec w v) as [->|_]; [|auto].
        rewrite Hi. apply incl_split_remove. }
      assert (HP' : P1 h' u (S pos)).
      { intros w. change (outs h' u) with (outs h u). rewrite Hi'.
        destruct (Nat.eqb_spec w v) as [->|Hwv]; [now rewrite Hrest|].
        rewrite <- (HP w), Hsk, to_cons. cbn [fst].
        destruct (Nat.eqb_spec v w); [congruence|reflexivity]. }
      destruct (IH h' (S pos) fuel HW' HI Hu HP') as (h1 & Hrun & Hn1 & Ho1 & Hf1 & Ht1 & HW1).
      { change (outs h' u) with (outs h u). lia. }
      exists h1. split.
      { change (S n + fuel) with (S (n + fuel)). rewrite iso_adj_loop_S.
        rewrite (adj_at_out h u pos _ Hnth).
        rewrite (rm_same_key h u (ins h v) HI Hu (wf_ins_lt h v HW)).
        rewrite Hi, remove_first_split by exact Hl1. exact Hrun. }
      split; [exact Hn1|]. split; [exact Ho1|]. split; [|split; assumption].
      intros w. rewrite Hf1, Hi'. destruct (Nat.eqb_spec w v) as [->|_]; [|reflexivity].
      rewrite Hi. symmetry. apply filter_nu_split.
  Qed.

  (* phase 2: the walk is inside [ins h u], which holds no self entries any more and no
     [ins] list holds a u-entry; entry (w,_) removes the first u-entry of [outs w] *)
  Definition P2 h u j : Prop :=
    (forall w, to_ u (ins h w) = []) /\
    (forall w, w <> u -> to_ w (skipn j (ins h u)) = to_ u (outs h w)).

  Lemma phase2 u : forall n h j fuel,
    Wf h -> KeysInj h -> u < size h -> P2 h u j -> j + n = length (ins h u) -> n < fuel ->
    exists h2, iso_adj_loop keqb fuel h u (length (outs h u) + j) = (h2, LDone) /\
      nodes h2 = nodes h /\ (forall w, ins h2 w = ins h w) /\ outs h2 u = outs h u /\
      (forall w, w <> u -> filter (nu (E:=E) u) (outs h2 w) = filter (nu u) (outs h w) /\
                           to_ u (outs h2 w) = []).
  Proof.
    induction n as [|n IH]; intros h j fuel HW HI Hu [HPa HPb] Hlen Hfuel;
      (destruct fuel as [|f]; [lia|]).
    - exists h. replace j with (length (ins h u)) in * by lia.
      split.
      { rewrite iso_adj_loop_S, adj_at_in.
        assert (Hn : nth_error (ins h u) (length (ins h u)) = None) by (apply nth_error_None; lia).
        now rewrite Hn. }
      split; [reflexivity|]. split; [reflexivity|]. split; [reflexivity|].
      intros w Hw. split; [reflexivity|]. rewrite <- (HPb w Hw). now rewrite skipn_all.
    - destruct (nth_error (ins h u) j) as [[w e0]|] eqn:Hnth;
        [|apply nth_error_None in Hnth; lia].
      pose proof (skipn_nth _ _ Hnth) as Hsk.
      assert (Hwu : w <> u).
      { assert (Hx := HPa u). rewrite to_nil_iff in Hx.
        apply (Hx (w, e0)). eapply nth_error_In; eassumption. }
      assert (Hw := HPb w Hwu). rewrite Hsk, to_cons in Hw. cbn [fst snd] in Hw.
      rewrite Nat.eqb_refl in Hw. symmetry in Hw.
      apply to_head_remove in Hw. destruct Hw as (m1 & m2 & Ho & Hm1 & Hrest).
      set (h' := set_outs h w (m1 ++ m2)).
      assert (Ho' : forall x, outs h' x = if Nat.eqb x w then m1 ++ m2 else outs h x) by reflexivity.
      assert (Hou : outs h' u = outs h u).
      { rewrite Ho'. destruct (Nat.eqb_spec u w); [congruence|reflexivity]. }
      assert (HW' : Wf h').
      { apply (wf_sub h h' HW eq_refl); [|auto].
        intros x y. rewrite Ho'. destruct (Nat.eqb_spec x w) as [->|_]; [|auto].
        rewrite Ho. apply incl_split_remove. }
      assert (HP' : P2 h' u (S j)).
      { split; [exact HPa|]. intros x Hx. change (ins h' u) with (ins h u). rewrite Ho'.
        destruct (Nat.eqb_spec x w) as [->|Hxw]; [now rewrite Hrest|].
        rewrite <- (HPb x Hx), Hsk, to_cons. cbn [fst].
        destruct (Nat.eqb_spec w x); [congruence|reflexivity]. }
      destruct (IH h' (S j) f HW' HI Hu HP') as (h2 & Hrun & Hn2 & Hi2 & Hou2 & Hrest2).
      { change (ins h' u) with (ins h u). lia. }
      { lia. }
      exists h2. split.
      { rewrite iso_adj_loop_S, adj_at_in, Hnth.
        rewrite (rm_same_key h u (ins h w) HI Hu (wf_ins_lt h w HW)).
        assert (Hnone : remove_first_p (ideq u) (ins h w) = None) by (apply remove_first_none; apply HPa).
        rewrite Hnone.
        rewrite (rm_same_key h u (outs h w) HI Hu (wf_outs_lt h w HW)).
        rewrite Ho, remove_first_split by exact Hm1.
        rewrite Hou in Hrun. rewrite <- Hrun. f_equal. lia. }
      split; [exact Hn2|]. split; [exact Hi2|]. split; [now rewrite Hou2|].
      intros x Hx. destruct (Hrest2 x Hx) as [Hf Ht]. split; [|exact Ht].
      rewrite Hf, Ho'. destruct (Nat.eqb_spec x w) as [->|_]; [|reflexivity].
      rewrite Ho. symmetry. apply filter_nu_split.
  Qed.

  Lemma iso_char_inv h h' u :
    Inv h -> nodes h' = nodes h ->
    (forall w, outs h' w = if Nat.eqb w u then [] else filter (nu u) (outs h w)) ->
    (forall w, ins h' w = if Nat.eqb w u then [] else filter (nu u) (ins h w)) ->
    Inv h'.
  Proof.
    intros (HM & HW & HI) Hn Ho Hi. split; [|split].
    - intros a b. rewrite Ho, Hi.
      destruct (Nat.eqb_spec a u) as [->|Ha]; destruct (Nat.eqb_spec b u) as [->|Hb].
      + reflexivity.
      + rewrite to_filter_nu, Nat.eqb_refl. reflexivity.
      + rewrite to_filter_nu, Nat.eqb_refl. reflexivity.
      + rewrite !to_filter_nu.
        destruct (Nat.eqb_spec a u); [congruence|]. destruct (Nat.eqb_spec b u); [congruence|].
        apply HM.
    - apply (wf_sub h h' HW Hn).
      + intros w x. rewrite Ho. destruct (Nat.eqb w u); [intros []|apply filter_nu_incl].
      + intros w x. rewrite Hi. destruct (Nat.eqb w u); [intros []|apply filter_nu_incl].
    - exact (keysinj_nodes h h' Hn HI).
  Qed.

  Lemma isolate_u_char h u :
    Inv h -> u < size h ->
    exists h', isolate_u keqb h u = (h', OkU) /\ nodes h' = nodes h /\
      (forall w, outs h' w = if Nat.eqb w u then [] else filter (nu u) (outs h w)) /\
      (forall w, ins h' w = if Nat.eqb w u then [] else filter (nu u) (ins h w)).
  Proof.
    intros (HM & HW & HI) Hu.
    destruct (phase1 u (length (outs h u)) h 0 (S (length (ins h u))) HW HI Hu)
      as (h1 & Hrun1 & Hn1 & Ho1 & Hf1 & Ht1 & HW1).
    { intros v. cbn [skipn]. apply HM. }
    { reflexivity. }
    assert (Hi1 : forall w, ins h1 w = filter (nu u) (ins h w)).
    { intros w. rewrite <- Hf1. symmetry. apply filter_nu_id. apply Ht1. }
    assert (HI1 : KeysInj h1) by exact (keysinj_nodes h h1 Hn1 HI).
    assert (Hu1 : u < size h1) by (rewrite (size_nodes h h1 Hn1); exact Hu).
    destruct (phase2 u (length (ins h1 u)) h1 0 (S (length (ins h u))) HW1 HI1 Hu1)
      as (h2 & Hrun2 & Hn2 & Hi2 & Hou2 & Hrest2).
    { split; [exact Ht1|]. intros w Hw. cbn [skipn]. rewrite Hi1, to_filter_nu.
      destruct (Nat.eqb_spec w u); [congruence|]. rewrite Ho1. symmetry. apply HM. }
    { reflexivity. }
    { rewrite Hi1. pose proof (filter_len_le (nu u) (ins h u)). lia. }
    exists (clear_both h2 u). split.
    { unfold isolate_u.
      replace (S (length (outs h u) + length (ins h u)))
        with (length (outs h u) + S (length (ins h u))) by lia.
      rewrite Hrun1. rewrite <- (Ho1 u). rewrite Nat.add_0_r in Hrun2. rewrite Hrun2. reflexivity. }
    split; [cbn [clear_both set_ins set_outs nodes]; congruence|].
    split.
    - intros w. change (outs (clear_both h2 u) w) with (if Nat.eqb w u then [] else outs h2 w).
      destruct (Nat.eqb_spec w u) as [_|Hw]; [reflexivity|].
      destruct (Hrest2 w Hw) as [Hf Ht]. rewrite <- (Ho1 w), <- Hf. symmetry. now apply filter_nu_id.
    - intros w. change (ins (clear_both h2 u) w) with (if Nat.eqb w u then [] else ins h2 w).
      destruct (Nat.eqb_spec w u) as [_|Hw]; [reflexivity|]. now rewrite Hi2, Hi1.
  Qed.

  (* ------------------------------------------------------------------ *)
  (* histories                                                           *)
  (* ------------------------------------------------------------------ *)
  Lemma empty_inv : Inv (@empty_heap K V E).
  Proof.
    split; [|split].
    - intros u v. reflexivity.
    - split; [|split].
      + intros u _. split; reflexivity.
      + intros u v e [].
      + intros u v e [].
    - intros u v k Hu. unfold keyof, empty_heap in Hu. cbn [nodes] in Hu.
      destruct u; discriminate.
  Qed.

  Lemma valid_lt h u : valid h u = true <-> u < size h.
  Proof. unfold valid. apply Nat.ltb_lt. Qed.

  (* ================================================================== *)
  (* FINAL THEOREMS                                                      *)
  (* ================================================================== *)
  Theorem u_connect_inv : forall h u v e,
    Inv h -> u < size h -> v < size h -> Inv (connect h u v e).
  Proof.
    intros h u v e (HM & HW & HI) Hu Hv. split; [|split].
    - now apply connect_mirror.
    - now apply connect_wf.
    - exact (keysinj_nodes h (connect h u v e) eq_refl HI).
  Qed.

  Theorem u_alloc_inv : forall h k x,
    Inv h -> (forall w, keyof h w <> Some k) -> Inv (alloc h k x).
  Proof.
    intros h k x (HM & (H1 & H2 & H3) & HI) Hfresh. split; [|split].
    - exact HM.
    - unfold Wf. rewrite size_alloc. split; [|split].
      + intros u Hu. apply H1. lia.
      + intros u v e Hin. change (outs (alloc h k x) u) with (outs h u) in Hin.
        specialize (H2 u v e Hin). lia.
      + intros u v e Hin. change (ins (alloc h k x) u) with (ins h u) in Hin.
        specialize (H3 u v e Hin). lia.
    - intros u v k'. rewrite !keyof_alloc.
      destruct (Nat.ltb_spec u (size h)) as [Hu|Hu]; destruct (Nat.ltb_spec v (size h)) as [Hv|Hv].
      + apply HI.
      + destruct (Nat.eqb_spec v (size h)); [|discriminate].
        intros Ha Hb. inversion Hb; subst k'. exfalso. exact (Hfresh u Ha).
      + destruct (Nat.eqb_spec u (size h)); [|discriminate].
        intros Ha Hb. inversion Ha; subst k'. exfalso. exact (Hfresh v Hb).
      + destruct (Nat.eqb_spec u (size h)); [|discriminate].
        destruct (Nat.eqb_spec v (size h)); [|discriminate]. intros _ _. congruence.
  Qed.

  Theorem is_connected_u_spec : forall h u v kv,
    Inv h -> u < size h -> keyof h v = Some kv ->
    (is_connected_u keqb h u kv = true <-> exists e, In (v, e) (adj_u h u)).
  Proof.
    intros h u v kv (HM & HW & HI) _ Hv. now apply is_connected_u_id.
  Qed.

  Theorem try_connect_u_spec : forall h u v e,
    Inv h -> u < size h -> v < size h ->
    ((exists e', In (v, e') (adj_u h u)) /\ try_connect_u keqb h u v e = (h, ErrExists)) \/
    ((forall e', ~ In (v, e') (adj_u h u)) /\ try_connect_u keqb h u v e = (connect h u v e, OkU)).
  Proof.
    intros h u v e HInv Hu Hv. destruct (keyof_lt h v Hv) as [kv Hkv].
    pose proof (is_connected_u_spec h u v kv HInv Hu Hkv) as Hspec.
    unfold try_connect_u. rewrite Hkv.
    destruct (is_connected_u keqb h u kv) eqn:Hc.
    - left. split; [now apply Hspec|reflexivity].
    - right. split; [|reflexivity]. intros e' Hin.
      assert (Ht : false = true) by (apply Hspec; now exists e'). discriminate.
  Qed.

  Theorem disconnect_u_spec : forall h u k, Inv h -> u < size h ->
     ((forall v e, In (v, e) (adj_u h u) -> keyof h v <> Some k) /\ disconnect_u keqb h u k = (h, ErrNotFound)) \/
     (exists v e h', keyof h v = Some k /\ disconnect_u keqb h u k = (h', OkE e) /\ nodes h' = nodes h /\ Inv h' /\
        ( (exists l1 l2 m1 m2, ins h u = l1 ++ (v, e) :: l2 /\ (forall x, In x l1 -> fst x <> v) /\
             outs h v = m1 ++ (u, e) :: m2 /\ (forall x, In x m1 -> fst x <> u) /\
             ins h' u = l1 ++ l2 /\ outs h' v = m1 ++ m2 /\
             (forall w, w <> u -> ins h' w = ins h w) /\ (forall w, w <> v -> outs h' w = outs h w))
          \/
          ((forall x, In x (ins h u) -> fst x <> v) /\
           exists l1 l2 m1 m2, outs h u = l1 ++ (v, e) :: l2 /\ (forall x, In x l1 -> fst x <> v) /\
             ins h v = m1 ++ (u, e) :: m2 /\ (forall x, In x m1 -> fst x <> u) /\
             outs h' u = l1 ++ l2 /\ ins h' v = m1 ++ m2 /\
             (forall w, w <> u -> outs h' w = outs h w) /\ (forall w, w <> v -> ins h' w = ins h w)) )).
  Proof.
    intros h u k HInv Hu.
    destruct (find_adjacent keqb h u k) as [[v e0]|] eqn:Hf.
    - right. destruct (find_adjacent_found h u k v e0 HInv Hf) as [Hv _].
      destruct (remove_first_p (ideq v) (ins h u)) as [[e l']|] eqn:Hr.
      + destruct (disconnect_u_in h u k v e0 e l' HInv Hu Hv Hf Hr) as (h' & Hd & Hn & HI' & Hsh).
        exists v, e, h'. split; [exact Hv|]. split; [exact Hd|]. split; [exact Hn|].
        split; [exact HI'|]. left. exact Hsh.
      + destruct (disconnect_u_out h u k v e0 HInv Hu Hv Hf Hr) as (e & h' & Hd & Hn & HI' & Hno & Hsh).
        exists v, e, h'. split; [exact Hv|]. split; [exact Hd|]. split; [exact Hn|].
        split; [exact HI'|]. right. split; [exact Hno|exact Hsh].
    - left. split; [now apply disconnect_u_notfound|].
      unfold disconnect_u. now rewrite Hf.
  Qed.

  Theorem isolate_u_spec : forall h u, Inv h -> u < size h ->
     exists h', isolate_u keqb h u = (h', OkU) /\ nodes h' = nodes h /\
       (forall w, outs h' w = if Nat.eqb w u then [] else filter (fun p => negb (Nat.eqb (fst p) u)) (outs h w)) /\
       (forall w, ins h' w = if Nat.eqb w u then [] else filter (fun p => negb (Nat.eqb (fst p) u)) (ins h w)) /\
       Inv h'.
  Proof.
    intros h u HInv Hu.
    destruct (isolate_u_char h u HInv Hu) as (h' & Hrun & Hn & Ho & Hi).
    exists h'. split; [exact Hrun|]. split; [exact Hn|]. split; [exact Ho|]. split; [exact Hi|].
    exact (iso_char_inv h h' u HInv Hn Ho Hi).
  Qed.

  (* one step: invariant, no panic, and where the keys of the new heap come from *)
  Lemma step_u_full : forall h o, Inv h ->
    (forall k x, o = ONew k x -> forall w, keyof h w <> Some k) ->
    Inv (fst (step_u keqb h o)) /\ snd (step_u keqb h o) <> Panic /\
    (forall w k, keyof (fst (step_u keqb h o)) w = Some k ->
                 keyof h w = Some k \/ exists x, o = ONew k x).
  Proof.
    intros h o HInv Hfresh. destruct o as [k x|u v e|u v e|u k|u]; cbn [step_u].
    - cbn [fst snd]. split; [|split; [discriminate|]].
      + apply u_alloc_inv; [exact HInv|]. exact (Hfresh k x eq_refl).
      + intros w k'. rewrite keyof_alloc. destruct (Nat.ltb w (size h)); [now left|].
        destruct (Nat.eqb w (size h)); [|discriminate].
        intros Heq. inversion Heq; subst. right. now exists x.
    - destruct (valid h u && valid h v) eqn:Hval; cbn [fst snd].
      + apply andb_true_iff in Hval. destruct Hval as [Hu Hv].
        apply valid_lt in Hu. apply valid_lt in Hv.
        split; [now apply u_connect_inv|]. split; [discriminate|]. intros w k Hw. now left.
      + split; [exact HInv|]. split; [discriminate|]. intros w k Hw. now left.
    - destruct (valid h u && valid h v) eqn:Hval.
      + apply andb_true_iff in Hval. destruct Hval as [Hu Hv].
        apply valid_lt in Hu. apply valid_lt in Hv.
        destruct (try_connect_u_spec h u v e HInv Hu Hv) as [[_ ->]|[_ ->]]; cbn [fst snd].
        * split; [exact HInv|]. split; [discriminate|]. intros w k Hw. now left.
        * split; [now apply u_connect_inv|]. split; [discriminate|]. intros w k Hw. now left.
      + cbn [fst snd]. split; [exact HInv|]. split; [discriminate|]. intros w k Hw. now left.
    - destruct (valid h u) eqn:Hval.
      + apply valid_lt in Hval.
        destruct (disconnect_u_spec h u k HInv Hval) as [[_ ->]|(v & e & h' & _ & -> & Hn & HI' & _)];
          cbn [fst snd].
        * split; [exact HInv|]. split; [discriminate|]. intros w k' Hw. now left.
        * split; [exact HI'|]. split; [discriminate|]. intros w k' Hw. left.
          now rewrite <- (keyof_nodes h h' w Hn).
      + cbn [fst snd]. split; [exact HInv|]. split; [discriminate|]. intros w k' Hw. now left.
    - destruct (valid h u) eqn:Hval.
      + apply valid_lt in Hval.
        destruct (isolate_u_spec h u HInv Hval) as (h' & -> & Hn & _ & _ & HI'). cbn [fst snd].
        split; [exact HI'|]. split; [discriminate|]. intros w k' Hw. left.
        now rewrite <- (keyof_nodes h h' w Hn).
      + cbn [fst snd]. split; [exact HInv|]. split; [discriminate|]. intros w k' Hw. now left.
  Qed.

  Theorem step_u_inv : forall h o, Inv h ->
    (forall k x, o = ONew k x -> forall w, keyof h w <> Some k) ->
    Inv (fst (step_u keqb h o)) /\ snd (step_u keqb h o) <> Panic.
  Proof.
    intros h o HInv Hfresh. destruct (step_u_full h o HInv Hfresh) as (H1 & H2 & _). now split.
  Qed.

  Lemma new_keys_cons_in (o : op K V E) r k : In k (new_keys r) -> In k (new_keys (o :: r)).
  Proof. destruct o; cbn [new_keys]; auto. intros H. now right. Qed.

  Lemma run_from_u_inv : forall ops h,
    Inv h -> NoDup (new_keys ops) ->
    (forall k, In k (new_keys ops) -> forall w, keyof h w <> Some k) ->
    Inv (fst (run_from (step_u keqb) h ops)) /\ NoPanic (snd (run_from (step_u keqb) h ops)).
  Proof.
    induction ops as [|o r IH]; intros h HInv Hnd Hfresh.
    - cbn. split; [exact HInv|constructor].
    - cbn [run_from].
      assert (Hfo : forall k x, o = ONew k x -> forall w, keyof h w <> Some k).
      { intros k x -> w. apply Hfresh. cbn [new_keys]. now left. }
      destruct (step_u_full h o HInv Hfo) as (HI1 & Hnp & Hkeys).
      destruct (step_u keqb h o) as [h1 x1] eqn:Hs. cbn [fst snd] in *.
      assert (Hnd' : NoDup (new_keys r)).
      { destruct o; cbn [new_keys] in Hnd; try exact Hnd. now inversion Hnd. }
      assert (Hfresh' : forall k, In k (new_keys r) -> forall w, keyof h1 w <> Some k).
      { intros k Hin w Hw. destruct (Hkeys w k Hw) as [Hold|[x ->]].
        - exact (Hfresh k (new_keys_cons_in o r k Hin) w Hold).
        - cbn [new_keys] in Hnd. inversion Hnd; subst. contradiction. }
      destruct (IH h1 HI1 Hnd' Hfresh') as [HI2 Hnp2].
      destruct (run_from (step_u keqb) h1 r) as [h2 xs]. cbn [fst snd] in *.
      split; [exact HI2|]. constructor; assumption.
  Qed.

  Theorem run_u_inv : forall ops : list (op K V E), KeysFresh ops ->
    Inv (fst (run_u keqb ops)) /\ NoPanic (snd (run_u keqb ops)).
  Proof.
    intros ops Hf. unfold run_u. apply run_from_u_inv.
    - exact empty_inv.
    - exact Hf.
    - intros k _ w. unfold keyof, empty_heap. cbn [nodes]. destruct w; discriminate.
  Qed.

  Theorem adj_symmetric : forall h, Mirror h ->
    forall u v, Permutation (to_ v (adj_u h u)) (to_ u (adj_u h v)).
  Proof.
    intros h HM u v. unfold adj_u. rewrite !to_app.
    rewrite (HM u v), <- (HM v u). apply Permutation_app_comm.
  Qed.

  Theorem degree_u_facts : forall h, Inv h -> forall u v kv ku,
    keyof h u = Some ku -> keyof h v = Some kv ->
    (is_connected_u keqb h u kv = is_connected_u keqb h v ku) /\
    degree_u h u = length (outs h u) + length (ins h u).
  Proof.
    intros h HInv u v kv ku Hu Hv. split; [|reflexivity].
    pose proof HInv as (HM & HW & HI).
    pose proof (is_connected_u_id h u v kv HW HI Hv) as H1.
    pose proof (is_connected_u_id h v u ku HW HI Hu) as H2.
    assert (Hiff : (exists e, In (v, e) (adj_u h u)) <-> (exists e, In (u, e) (adj_u h v))).
    { rewrite <- !to_nonnil_iff. pose proof (adj_symmetric h HM u v) as HP. split; intros Hne Hnil.
      - rewrite Hnil in HP. apply Permutation_sym, Permutation_nil in HP. contradiction.
      - rewrite Hnil in HP. apply Permutation_nil in HP. contradiction. }
    destruct (is_connected_u keqb h u kv); destruct (is_connected_u keqb h v ku); try reflexivity.
    - symmetry. apply H2, Hiff, H1. reflexivity.
    - apply H1, Hiff, H2. reflexivity.
  Qed.

End NodeU.

Print Assumptions u_connect_inv.
Print Assumptions u_alloc_inv.
Print Assumptions is_connected_u_spec.
Print Assumptions try_connect_u_spec.
Print Assumptions disconnect_u_spec.
Print Assumptions isolate_u_spec.
Print Assumptions step_u_inv.
Print Assumptions run_u_inv.
Print Assumptions adj_symmetric.
Print Assumptions degree_u_facts.
