(* ConcCycle.v — one more refutation of unrestricted serialisability (C17, D11): four threads, one connect each,
   whose four adjacency lists (out 0, in 0, out 1, in 1) are each shared by two of the connects.  Every connect is
   two critical sections (push to the source's outbound list, then to the target's inbound list); a schedule can
   order the four lists so that the "happened before" relation between the connects is a cycle, and then no
   sequential order of the four calls produces the final adjacency lists.  Proofs only; closed. *)
From Coq Require Import List Arith Permutation.
Import ListNotations.
From Gdsl.Model Require Import Base NodeOps Conc.
From Gdsl.Proofs Require Import ConcProof.

Definition cyc_calls : list (call nat nat) :=
  [CConnect nat 0 0 7; CConnect nat 0 1 8; CConnect nat 1 1 9; CConnect nat 1 0 6].
Definition cyc_progs : list (list (call nat nat)) := map (fun c => [c]) cyc_calls.
Definition cyc_sched : list nat := [0; 1; 1; 2; 2; 3; 3; 0].

Definition graph_of (c : config nat nat nat) :=
  (outs (c_heap c) 0, ins (c_heap c) 0, outs (c_heap c) 1, ins (c_heap c) 1).

(* the four calls executed sequentially, in the order p, by one thread *)
Definition serial_graph (p : list (call nat nat)) := graph_of (run_n true heap2 [p] []).

Fixpoint insert_all {A} (x : A) (l : list A) : list (list A) :=
  match l with
  | [] => [[x]]
  | y :: r => (x :: l) :: map (cons y) (insert_all x r)
  end.
Fixpoint perms {A} (l : list A) : list (list A) :=
  match l with
  | [] => [[]]
  | x :: r => flat_map (insert_all x) (perms r)
  end.

Lemma insert_all_in {A} (x : A) (p1 p2 : list A) : In (p1 ++ x :: p2) (insert_all x (p1 ++ p2)).
Proof.
  induction p1 as [|y p1 IH]; cbn [app insert_all].
  - destruct p2; cbn; auto.
  - right. apply in_map. exact IH.
Qed.

Lemma perms_complete {A} (l : list A) : forall p, Permutation l p -> In p (perms l).
Proof.
  induction l as [|x r IH]; intros p Hp.
  - apply Permutation_nil in Hp. subst. cbn. auto.
  - assert (Hin : In x p) by (eapply Permutation_in; [exact Hp | left; reflexivity]).
    apply in_split in Hin. destruct Hin as [p1 [p2 ->]].
    apply Permutation_cons_app_inv in Hp.
    cbn [perms]. apply in_flat_map. exists (p1 ++ p2). split; [apply IH; exact Hp | apply insert_all_in].
Qed.

Definition prod_eq_dec (p q : nat * nat) : {p = q} + {p <> q}.
Proof. decide equality; apply Nat.eq_dec. Defined.

Definition adjb (x y : list (nat * nat)) : bool :=
  if list_eq_dec (fun p q : nat * nat => prod_eq_dec p q) x y then true else false.
Definition graph_eqb (a b : list (nat * nat) * list (nat * nat) * list (nat * nat) * list (nat * nat)) : bool :=
  match a, b with
  | (a1, a2, a3, a4), (b1, b2, b3, b4) => adjb a1 b1 && adjb a2 b2 && adjb a3 b3 && adjb a4 b4
  end.

Lemma adjb_refl x : adjb x x = true.
Proof. unfold adjb. destruct (list_eq_dec _ x x) as [_|N]; [reflexivity | exfalso; apply N; reflexivity]. Qed.

Lemma graph_eqb_refl g : graph_eqb g g = true.
Proof. destruct g as [[[a b] c] d]. unfold graph_eqb. rewrite !adjb_refl. reflexivity. Qed.

Lemma graph_eqb_neq a b : graph_eqb a b = false -> a <> b.
Proof. intros H E. subst b. rewrite graph_eqb_refl in H. discriminate. Qed.

Definition cyc_final := graph_of (run_n true heap2 cyc_progs cyc_sched).

Lemma cyc_serial_all :
  forallb (fun q => all_done (run_n true heap2 [q] []) && negb (graph_eqb (serial_graph q) cyc_final)) (perms cyc_calls) = true.
Proof. vm_compute. reflexivity. Qed.

Theorem c17_refuted_cycle :
  let c := run_n true heap2 cyc_progs cyc_sched in
  all_done c = true /\ no_panic c = true /\
  map (@t_results nat nat nat) (c_threads c) = [[RO OkU]; [RO OkU]; [RO OkU]; [RO OkU]] /\
  graph_of c = ([(0, 7); (1, 8)], [(1, 6); (0, 7)], [(1, 9); (0, 6)], [(0, 8); (1, 9)]) /\
  forall p, Permutation cyc_calls p -> all_done (run_n true heap2 [p] []) = true /\ serial_graph p <> graph_of c.
Proof.
  cbv zeta. split; [vm_compute; reflexivity|]. split; [vm_compute; reflexivity|].
  split; [vm_compute; reflexivity|]. split; [vm_compute; reflexivity|].
  intros p Hp. apply perms_complete in Hp.
  pose proof cyc_serial_all as Hall.
  rewrite forallb_forall in Hall. specialize (Hall p Hp). cbv beta in Hall.
  apply andb_prop in Hall. destruct Hall as [Hd Hne]. split; [exact Hd|].
  apply graph_eqb_neq. apply Bool.negb_true_iff. exact Hne.
Qed.

Print Assumptions c17_refuted_cycle.
